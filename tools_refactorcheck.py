#!/venv/bin/python
"""Run the property's check on every filed behaviour-preserving refactoring (/verif/refactors/*): expected exit 0.

usage: tools_refactorcheck.py [name ...] [-v]"""
import json, os, subprocess, sys, tempfile
from concurrent.futures import ThreadPoolExecutor
verbose = "-v" in sys.argv
names = [a for a in sys.argv[1:] if a != "-v"] or sorted(os.listdir("/verif/refactors"))
def run(name):
    d = f"/verif/refactors/{name}"
    prop = json.load(open(f"{d}/meta.json"))["property"]
    wt = tempfile.mkdtemp(prefix=f"refchk_{name}_", dir="/tmp"); os.rmdir(wt)
    try:
        subprocess.run(f"git -C /repo worktree add --detach -q {wt} HEAD", shell=True, check=True, capture_output=True)
        subprocess.run(f"git -C {wt} apply {d}/patch.diff", shell=True, check=True, capture_output=True)
        p = subprocess.run(f"/venv/bin/python -m hgxverif check {prop} --repo {wt} --evidence-dir /tmp/refchk_ev/{name}", shell=True, cwd="/verif", capture_output=True, text=True)
        lines = [l.strip() for l in p.stdout.splitlines() if l.startswith("  hypergraphx/") or l.startswith("ANALYSIS-ERROR")]
        head = p.stdout.splitlines()[0] if p.stdout else ""
        return name, prop, p.returncode, lines, head
    finally:
        subprocess.run(f"git -C /repo worktree remove --force {wt}", shell=True, capture_output=True)
with ThreadPoolExecutor(8) as ex:
    for name, prop, rc, lines, head in ex.map(run, names):
        verdict = {0: "SILENT", 1: "FALSE-ALARM", 2: "ANALYSIS-ERROR"}.get(rc, rc)
        import re
        m = re.search(r"unknown=(\d+)", head)
        print(f"{name:8} {prop} {verdict} unknown={m.group(1) if m else '?'} violations={len(lines) if rc == 1 else 0}")
        if verbose or rc != 0:
            for l in lines[: (200 if verbose else 6)]:
                print("      ", l[:230])

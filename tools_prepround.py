#!/venv/bin/python
"""Prepare scratch worktrees (under /tmp/wt) and TASK.md / PROPERTY.md files for one round of sub-agent work.

usage: tools_prepround.py <seed suffix> <refactor suffix> <config.json>
config.json: {"foci": [4 strings - kind of breaking commit, by property index % 4],
              "styles": [2 strings - refactoring style, by property index % 2]}
Only the text of the property goes to the agents; nothing from /verif.  Tool for the author of /verif, not part of any check."""
import json, subprocess, sys, os

seed_suf, ref_suf, cfg = sys.argv[1], sys.argv[2], json.load(open(sys.argv[3]))
props = {json.loads(l)["id"]: json.loads(l) for l in open("/verif/properties.jsonl")}
RANDOM = {"C13", "C14", "C15", "C16", "C17", "C18"}
ids = [p for p in props if p != "C11"]
os.makedirs("/tmp/wt", exist_ok=True)
for i, pid in enumerate(ids):
    d = props[pid]
    for suf in (ref_suf, seed_suf):
        n = pid + suf
        subprocess.run(f"git -C /repo worktree add --detach -q /tmp/wt/{n} HEAD", shell=True, check=True)
        txt = f"# Property {d['id']}: {d['title']}\n\n## Statement\n{d['statement']}\n\n## Quantifier\n{d['quantifier']}\n\n## Why tests cannot settle it\n{d.get('why_tests_cant','')}\n\n## Code anchors\n" + json.dumps(d.get("anchors"), indent=1) + "\n"
        open(f"/tmp/wt/{n}/PROPERTY.md", "w").write(txt)
    style = cfg["styles"][i % len(cfg["styles"])]
    wt = f"/tmp/wt/{pid}{ref_suf}"
    extra = " (including the exact sequence of random draws from the global / seeded generators and bit-for-bit floating-point results)" if pid in RANDOM or pid in ("C09", "C20") else ""
    open(f"{wt}/TASK.md", "w").write(f"""# Task

You are working in a scratch git worktree of the Python library HGX-Team/hypergraphx at {wt} (a detached checkout; the interpreter is /venv/bin/python 3.12; run code with PYTHONPATH={wt}). The file {wt}/PROPERTY.md states one behavioural property of the library and the source code it is about. Read it and that code.

Produce a substantial BEHAVIOUR-PRESERVING refactoring of the code that implements this property, of the kind a maintainer might do in a clean-up PR. The property must still hold afterwards and the observable behaviour (return values, raised exception types, the state left behind when an exception is raised, mutated state of every internal table, iteration orders, public signatures and parameter names, public import paths{extra}) must be exactly as before for every input. Do not fix bugs, do not change behaviour, do not touch tests, do not add dependencies.

Style to use in this round:
{style}

Deliverables, all inside {wt}:
1. the edited / added source files (leave them applied in the worktree; `git add -N` any NEW file so that it shows up in `git diff`);
2. equiv.py - a differential test that loads the ORIGINAL package (obtain it with `git archive HEAD hypergraphx` into a temp import root INSIDE {wt}; remove any temporary directory you create before exiting) and your refactored package, drives both with many randomly generated inputs / operation histories relevant to the property (several hundred cases, fixed seeds, invalid calls included), and compares results, exceptions and resulting internal state exactly; exit code 0 iff no difference. It must pass.
3. the full test suite must still pass: `cd {wt} && PYTHONPATH={wt} /venv/bin/python -m pytest -q -p no:cacheprovider -n 8` (430 tests; tests/generation/test_random.py::test_random_shuffle_all_orders_multiple_sizes is flaky under -n 8: rerun serially without -n if it fails).
4. patch.diff from `git diff -- hypergraphx > patch.diff` (it must contain new files too - hence `git add -N`), and meta.json with keys "summary" (3-8 sentences), "techniques" (list), "files" (list).

Rules: work only inside {wt}. NEVER use `git stash`, never commit, never switch branches, never touch /repo or any other directory, do not read anything under /verif. When done, reply with a short summary (files touched, refactoring kinds, equiv.py result, test-suite result).
""")
    wd = f"/tmp/wt/{pid}{seed_suf}"
    focus = cfg["foci"][i % len(cfg["foci"])]
    open(f"{wd}/TASK.md", "w").write(f"""# Task

You are working in a scratch git worktree of the Python library HGX-Team/hypergraphx at {wd} (detached checkout; interpreter /venv/bin/python; run code with PYTHONPATH={wd}). Read {wd}/PROPERTY.md: it states one behavioural property of the library and names the code it is about. Read that code.

Make ONE realistic change to the library source (under hypergraphx/) - the kind of change a contributor could plausibly make - that BREAKS this property while the code still imports and the whole existing test suite still passes unedited. The defect must need something specific to show up (a particular input shape, history of operations, parameter combination or ordering), so that ordinary testing would miss it. Do not touch tests; do not add dependencies; keep the diff modest (typically 3-30 changed lines) and make it look like an honest commit (adjust nearby comments / docstrings accordingly).

The kind of commit to imitate in this round: {focus}. Prefer a logic defect (wrong table updated, missing update on one path, wrong key / unit / role / order, option not honoured, state shared or left stale, wrong bound, wrong population iterated, a responsibility moved to the wrong place) over a numeric tweak.

Deliverables, all inside {wd}:
1. the edited source (leave applied);
2. demo.py - a short deterministic script that exits 0 on the original code and exits non-zero (assertion failure) on your changed code, demonstrating the violated property on a concrete input;
3. patch.diff from `git diff -- hypergraphx > patch.diff`;
4. meta.json with keys "property": "{pid}", "summary" (what changed and why it breaks the property), "needs" (what specific input / history is needed for it to show), "files" (list), "commands_run" (list).
Verify yourself: (a) `cd {wd} && PYTHONPATH={wd} /venv/bin/python -m pytest -q -p no:cacheprovider -n 8` reports 430 passed (tests/generation/test_random.py::test_random_shuffle_all_orders_multiple_sizes is flaky under -n 8: rerun serially without -n if it fails); (b) demo.py fails with the change; (c) with the change reverted (`git diff -- hypergraphx > patch.diff; git apply -R patch.diff`) demo.py passes; then re-apply (`git apply patch.diff`).

Rules: work only inside {wd}. NEVER use `git stash`, never commit, never switch branches, never touch /repo or other directories, do not read anything under /verif. Reply with a short summary of the change, the needed trigger, and the verification results.
""")
print("ok", len(os.listdir("/tmp/wt")))

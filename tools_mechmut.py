#!/venv/bin/python
"""Sensitivity under restructuring: apply each breaking variant of the self-test matrix, THEN a mechanical
behaviour-preserving transform to the whole tree, and run the property: the variant's rule should still fire.
(A miss here is lost sensitivity on restructured code, not a false alarm.)

usage: tools_mechmut.py [transform ...]"""
import importlib, os, sys, time, warnings
warnings.filterwarnings("ignore")
from concurrent.futures import ProcessPoolExecutor
sys.path.insert(0, "/verif")
from hgxverif import mechanical as MECH
from hgxverif import mutants as MU

def job(args):
    tname, mid, repo = args
    from hgxverif.ctx import Ctx
    from hgxverif.model import AnalysisError
    m = next(x for x in MU.MUTANTS if x.id == mid)
    try:
        src = open(os.path.join(repo, m.file), encoding="utf-8").read()
        new = m.apply(src)
        if new is None:
            return tname, mid, m.kind, "skipped"
        import ast, copy
        ov = MECH.overrides_for(repo, MECH.TRANSFORMS[tname])
        tree = ast.parse(new)
        t2 = MECH.TRANSFORMS[tname](copy.deepcopy(tree))
        ast.fix_missing_locations(t2)
        ov[m.file] = ast.unparse(t2)
        ctx = Ctx(repo, "quick", overrides=ov)
        mod = importlib.import_module(f"hgxverif.props.{m.prop.lower()}")
        res = mod.run(ctx)
        res.dedupe()
        from hgxverif.report import load_known, match_known
        kn = load_known()
        rules = {o.rule for o in res.obs if o.status == "violation" and match_known(m.prop, o, kn) is None}
        if m.kind == "break":
            return tname, mid, m.kind, "fired" if m.rule in rules else ("fired-other" if rules else "missed")
        return tname, mid, m.kind, "silent" if not rules else "false-alarm:" + ",".join(sorted(rules))
    except AnalysisError as e:
        return tname, mid, m.kind, "error"
    except Exception as e:
        return tname, mid, m.kind, f"crash {type(e).__name__}: {e}"

if __name__ == "__main__":
    tnames = [a for a in sys.argv[1:] if not a.startswith("-")] or list(MECH.TRANSFORMS)
    jobs = [(t, m.id, "/repo") for t in tnames for m in MU.MUTANTS]
    with ProcessPoolExecutor(16) as ex:
        results = list(ex.map(job, jobs, chunksize=4))
    import collections
    for t in tnames:
        c = collections.Counter(r[3].split(":")[0] if r[3].startswith("false") or r[3].startswith("crash") else r[3] for r in results if r[0] == t)
        print(f"{t:24} " + " ".join(f"{k}={v}" for k, v in sorted(c.items())))
        for r in results:
            if r[0] == t and (r[3].startswith("false-alarm") or r[3].startswith("crash") or ("-v" in sys.argv and r[3] in ("missed", "error"))):
                print("     ", r[1], r[3][:200])

#!/venv/bin/python
"""Markdown table: seeded change -> verdict and the rules that report it (used for DESIGN.md section 8)."""
import json, os, subprocess, sys, tempfile, re
from concurrent.futures import ThreadPoolExecutor
names = sorted(n for n in os.listdir("/verif/seeded") if os.path.isdir(f"/verif/seeded/{n}"))
def run(name):
    d = f"/verif/seeded/{name}"
    meta = json.load(open(f"{d}/meta.json"))
    prop = meta["property"]
    wt = tempfile.mkdtemp(prefix=f"seedtab_{name}_", dir="/tmp"); os.rmdir(wt)
    try:
        subprocess.run(f"git -C /repo worktree add --detach -q {wt} HEAD", shell=True, check=True, capture_output=True)
        subprocess.run(f"git -C {wt} apply {d}/patch.diff", shell=True, check=True, capture_output=True)
        p = subprocess.run(f"/venv/bin/python -m hgxverif check {prop} --repo {wt} --evidence-dir /tmp/seedtab_ev/{name}", shell=True, cwd="/verif", capture_output=True, text=True)
        rules = sorted({m.group(1) for m in re.finditer(r"^\s+hypergraphx/\S+ \S+: (\S+) \[", p.stdout, re.M)})
        verdict = {0: "missed", 1: "detected", 2: "analysis-error"}.get(p.returncode, str(p.returncode))
        files = ", ".join(sorted({f.split("/")[-1] for f in meta.get("files", [])}))
        summ = " ".join(str(meta.get("summary", "")).split())[:170]
        return f"| {name} | {prop} | {files} | {summ} | {verdict} | {', '.join(rules)} |"
    finally:
        subprocess.run(f"git -C /repo worktree remove --force {wt}", shell=True, capture_output=True)
with ThreadPoolExecutor(8) as ex:
    rows = list(ex.map(run, names))
print("| seed | prop | file | change (agent's summary, truncated) | verdict | reporting rules |\n|---|---|---|---|---|---|")
print("\n".join(rows))

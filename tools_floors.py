#!/venv/bin/python
"""Freeze instance-count floors from the evidence of a clean run (obligations >= 80%; per rule >= 60% for rules with at least 10 instances).
Analysing fewer instances than that is reported as ANALYSIS-ERROR, never as a pass."""
import glob, json, math
floors = {}
for f in sorted(glob.glob("/verif/evidence/C*.json")):
    d = json.load(open(f))
    c = d["coverage"]
    floors[d["property_id"]] = {
        "obligations": max(1, math.floor(c["obligations"] * 0.8)),
        "rules": {r: math.floor(sum(v.values()) * 0.6) for r, v in c["by_rule"].items() if sum(v.values()) >= 10},
        "measured": c["obligations"],
    }
json.dump(floors, open("/verif/floors.json", "w"), indent=1, sort_keys=True)
print({k: v["obligations"] for k, v in floors.items()})

#!/venv/bin/python
"""Freeze instance-count floors from the evidence of a clean run: at least a quarter of the measured obligations, and at
least one instance of every rule that had instances (no rule may become vacuous).  Analysing less than that is reported
as ANALYSIS-ERROR, never as a pass.  (Tighter per-rule floors made behaviour-preserving refactorings that merge
duplicated code - and so legitimately shrink the instance count - fail the run; see DESIGN 8.)"""
import glob, json, math
floors = {}
for f in sorted(glob.glob("/verif/evidence/C*.json")):
    d = json.load(open(f))
    c = d["coverage"]
    floors[d["property_id"]] = {
        "obligations": max(3, math.floor(c["obligations"] * 0.25)),
        "rules": {r: 1 for r, v in c["by_rule"].items() if sum(v.values()) >= 1 and r != "UNRECOGNISED"},
        "measured": c["obligations"],
    }
json.dump(floors, open("/verif/floors.json", "w"), indent=1, sort_keys=True)
print({k: v["obligations"] for k, v in floors.items()})

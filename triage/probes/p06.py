from hypergraphx import Hypergraph, DirectedHypergraph
h=Hypergraph([(1,2),(1,2,3)], node_metadata={1:{"c":"r"},2:{},3:{}})
s=h.get_edges(size=2, subhypergraph=True)
assert s.get_node_metadata(1)=={"c":"r"}, s.get_node_metadata(1)
d=DirectedHypergraph([((1,),(2,)),((1,2),(3,))], node_metadata={1:{"c":"r"},2:{},3:{}})
s=d.get_edges(size=2, subhypergraph=True)
assert s.get_node_metadata(1)=={"c":"r"}, s.get_node_metadata(1)
print("ok")

from hypergraphx import DirectedHypergraph
from hypergraphx.readwrite.hashing import hash_hypergraph
d=DirectedHypergraph([((1,),(2,))], weighted=True, weights=[3.0], node_metadata={1:{"a":1},2:{}})
d.clear()
assert d.get_all_edges_metadata()=={} and d.get_all_nodes_metadata()==[], (d.get_all_edges_metadata(), d.get_all_nodes_metadata())
assert d._weights=={} and d._reverse_edge_list=={}
assert d.expose_attributes_for_hashing()["nodes"]==[]
print("ok")

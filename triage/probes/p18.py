from hypergraphx import TemporalHypergraph
t=TemporalHypergraph(); t.add_edge((1,2),0); t.add_edge((3,4),1); t.add_node(9)
s=t.subhypergraph(add_all_nodes=True)
assert sorted(s[0].get_nodes())==[1,2,3,4,9], s[0].get_nodes()
assert sorted(s[1].get_nodes())==[1,2,3,4,9]
print("ok")

from hypergraphx import MultiplexHypergraph
m=MultiplexHypergraph(); m.add_edge((1,2),"a"); m.add_edge((1,2,3),"a"); m.add_edge((1,2),"b")
assert m.degree(1)==3
assert m.degree(1,size=2)==2, m.degree(1,size=2)
assert m.degree(1,order=2)==1
assert m.degree_sequence(size=3)=={1:1,2:1,3:1}, m.degree_sequence(size=3)
print("ok")

from hypergraphx import MultiplexHypergraph
m=MultiplexHypergraph(); m.add_edge((1,2),"L"); m.add_edge((1,2),"K"); m.add_edge((2,3),"L")
m.remove_edge(((2,1),"L"))
assert sorted(m.get_edges(), key=str)==[((1,2),"K"),((2,3),"L")], m.get_edges()
m.remove_node(3)
assert m.get_edges()==[((1,2),"K")], m.get_edges()
print("ok")

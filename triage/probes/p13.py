from hypergraphx import TemporalHypergraph, MultiplexHypergraph
t=TemporalHypergraph(); t.add_edge((1,2),3,metadata={"a":1}); t.add_edge((2,1),3)
assert t.get_incident_edges(1)==[(3,(1,2))], t.get_incident_edges(1)
assert t.degree(1)==1 and t.get_edge_metadata((1,2),3)=={"a":1}
m=MultiplexHypergraph(); m.add_edge((1,2),"L",metadata={"a":1}); m.add_edge((2,1),"L")
assert m.get_incident_edges(1)==[((1,2),"L")], m.get_incident_edges(1)
assert m.get_edge_metadata((1,2),"L")=={"a":1}
print("ok")

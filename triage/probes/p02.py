from hypergraphx import Hypergraph
h=Hypergraph([(1,2),(2,3),(3,4)],weighted=True,weights=[5.0,7.0,9.0])
s=h.subhypergraph([2,3,4])
assert s.get_weight((2,3))==7.0 and s.get_weight((3,4))==9.0, s.get_weights(asdict=True)
print("ok")

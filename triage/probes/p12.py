from hypergraphx import DirectedHypergraph, TemporalHypergraph, MultiplexHypergraph
d=DirectedHypergraph([((1,2),(3,))])
d.set_attr_to_edge_metadata(((2,1),(3,)),"k","v"); assert d.get_edge_metadata(((1,2),(3,)))=={"k":"v"}
d.remove_attr_from_edge_metadata(((2,1),(3,)),"k"); assert d.get_edge_metadata(((1,2),(3,)))=={}
t=TemporalHypergraph(); t.add_edge((2,1),3)
t.set_attr_to_edge_metadata((2,1),3,"k","v"); assert t.get_edge_metadata((1,2),3)=={"k":"v"}
t.remove_attr_from_edge_metadata((2,1),3,"k"); assert t.get_edge_metadata((1,2),3)=={}
m=MultiplexHypergraph(); m.add_edge((2,1),"L")
m.set_attr_to_edge_metadata((2,1),"L","k","v"); assert m.get_edge_metadata((1,2),"L")=={"k":"v"}
m.remove_attr_from_edge_metadata((2,1),"L","k"); assert m.get_edge_metadata((1,2),"L")=={}
print("ok")

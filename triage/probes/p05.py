import warnings
warnings.simplefilter("ignore")
from hypergraphx import Hypergraph, DirectedHypergraph, TemporalHypergraph, MultiplexHypergraph
for mk, call in [
  (lambda: Hypergraph(), lambda h: h.add_edges([(1,2),(2,3)], weights=[1.0])),
  (lambda: DirectedHypergraph(), lambda h: h.add_edges([((1,),(2,)),((2,),(3,))], weights=[1.0])),
  (lambda: TemporalHypergraph(), lambda h: h.add_edges([(1,2),(2,3)], [0,1], weights=[1.0])),
  (lambda: MultiplexHypergraph(), lambda h: h.add_edges([(1,2),(2,3)], ["a","b"], weights=[1.0])),
]:
    h=mk()
    try:
        call(h); raise SystemExit("no rejection")
    except ValueError:
        pass
    assert h.is_weighted() is False, type(h).__name__
print("ok")

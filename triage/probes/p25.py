import numpy as np, logging
from hypergraphx.generation.hy_mmsbm_sampling import HyMMSBMSampler
rng=np.random.default_rng(0)
u=rng.random((12,2)); w=np.array([[1.0,0.1],[0.1,1.0]])*3
def run():
    s=HyMMSBMSampler(u=u.copy(),w=w.copy(),max_hye_size=4,burn_in_steps=5,intermediate_steps=5,seed=7)
    g=s.sample()
    out=[]
    for _ in range(2):
        h=next(g); out.append(sorted((e,int(h.get_weight(e))) for e in h.get_edges()))
    return out
a=run(); b=run()
assert a==b, "not reproducible"
print("ok")

from hypergraphx import Hypergraph
h=Hypergraph([(1,2),(2,3,4),(5,6,7)])
cc=lambda **k: sorted(sorted(c) for c in h.connected_components(**k))
assert cc(size=2)==[[1,2],[3],[4],[5],[6],[7]], cc(size=2)
assert cc(order=2)==[[1],[2,3,4],[5,6,7]], cc(order=2)
assert sorted(h.node_connected_component(2,size=2))==[1,2]
assert h.num_connected_components(size=3)==3
assert sorted(h.largest_component(size=2))==[1,2]
assert h.largest_component_size(size=2)==2
print("ok")

import numpy as np, warnings
warnings.simplefilter("ignore")
from hypergraphx import Hypergraph
from hypergraphx.communities.hy_sc.model import HySC
from hypergraphx.communities.hypergraph_mt.model import HypergraphMT
h=Hypergraph([(0,1,2),(1,2,3),(4,5,6),(5,6,7),(3,4)]); h.add_node(8)
u=HySC(seed=1).fit(h,K=2)
assert u.shape==(9,2) and u[8].sum()==0 and (u[:8].sum(axis=1)==1).all(), u
m=HypergraphMT(n_realizations=1,max_iter=20,verbose=False) if 'verbose' in HypergraphMT.__init__.__code__.co_varnames else HypergraphMT(n_realizations=1,max_iter=20)
r=m.fit(h,K=2,seed=3)
print("ok")

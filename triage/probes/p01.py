from hypergraphx import Hypergraph
h=Hypergraph()
h.add_edge((1,2), metadata={"a":1}); h.add_edge((2,1))
assert h.degree(1)==1, h.degree(1)
assert h.get_incident_edges(1)==[(1,2)]
assert h.get_edge_metadata((1,2))=={"a":1}, h.get_edge_metadata((1,2))
h.remove_edge((1,2)); assert h.get_incident_edges(1)==[]
print("ok")

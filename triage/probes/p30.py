from hypergraphx import DirectedHypergraph
d=DirectedHypergraph([((1,2),(3,)),((3,),(4,5))])
assert d.get_neighbors(3)=={1,2,4,5}, d.get_neighbors(3)
assert d.get_neighbors(1,size=3)=={2,3}, d.get_neighbors(1,size=3)
print("ok")

import numpy as np
from hypergraphx import Hypergraph
from hypergraphx.linalg import laplacian_matrix_by_order, degree_matrix
h=Hypergraph([("a","b"),("b","c"),("a","b","c")])
L=laplacian_matrix_by_order(h,1).toarray()
assert np.allclose(L.sum(axis=1),0), L
assert np.allclose(np.diag(L),[1,2,1]), np.diag(L)
h2=Hypergraph([(10,20),(20,30)])
L2=laplacian_matrix_by_order(h2,1).toarray()
assert np.allclose(np.diag(L2),[1,2,1])
print("ok")

from hypergraphx import TemporalHypergraph
t=TemporalHypergraph(); t.add_edge((1,2),0); t.add_edge((1,2,3),1); t.add_edge((1,2,3,4),2)
assert t.num_edges(size=3)==1, t.num_edges(size=3)
assert t.num_edges(order=1)==1, t.num_edges(order=1)
assert t.num_edges(size=3, up_to=True)==2
assert t.num_edges(size=3)==len(t.get_edges(size=3))
print("ok")

from hypergraphx import MultiplexHypergraph
m=MultiplexHypergraph(); m.add_edge((1,2),"L")
a=m.aggregated_hypergraph()
assert m.get_hypergraph_metadata()["type"]=="MultiplexHypergraph", m.get_hypergraph_metadata()
assert a.get_hypergraph_metadata()["type"]=="Hypergraph"
print("ok")

from hypergraphx import DirectedHypergraph
from hypergraphx.readwrite.hashing import hash_hypergraph
a=DirectedHypergraph([((1,),(2,))])
b=DirectedHypergraph([((1,),(2,))])
b.add_node(9); b.remove_node(9)
assert 9 not in [n for n in b._node_metadata], b._node_metadata
assert hash_hypergraph(a)==hash_hypergraph(b)
print("ok")

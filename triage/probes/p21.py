import tempfile, os
from hypergraphx import Hypergraph, TemporalHypergraph, MultiplexHypergraph
from hypergraphx.readwrite import save_hypergraph
d=tempfile.mkdtemp()
h=Hypergraph([(1,2)],weighted=True,weights=[2.0]); save_hypergraph(h, os.path.join(d,"a.json"))
assert h.get_edge_metadata((1,2))=={}, h.get_edge_metadata((1,2))
t=TemporalHypergraph(); t.add_edge((1,2),3); save_hypergraph(t, os.path.join(d,"b.json"))
assert t.get_edge_metadata((1,2),3)=={}, t.get_edge_metadata((1,2),3)
m=MultiplexHypergraph(); m.add_edge((1,2),"L"); save_hypergraph(m, os.path.join(d,"c.json"))
assert m.get_edge_metadata((1,2),"L")=={}, m.get_edge_metadata((1,2),"L")
print("ok")

from hypergraphx import DirectedHypergraph
d=DirectedHypergraph()
d.add_edge(((1,2),(3,)), metadata={"a":1}); d.add_edge(((2,1),(3,)))
assert d.get_source_edges(1)==[((1,2),(3,))], d.get_source_edges(1)
assert d.get_target_edges(3)==[((1,2),(3,))]
assert d.degree(1)==1
assert d.get_edge_metadata(((1,2),(3,)))=={"a":1}
d.remove_edge(((1,2),(3,))); assert d.get_source_edges(1)==[]
print("ok")

from hypergraphx import Hypergraph
h=Hypergraph([(1,2)])
h.set_attr_to_edge_metadata((2,1),"k","v")
h.remove_attr_from_edge_metadata((2,1),"k")
assert h.get_edge_metadata((1,2))=={}
print("ok")

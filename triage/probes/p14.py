from hypergraphx import TemporalHypergraph
t=TemporalHypergraph(); t.add_edge((1,2),0); t.add_edge((2,3),1); t.add_edge((1,2,3),2)
t.remove_node(1)
assert t.get_edges()==[(1,(2,3))], t.get_edges()
t.add_edge((2,4),5)
t.remove_edges([(1,(2,3)),(5,(2,4))])
assert t.get_edges()==[]
t.add_edge((1,2,3),2); t.remove_node(1, keep_edges=True)
assert t.get_edges()==[(2,(2,3))], t.get_edges()
print("ok")

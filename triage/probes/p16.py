from hypergraphx import TemporalHypergraph, MultiplexHypergraph
t=TemporalHypergraph(weighted=True); t.add_edge((1,2,3),4,weight=5.0,metadata={"a":1})
t.remove_node(1, keep_edges=True)
assert t.get_weight((2,3),4)==5.0, t.get_weight((2,3),4)
assert t.get_edge_metadata((2,3),4)=={"a":1}
m=MultiplexHypergraph(weighted=True); m.add_edge((1,2,3),"L",weight=5.0,metadata={"a":1})
m.remove_node(1, keep_edges=True)
assert m.get_weight((2,3),"L")==5.0, m.get_weight((2,3),"L")
assert m.get_edge_metadata((2,3),"L")=={"a":1}
print("ok")

from hypergraphx.generation.scale_free import scale_free_hypergraph
h=scale_free_hypergraph(30,{2:10,3:5},{2:1.0,3:1.0})
assert h.num_nodes()==30 and h.num_edges(size=2)==10 and h.num_edges(size=3)==5
h=scale_free_hypergraph(30,{2:10,3:5},{2:1.0,3:1.0},corr_target=0.5)
assert h.num_edges()==15
print("ok")

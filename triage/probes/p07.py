from hypergraphx import DirectedHypergraph
d=DirectedHypergraph()
d.add_node(1, metadata={"c":"r"})
d.add_edge(((1,),(2,)))
assert d.get_node_metadata(1)=={"c":"r"}, d.get_node_metadata(1)
assert d.get_node_metadata(2)=={}, d.get_node_metadata(2)
print("ok")

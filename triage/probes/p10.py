from hypergraphx import DirectedHypergraph
d=DirectedHypergraph([((1,),(2,))])
assert d.check_node(1) is True
assert d.check_node(99) is False, d.check_node(99)
print("ok")

from hypergraphx import Hypergraph
h=Hypergraph([(1,2),(1,2,3)], node_metadata={1:{"c":"r"},2:{},3:{"z":1}})
s=h.subhypergraph_by_orders(sizes=[2], keep_nodes=False)
assert sorted(s.get_nodes())==[1,2] and s.get_node_metadata(1)=={"c":"r"}, s.get_nodes(metadata=True)
s=h.subhypergraph_by_orders(orders=[1], keep_nodes=True)
assert sorted(s.get_nodes())==[1,2,3] and s.get_node_metadata(3)=={"z":1} and s.get_node_metadata(1)=={"c":"r"}
print("ok")

from hypergraphx import TemporalHypergraph
from hypergraphx.measures.s_centralities import s_betweenness_nodes_averaged, s_closenness_nodes_averaged
t=TemporalHypergraph(); t.add_edge((1,2,3),0); t.add_edge((2,3),1)
r=s_betweenness_nodes_averaged(t); assert set(r)=={1,2,3}, r
t=TemporalHypergraph(); t.add_edge(("Eve","Bob","Al"),0); t.add_edge(("Bob","Al"),1)
r=s_closenness_nodes_averaged(t); assert set(r)=={"Eve","Bob","Al"}, r
print("ok")

from hypergraphx import Hypergraph
h=Hypergraph([(1,2)])
h.add_node(9,metadata={"c":"x"})
h.remove_node(9)
assert 9 not in h.get_all_nodes_metadata(), h.get_all_nodes_metadata()
h.add_node(9)
assert h.get_node_metadata(9)=={}, h.get_node_metadata(9)
print("ok")

from hypergraphx import TemporalHypergraph, MultiplexHypergraph
t=TemporalHypergraph(weighted=True)
t.add_edges([(1,2),(1,2)],[0,1],weights=[2.0,3.0])
assert t.get_weight((1,2),0)==2.0 and t.get_weight((1,2),1)==3.0
m=MultiplexHypergraph(weighted=True)
m.add_edges([(1,2),(1,2)],["a","b"],weights=[2.0,3.0])
assert m.get_weight((1,2),"a")==2.0 and m.get_weight((1,2),"b")==3.0
for mk in (lambda: TemporalHypergraph(weighted=True), ):
    h=mk()
    try: h.add_edges([(1,2),(1,2)],[0,0],weights=[1.0,1.0]); raise SystemExit("dup accepted")
    except ValueError: pass
print("ok")

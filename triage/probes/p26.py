import numpy as np
from hypergraphx.generation.hy_mmsbm_sampling import HyMMSBMSampler
rng=np.random.default_rng(0)
u=rng.random((10,2)); w=np.eye(2)
s=HyMMSBMSampler(u=u,w=w,max_hye_size=4,burn_in_steps=2,intermediate_steps=2,seed=1)
deg=np.array([3,3,2,2,2,2,1,1,0,0]); dim={3:2}   # degree total 16 > 6 forces the degree-exhaustion branch
g=s.sample(deg_seq=deg.astype(float), dim_seq=None) if False else None
hl=s._match_sequences(deg, dim, force_deg_seq=True, force_dim_seq=False)
assert s.matching_sequences is False and all(2<=len(h)<=4 for h in hl), hl
print("ok")

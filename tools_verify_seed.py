#!/venv/bin/python
"""Verify a seeded change delivered by a sub-agent and file it under /verif/seeded/<name>/.

usage: tools_verify_seed.py <agent worktree dir> <name>   (e.g. /tmp/wt/C01a C01a)
Checks, in a fresh scratch worktree of /repo HEAD: the patch applies; the unedited test-suite passes with it;
the demonstration fails with it and passes without it.  Writes meta.json (what was run, results).
"""
import json, os, shutil, subprocess, sys, tempfile

src, name = sys.argv[1], sys.argv[2]
prop = name[:3]
out = f"/verif/seeded/{name}"
wt = tempfile.mkdtemp(prefix="seedverify_", dir="/tmp")
os.rmdir(wt)
def sh(cmd, cwd=None, env=None):
    p = subprocess.run(cmd, shell=True, cwd=cwd, env=env, capture_output=True, text=True)
    return p.returncode, (p.stdout + p.stderr)[-1500:]
ran = []
try:
    rc, o = sh(f"git -C /repo worktree add --detach -q {wt} HEAD"); assert rc == 0, o
    patch = os.path.join(src, "patch.diff")
    # regenerate the patch from the agent's working tree (authoritative), restricted to the package
    rc, diff = subprocess.run(f"git -C {src} diff -- hypergraphx", shell=True, capture_output=True, text=True).returncode, None
    diff = subprocess.run(f"git -C {src} diff -- hypergraphx", shell=True, capture_output=True, text=True).stdout
    if not diff.strip():
        diff = open(patch).read()
    open(os.path.join(wt, "patch.diff"), "w").write(diff)
    env = dict(os.environ, PYTHONPATH=wt)
    shutil.copy(os.path.join(src, "demo.py"), os.path.join(wt, "demo.py"))
    rc0, o0 = sh("/venv/bin/python demo.py", cwd=wt, env=env); ran.append(("demo without change", rc0))
    rc, o = sh("git apply patch.diff", cwd=wt); assert rc == 0, "patch does not apply: " + o
    rc1, o1 = sh("/venv/bin/python demo.py", cwd=wt, env=env); ran.append(("demo with change", rc1))
    rct, ot = sh("/venv/bin/python -m pytest -q -p no:cacheprovider -n 8 2>&1 | tail -1", cwd=wt, env=env)
    if "430 passed" not in ot:
        rct, ot = sh("/venv/bin/python -m pytest -q -p no:cacheprovider 2>&1 | tail -1", cwd=wt, env=env)
    ran.append(("test-suite with change", ot.strip()))
    ok = rc0 == 0 and rc1 != 0 and "430 passed" in ot
    meta = {}
    try: meta = json.load(open(os.path.join(src, "meta.json")))
    except Exception as e: meta = {"agent_meta_error": str(e)}
    meta.update({"property": prop, "verified": ok, "verification": {"demo_without_change_exit": rc0, "demo_with_change_exit": rc1, "suite_with_change": ot.strip(), "demo_with_change_tail": o1[-400:]},
                 "ran": ["git worktree add (fresh /repo HEAD)", "python demo.py (unchanged: must exit 0)", "git apply patch.diff", "python demo.py (changed: must exit !=0)", "pytest -q (changed: must be 430 passed)"]})
    if ok:
        os.makedirs(out, exist_ok=True)
        open(os.path.join(out, "patch.diff"), "w").write(diff)
        shutil.copy(os.path.join(src, "demo.py"), os.path.join(out, "demo.py"))
        json.dump(meta, open(os.path.join(out, "meta.json"), "w"), indent=1)
    print(name, "VERIFIED" if ok else "REJECTED", ran)
finally:
    subprocess.run(f"git -C /repo worktree remove --force {wt}", shell=True, capture_output=True)

#!/venv/bin/python
"""Run the registered check of each seeded change's property against a scratch worktree with the change applied.

usage: tools_seedrun.py [name ...]      (default: every directory under /verif/seeded)
Prints one line per seeded change: DETECTED (exit 1 + VIOLATION) / MISSED (exit 0) / ERROR (exit 2).
"""
import json, os, subprocess, sys, tempfile
from concurrent.futures import ThreadPoolExecutor

names = sys.argv[1:] or sorted(n for n in os.listdir("/verif/seeded") if os.path.isdir(f"/verif/seeded/{n}"))

def run(name):
    d = f"/verif/seeded/{name}"
    prop = json.load(open(f"{d}/meta.json"))["property"]
    wt = tempfile.mkdtemp(prefix=f"seedrun_{name}_", dir="/tmp"); os.rmdir(wt)
    try:
        subprocess.run(f"git -C /repo worktree add --detach -q {wt} HEAD", shell=True, check=True, capture_output=True)
        subprocess.run(f"git -C {wt} apply {d}/patch.diff", shell=True, check=True, capture_output=True)
        p = subprocess.run(f"/venv/bin/python -m hgxverif check {prop} --repo {wt} --evidence-dir /tmp/seedrun_ev/{name}", shell=True, cwd="/verif", capture_output=True, text=True)
        lines = [l for l in p.stdout.splitlines() if l.startswith("  hypergraphx/") or l.startswith("ANALYSIS-ERROR")]
        verdict = {0: "MISSED", 1: "DETECTED", 2: "ERROR"}.get(p.returncode, f"rc={p.returncode}")
        return name, prop, verdict, lines[:4]
    finally:
        subprocess.run(f"git -C /repo worktree remove --force {wt}", shell=True, capture_output=True)

with ThreadPoolExecutor(8) as ex:
    for name, prop, verdict, lines in ex.map(run, names):
        print(f"{name:8} {prop} {verdict}")
        for l in lines:
            print("      ", l.strip()[:220])

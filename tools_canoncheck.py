import sys, os, shutil, subprocess, ast
sys.path.insert(0,'/verif')
from hgxverif.canon import canonicalise
src_root=sys.argv[1] if len(sys.argv)>1 else '/repo'
dst="/tmp/canon_tree"
shutil.rmtree(dst, ignore_errors=True)
shutil.copytree(src_root, dst, ignore=shutil.ignore_patterns('.git','__pycache__','*.pyc'))
n=0
for dp,dn,fn in os.walk(os.path.join(dst,'hypergraphx')):
    for f in fn:
        if f.endswith('.py'):
            p=os.path.join(dp,f); s=open(p).read()
            t=canonicalise(ast.parse(s)); out=ast.unparse(t)
            if out!=ast.unparse(ast.parse(s)): n+=1
            open(p,'w').write(out)
r=subprocess.run("/venv/bin/python -m pytest -q -p no:cacheprovider -x -q -n 8 2>&1 | tail -2", shell=True, cwd=dst, env=dict(os.environ, PYTHONPATH=dst), capture_output=True, text=True)
print(n,"files changed by canon;", r.stdout.strip().replace("\n"," | ")[-200:])
shutil.rmtree(dst, ignore_errors=True)

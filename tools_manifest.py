#!/venv/bin/python
"""Regenerate MANIFEST.json from the property modules that exist under hgxverif/props (claimed) - everything else
goes to not_applicable with its reason."""
import importlib, json, os, sys
sys.path.insert(0, "/verif")
NA_REASONS = {
    "C11": "counting identity over isomorphism classes (6 / 171) and three cooperating enumerators; no structural necessary condition exists that is not also a brittle pin of the source text: the only shape clause (larger hyperedges ignored) is guaranteed twice, so demanding either guard alarms on correct code (DESIGN.md section 3, C11)",
}
PENDING = "check under construction (DESIGN.md section 7); not yet armed"
TECH = {
    "C01": "kind inference (abstract interpretation) + CFG dominance / must-pass-through + effect analysis",
    "C02": "kind inference with source/target roles + CFG dominance / must-pass-through + effect analysis",
    "C03": "kind inference with composite (time, nodes) keys + CFG dominance (time validation, windows) + effect analysis",
    "C04": "kind inference with composite (nodes, layer) keys + CFG must-pass-through + effect analysis",
    "C05": "effect / alias analysis + must-flow rules on the CFG + kind checks of transferred arguments",
    "C06": "writer/reader schema agreement over the AST + effect analysis through lent references + call conformance",
    "C07": "effect analysis + sortedness / field-completeness dataflow of the hash pre-image + stale-table cross-check",
    "C08": "parameter-forwarding analysis over the resolved call graph + comparison-shape rules",
    "C09": "kind inference (node label vs row index) + def-use rules on matrix construction",
    "C10": "kind inference of vertex-id tables + comparison-shape and loop-shape rules",
    "C12": "role provenance + guard-dominance rules on the reciprocity siblings",
    "C13": "guard-capacity / linearity rules on the reshuffle, swap typestate on the directed model",
    "C14": "randomness-source analysis + effect analysis under inplace=False + None-comparison contradiction rule",
    "C15": "effect analysis of fit(): stores to supplied parameters dominated by the not-supplied flag",
    "C16": "randomness-source analysis (seed provenance) + attribute / signature conformance",
    "C17": "randomness-source analysis + external-API conformance + index-provenance rule",
    "C18": "double-buffer discipline (read-old / write-new dataflow) + def-use rules",
    "C19": "predicate normal-form comparison + two-phase removal + polymorphic call conformance",
    "C20": "vertex-id kind inference + forwarding of s + def-use of the snapshot divisor",
}
checks, na = [], []
for i in range(1, 21):
    pid = f"C{i:02d}"
    path = f"/verif/hgxverif/props/{pid.lower()}.py"
    if os.path.exists(path):
        mod = importlib.import_module(f"hgxverif.props.{pid.lower()}")
        checks.append({
            "property_id": pid,
            "quick_cmd": f"/venv/bin/python -m hgxverif check {pid} --tier quick",
            "thorough_cmd": f"/venv/bin/python -m hgxverif check {pid} --tier thorough",
            "evidence_file": f"/verif/evidence/{pid}.json",
            "replay_cmd_template": "/venv/bin/python -m hgxverif explain {path}",
            "engine": "hgxverif",
            "level_claimed": {"category": "other", "text": mod.LEVEL_TEXT, "design_ref": f"DESIGN.md section 3 ({pid})"},
            "level_note": "Static analysis only: nothing is executed. Trusted base: Python's ast module, networkx dominators, the frozen table/parameter kinds in hgxverif/tables.py (cross-checked against the source on every run), the enumerated idiom lists. exit 0 = every armed structural obligation discharged; it does not prove the full behavioural statement (see 'Not decided' in DESIGN.md).",
            "technique": "static analysis: " + TECH.get(pid, "AST / CFG rules"),
        })
    else:
        na.append({"property_id": pid, "reason": NA_REASONS.get(pid, PENDING)})
man = {
    "version": 1,
    "setup_cmd": "/venv/bin/python -m compileall -q hgxverif",
    "hooks": {
        "guard": "HGX_TEAM_HYPERGRAPHX_VERIF",
        "enable": "no hooks: the checks are static and never execute repository code",
        "baseline_off_cmd": "cd /repo && /venv/bin/python -m pytest -ra -q -p no:cacheprovider --timeout=900 --continue-on-collection-errors",
        "source_commits": [],
        "add_only": True,
    },
    "engines": [{"name": "hgxverif", "path": "/verif/hgxverif", "serves_properties": [c["property_id"] for c in checks], "kind_free_text": "custom static analyser for hypergraphx: program model, CFG, kind-inference abstract interpreter, effect/alias analysis, schema and forwarding rules (Python ast + networkx)"}],
    "checks": checks,
    "not_applicable": na,
    "notes": "All checks run with /venv/bin/python from /verif and analyse /repo's current working tree (override with --repo). Genuine defects found on the pinned tree were repaired in /repo by 'fix:' commits (see known_findings.json 'fixed'); two are recorded as known findings.",
}
json.dump(man, open("/verif/MANIFEST.json", "w"), indent=1)
print("claimed:", [c["property_id"] for c in checks], "n/a:", [n["property_id"] for n in na])

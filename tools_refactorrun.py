#!/venv/bin/python
"""Run the property's check on a behaviour-preserving refactoring delivered by a sub-agent (expects exit 0).

usage: tools_refactorrun.py <agent worktree> <name>    files the refactoring under /verif/refactors/<name>/ after verifying
that the test-suite passes and equiv.py exits 0 with it."""
import json, os, shutil, subprocess, sys, tempfile
src, name = sys.argv[1], sys.argv[2]
prop = name[:3]
diff = subprocess.run(f"git -C {src} diff -- hypergraphx", shell=True, capture_output=True, text=True).stdout
wt = tempfile.mkdtemp(prefix=f"refrun_{name}_", dir="/tmp"); os.rmdir(wt)
try:
    subprocess.run(f"git -C /repo worktree add --detach -q {wt} HEAD", shell=True, check=True, capture_output=True)
    open(f"{wt}/patch.diff", "w").write(diff)
    r = subprocess.run("git apply patch.diff", shell=True, cwd=wt, capture_output=True, text=True)
    assert r.returncode == 0, r.stderr
    env = dict(os.environ, PYTHONPATH=wt)
    eq = subprocess.run("/venv/bin/python equiv.py", shell=True, cwd=wt, env=env, capture_output=True, text=True) if shutil.copy(f"{src}/equiv.py", f"{wt}/equiv.py") else None
    t = subprocess.run("/venv/bin/python -m pytest -q -p no:cacheprovider -n 8 2>&1 | tail -1", shell=True, cwd=wt, env=env, capture_output=True, text=True).stdout.strip()
    if "430 passed" not in t:
        t = subprocess.run("/venv/bin/python -m pytest -q -p no:cacheprovider 2>&1 | tail -1", shell=True, cwd=wt, env=env, capture_output=True, text=True).stdout.strip()
    p = subprocess.run(f"/venv/bin/python -m hgxverif check {prop} --repo {wt} --evidence-dir /tmp/refrun_ev/{name}", shell=True, cwd="/verif", capture_output=True, text=True)
    ok_input = eq.returncode == 0 and "430 passed" in t
    print(f"{name}: equiv={eq.returncode} suite='{t}' check_exit={p.returncode}")
    for l in p.stdout.splitlines():
        if l.startswith("  hypergraphx/") or l.startswith("ANALYSIS-ERROR"):
            print("     ", l.strip()[:260])
    if ok_input:
        out = f"/verif/refactors/{name}"
        os.makedirs(out, exist_ok=True)
        open(f"{out}/patch.diff", "w").write(diff)
        shutil.copy(f"{src}/equiv.py", f"{out}/equiv.py")
        try:
            meta = json.load(open(f"{src}/meta.json"))
        except Exception:
            meta = {}
        meta.update({"property": prop, "kind": "benign-refactor", "verified": {"equiv_exit": eq.returncode, "suite": t}})
        json.dump(meta, open(f"{out}/meta.json", "w"), indent=1)
finally:
    subprocess.run(f"git -C /repo worktree remove --force {wt}", shell=True, capture_output=True)

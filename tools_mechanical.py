#!/venv/bin/python
"""Apply each mechanical behaviour-preserving transform (hgxverif/mechanical.py) to the whole tree in memory and run every
property's rules on the result: any violation (other than the listed known findings) is a false alarm of the checker.

usage: tools_mechanical.py [transform ...] [--props C01,C02] [-v]"""
import importlib, os, sys, time, warnings
warnings.filterwarnings("ignore")
from concurrent.futures import ProcessPoolExecutor
sys.path.insert(0, "/verif")
from hgxverif import mechanical as MECH
from hgxverif.report import load_known

PROPS = [f"C{i:02d}" for i in range(1, 21) if i != 11]

def job(args):
    tname, prop, repo = args
    from hgxverif.ctx import Ctx
    from hgxverif.model import AnalysisError
    t0 = time.time()
    try:
        ov = MECH.overrides_for(repo, MECH.TRANSFORMS[tname])
        ctx = Ctx(repo, "quick", overrides=ov)
        mod = importlib.import_module(f"hgxverif.props.{prop.lower()}")
        res = mod.run(ctx)
        res.dedupe()
        from hgxverif.report import match_known
        kn = load_known()
        viol = [o for o in res.obs if o.status == "violation" and match_known(prop, o, kn) is None]
        unk = sum(1 for o in res.obs if o.status == "unknown")
        return tname, prop, [(o.rule, o.func, o.detail, o.stmt[:90], o.reason[:110]) for o in viol], unk, len(res.obs), None, time.time() - t0
    except AnalysisError as e:
        return tname, prop, [], 0, 0, f"ANALYSIS-ERROR {e}", time.time() - t0
    except Exception as e:
        import traceback
        return tname, prop, [], 0, 0, f"{type(e).__name__}: {e} {traceback.format_exc()[-300:]}", time.time() - t0

if __name__ == "__main__":
    args = [a for a in sys.argv[1:] if not a.startswith("-")]
    props = PROPS
    for a in sys.argv[1:]:
        if a.startswith("--props"):
            props = a.split("=")[1].split(",")
    verbose = "-v" in sys.argv
    repo = "/repo"
    tnames = args or list(MECH.TRANSFORMS)
    jobs = [(t, p, repo) for t in tnames for p in props]
    bad = 0
    with ProcessPoolExecutor(16) as ex:
        results = list(ex.map(job, jobs))
    for t in tnames:
        rs = [r for r in results if r[0] == t]
        nv = sum(len(r[2]) for r in rs)
        ne = sum(1 for r in rs if r[5])
        print(f"{t:18} violations={nv:3d} errors={ne} unknown={sum(r[3] for r in rs)} obligations={sum(r[4] for r in rs)}")
        for r in rs:
            if r[5]:
                print(f"     {r[1]} {r[5][:300]}")
            for v in r[2][: (50 if verbose else 8)]:
                print(f"     {r[1]} {v[0]} {v[1]} [{v[2]}] {v[3]} -- {v[4]}")
        bad += nv + ne
    sys.exit(1 if bad else 0)

"""Apply a unified diff (git format) to the sources of a repository IN MEMORY: returns {relative path: new text}.

Used by the thorough tier to re-run a property's rules on the filed seeded changes (/verif/seeded) and behaviour-preserving
refactorings (/verif/refactors) without creating a worktree.  A hunk whose old text is not found (the repository moved on)
raises PatchError; the caller reports the patch as skipped."""
from __future__ import annotations

import os
import re
from typing import Dict, List, Tuple


class PatchError(Exception):
    pass


_HUNK = re.compile(r"^@@ -(\d+)(?:,(\d+))? \+(\d+)(?:,(\d+))? @@")


def parse(diff: str) -> List[Tuple[str, str, List[Tuple[int, List[str]]]]]:
    """[(old path | None, new path | None, [(old start line, hunk lines)])]"""
    files = []
    cur = None
    lines = diff.splitlines(keepends=True)
    i = 0
    while i < len(lines):
        l = lines[i]
        if l.startswith("--- "):
            old = l[4:].strip()
            new = lines[i + 1][4:].strip() if i + 1 < len(lines) and lines[i + 1].startswith("+++ ") else None
            if new is None:
                raise PatchError("malformed header")
            oldp = None if old == "/dev/null" else old.split("/", 1)[1] if old[:2] in ("a/", "b/") else old
            newp = None if new == "/dev/null" else new.split("/", 1)[1] if new[:2] in ("a/", "b/") else new
            cur = (oldp, newp, [])
            files.append(cur)
            i += 2
            continue
        m = _HUNK.match(l)
        if m and cur is not None:
            start = int(m.group(1))
            body = []
            i += 1
            while i < len(lines) and not lines[i].startswith(("@@ ", "diff --git", "--- ")):
                if lines[i].startswith(("+", "-", " ")) or lines[i] in ("\n", "\r\n"):
                    body.append(lines[i] if lines[i][0] in "+- " else " " + lines[i])
                elif lines[i].startswith("\\"):
                    # "\ No newline at end of file": strip the newline of the previous line
                    if body:
                        body[-1] = body[-1].rstrip("\n").rstrip("\r")
                i += 1
            cur[2].append((start, body))
            continue
        i += 1
    return files


def apply_patch(repo: str, diff: str) -> Dict[str, str]:
    out: Dict[str, str] = {}
    for oldp, newp, hunks in parse(diff):
        if oldp is None:
            text = "".join(b[1:] for _, body in hunks for b in body if b.startswith("+"))
            out[newp] = text
            continue
        path = os.path.join(repo, oldp)
        if oldp in out:
            src = out[oldp]
        else:
            try:
                with open(path, encoding="utf-8") as f:
                    src = f.read()
            except OSError as e:
                raise PatchError(str(e))
        if newp is None:
            raise PatchError(f"deletion of {oldp} is not supported")
        lines = src.splitlines(keepends=True)
        offset = 0
        for start, body in hunks:
            old = [b[1:] for b in body if b[0] in " -"]
            new = [b[1:] for b in body if b[0] in " +"]
            at = start - 1 + offset if old else start + offset
            if lines[at : at + len(old)] != old:
                # search the whole file for a unique occurrence of the old block
                cands = [k for k in range(0, len(lines) - len(old) + 1) if lines[k : k + len(old)] == old]
                if len(cands) != 1:
                    raise PatchError(f"hunk @@ -{start} of {oldp} does not apply")
                at = cands[0]
            lines[at : at + len(old)] = new
            offset += len(new) - len(old)
        out[newp] = "".join(lines)
    return out

"""Table operations of a function: which statement reads / writes / deletes which declared table.

Tables are identified through the kind annotations of the interpreter (so `t = self._weights; t[i] = w`
is still a write to `_weights`), with a syntactic fallback for `self.<attr>` on plain-attribute tables.
Accepted idioms (DESIGN 2.D) are normalised here:
  * guarded delete   `if k in T: del T[k]`            -> one `del` op located at the If test
  * guarded remove   `if x in L: L.remove(x)`         -> one `remove` op located at the If test
  * try remove       `try: L.remove(x) except: pass`  -> one `remove` op
  * pop delete       `T.pop(k, None)`                 -> `del`
"""
from __future__ import annotations

import ast
from dataclasses import dataclass
from typing import Dict, List, Optional

from .cfg import CFG
from .kinds import Dct, K, Lst, St, Union
from .model import FunctionInfo, is_self_attr, norm, walk_no_nested

MUTATING_METHODS = {
    "append": "append",
    "extend": "append",
    "insert": "append",
    "add": "add",
    "remove": "remove",
    "discard": "remove",
    "pop": "del",
    "popitem": "del",
    "clear": "clear",
    "update": "store",
    "setdefault": "store",
    "sort": "store",
    "__setitem__": "store",
}
READ_METHODS = {"get": "read", "keys": "iter", "values": "iter", "items": "iter", "copy": "iter", "index": "read", "count": "read"}


@dataclass
class TOp:
    op: str  # store aug del read member iter append add remove clear setattr
    cls: str
    table: str
    node: ast.AST
    key: Optional[ast.AST] = None
    value: Optional[ast.AST] = None
    at: Optional[ast.AST] = None  # the AST node that stands for this op in the CFG (statement or If-test)
    guard: Optional[ast.AST] = None  # the If whose test guards this op (guarded idioms)
    elem_level: bool = False  # operates on the list stored under a key (T[k].append) rather than on T itself
    via: Optional[str] = None  # set when the write happens inside a `self.<helper>()` call
    may: bool = False  # the container is one of several candidate tables (union): a may-op on each

    @property
    def is_write(self):
        return self.op in ("store", "aug", "del", "append", "add", "remove", "clear", "setattr")

    def text(self):
        return norm(self.node)


def _copy_with_origin(e):
    """deep copy of an expression whose nodes remember the node they were copied from (`_orig`)"""
    import copy

    c = copy.deepcopy(e)
    for a, b in zip(ast.walk(c), ast.walk(e)):
        a._orig = getattr(b, "_orig", b)
    return c


class FuncView:
    """A function with its CFG, parent map and table operations."""

    def __init__(self, ctx, fi: FunctionInfo):
        self.ctx = ctx
        self.fi = fi
        self.cfg = CFG(fi.node)
        self.parent: Dict[int, ast.AST] = {}
        for n in ast.walk(fi.node):
            for ch in ast.iter_child_nodes(n):
                self.parent[id(ch)] = n
        self._ops: Optional[List[TOp]] = None

    # --------------------------------------------------------------- structure
    def kind(self, node) -> K:
        node = getattr(node, "_orig", node)  # nodes of an inlined copy stand for the original expression
        return self.ctx.interp.kind_at(self.fi, node)

    def stmt_of(self, node: ast.AST) -> ast.AST:
        """Nearest ancestor (or self) that is a CFG node."""
        cur = node
        while cur is not None:
            if id(cur) in self.cfg.by_ast:
                return cur
            cur = self.parent.get(id(cur))
        return None

    def cfg_id(self, node: ast.AST) -> Optional[int]:
        st = self.stmt_of(node)
        return self.cfg.by_ast.get(id(st)) if st is not None else None

    def enclosing(self, node, types):
        cur = self.parent.get(id(node))
        while cur is not None and cur is not self.fi.node:
            if isinstance(cur, types):
                return cur
            cur = self.parent.get(id(cur))
        return None

    def enclosing_all(self, node, types):
        out = []
        cur = self.parent.get(id(node))
        while cur is not None and cur is not self.fi.node:
            if isinstance(cur, types):
                out.append(cur)
            cur = self.parent.get(id(cur))
        return out

    # --------------------------------------------------------------- tables
    def tables_of(self, expr: ast.AST):
        """[(cls, table, elem_level)] candidates for the container denoted by expr (several when the value may be one of
        several declared tables, e.g. the loop variable of `for t in (self._adj_source, self._adj_target)`)."""
        if isinstance(expr, ast.Subscript):
            base = self.tables_of(expr.value)
            if len(base) > 1 and not any(l for _, _, l in base):
                # T[k] where T may be one of several tables: the element of each (unions of lists lose their tags)
                ek = self.kind(expr)
                if isinstance(ek, (Lst, St)) or (isinstance(ek, Union) and any(isinstance(m, (Lst, St)) for m in ek.members)):
                    return [(c, t, True) for c, t, _ in base]
        k = self.kind(expr)
        cands = []
        members = list(k.members) if isinstance(k, Union) else [k]
        for m in members:
            tag = getattr(m, "tag", None)
            if tag and isinstance(m, (Dct, Lst, St)):
                cls, _, tab = tag.partition(".")
                if tab.endswith("[]"):
                    cands.append((cls, tab[:-2], True))
                else:
                    cands.append((cls, tab, False))
        if cands:
            return sorted(set(cands))
        if is_self_attr(expr) and self.fi.cls is not None:
            tabs = self.ctx.interp.class_tables.get(self.fi.cls.name)
            if tabs and expr.attr in tabs:
                return [(self.fi.cls.name, expr.attr, False)]
        if isinstance(expr, ast.Attribute):
            rk = self.kind(expr.value)
            from .kinds import Obj

            if isinstance(rk, Obj) and rk.cls in self.ctx.interp.class_tables and expr.attr in self.ctx.interp.class_tables[rk.cls]:
                return [(rk.cls, expr.attr, False)]
        return []

    def table_of(self, expr: ast.AST):
        """(cls, table, elem_level) when expr denotes exactly one declared table, else None."""
        c = self.tables_of(expr)
        return c[0] if len(c) == 1 else None

    def ops(self, with_calls: bool = False) -> List[TOp]:
        if self._ops is None:
            self._ops = self._extract()
        if with_calls:
            return self._ops + self.call_ops()
        return self._ops

    def mentions(self):
        """[(cls, table, node, may)] for every expression (attribute / local name) that denotes a declared table as a
        whole - including tables merely handed to a helper, which are no table operation of this function."""
        out = []
        for n in walk_no_nested(self.fi.node):
            if isinstance(n, (ast.Attribute, ast.Name)) and isinstance(getattr(n, "ctx", None), ast.Load):
                c = self.tables_of(n)
                for cls, tab, lvl in c:
                    if not lvl:
                        out.append((cls, tab, n, len(c) > 1))
        return out

    def _same_object_callees(self, n: ast.Call):
        """callees whose table operations hit the tables of THIS object: `self.<method>(...)` calls (and plain function
        calls that are handed `self`); `h.add_edge(...)` on another object does not count."""
        f = n.func
        if isinstance(f, ast.Attribute) and isinstance(f.value, ast.Name) and f.value.id == "self":
            return self.ctx.callees(self.fi, n)
        if isinstance(f, ast.Name) and any(isinstance(a, ast.Name) and a.id == "self" for a in n.args):
            return self.ctx.callees(self.fi, n)
        if isinstance(f, ast.Name) and self.fi.cls is not None:
            # a bound method of self held in a local: `step = self._shrink if keep else self._drop; step(x)`
            defs = [d.value for d in walk_no_nested(self.fi.node) if isinstance(d, ast.Assign) and len(d.targets) == 1 and isinstance(d.targets[0], ast.Name) and d.targets[0].id == f.id]
            flat = []
            for d in defs:
                flat += [d.body, d.orelse] if isinstance(d, ast.IfExp) else [d]
            if flat and all(is_self_attr(x) for x in flat):
                return self.ctx.callees(self.fi, n)
        if self.fi.cls is None:
            # module-level function: tables belong to the parameter object; calls on the same parameter name
            if isinstance(f, ast.Attribute) and isinstance(f.value, ast.Name) and f.value.id in [a.arg for a in self.fi.params]:
                return self.ctx.callees(self.fi, n)
        return []

    def call_ops(self) -> List[TOp]:
        """Table operations performed by repo callees (resolved by the kind engine), transitively (depth 4): each
        becomes an op located at the call in this function."""
        if getattr(self, "_call_ops", None) is not None:
            return self._call_ops
        out: List[TOp] = []
        self._call_ops = out  # recursion guard
        for n in walk_no_nested(self.fi.node):
            if not isinstance(n, ast.Call):
                continue
            for callee in self._same_object_callees(n):
                if callee.qualname == self.fi.qualname:
                    continue
                for (cls, tab, op, lvl, may) in self.ctx.view(callee).effects()[0]:
                    c = TOp(op, cls, tab, n, None, None, elem_level=lvl)
                    c.may = may
                    c.at = self.stmt_of(n)
                    c.via = callee.short
                    out.append(c)
        return out

    def effects(self, _depth: int = 0):
        """({(cls, table, op, elem_level, may)}, opaque): every table operation this function may perform, directly or
        through resolved repo callees; `opaque` when it also mutates something the analysis cannot attribute to a
        declared table (then the absence of an operation is not definite)."""
        if getattr(self, "_effects", None) is not None:
            return self._effects
        if _depth > 4 or getattr(self, "_effects_busy", False):
            return (set(), False)
        self._effects_busy = True
        eff = {(o.cls, o.table, o.op, o.elem_level, o.may) for o in self.ops()}
        opaque = bool(self.unattributed_mutations()) or self._escapes()
        for n in walk_no_nested(self.fi.node):
            if isinstance(n, ast.Call):
                for callee in self._same_object_callees(n):
                    if callee.qualname != self.fi.qualname:
                        e2, o2 = self.ctx.view(callee).effects(_depth + 1)
                        eff |= e2
                        opaque = opaque or o2
        self._effects_busy = False
        self._effects = (eff, opaque)
        return self._effects

    def _escapes(self) -> bool:
        """a declared table is handed to a callee as an argument, or a method of the same object is used as a VALUE (put in a
        table of handlers, passed to map / partial): what happens to the tables then is not visible as table operations of
        this function"""
        for n in walk_no_nested(self.fi.node):
            if isinstance(n, ast.Call):
                for a in list(n.args) + [k.value for k in n.keywords]:
                    if isinstance(a, (ast.Attribute, ast.Name)) and isinstance(getattr(a, "ctx", None), ast.Load):
                        c = self.tables_of(a)
                        if c and any(not lvl for _, _, lvl in c) and not (isinstance(n.func, ast.Name) and n.func.id in ("len", "list", "set", "sorted", "tuple", "dict", "iter", "enumerate", "zip", "print", "str", "repr", "isinstance", "id", "bool", "any", "all", "sum", "min", "max", "frozenset", "reversed")):
                            callee_known = bool(self.ctx.callees(self.fi, n))
                            # (`self._helper(self._adj)` is followed as a method of the same object; `_tables.forget_node(self._adj, ...)`
                            # - a function of another module that is handed the table - is not)
                            own_method = isinstance(n.func, ast.Attribute) and isinstance(n.func.value, ast.Name) and n.func.value.id == "self"
                            if not callee_known or not own_method:
                                return True
            if isinstance(n, ast.Attribute) and isinstance(n.ctx, ast.Load) and isinstance(n.value, ast.Name) and n.value.id == "self" and self.fi.cls is not None and n.attr in getattr(self.fi.cls, "methods", {}):
                par = self.parent.get(id(n))
                if not (isinstance(par, ast.Call) and par.func is n):
                    return True
        return False

    def unattributed_mutations(self):
        """mutating statements on a base whose kind is unknown although it may refer to the object's state"""
        out = []
        from .kinds import _Top

        def unknown_base(b):
            if self.tables_of(b):
                return False
            k = self.kind(b)
            root = b
            while isinstance(root, (ast.Subscript, ast.Attribute)):
                root = root.value
            if isinstance(root, ast.Call):
                return False
            if not isinstance(root, ast.Name):
                return False
            if root.id == "self":
                # self.<unknown attr>[...] = ... : not a declared table (e.g. a cache) - cannot stand in for one
                return False
            return isinstance(k, _Top)

        for n in walk_no_nested(self.fi.node):
            if isinstance(n, ast.Subscript) and isinstance(n.ctx, (ast.Store, ast.Del)) and unknown_base(n.value):
                out.append(n)
            elif isinstance(n, ast.Call) and isinstance(n.func, ast.Attribute) and n.func.attr in MUTATING_METHODS and unknown_base(n.func.value):
                out.append(n)
        return out

    def resolve(self, expr, depth: int = 0):
        """Follow a local name to the expression it was (uniquely) assigned from."""
        if depth > 5 or not isinstance(expr, ast.Name):
            return expr
        defs = []
        for n in walk_no_nested(self.fi.node):
            if isinstance(n, ast.Assign) and any(isinstance(t, ast.Name) and t.id == expr.id for t in n.targets):
                defs.append(n.value)  # `x = <e>`, also as one link of a chain `a[0] = x = <e>`
            elif isinstance(n, ast.Assign) and any(isinstance(t, (ast.Tuple, ast.List)) and any(isinstance(e, ast.Name) and e.id == expr.id for e in t.elts) for t in n.targets):
                # parallel assignment `x, y = <ex>, <ey>`: the matching component; any other unpacking is no definition we follow
                hit = None
                for t in n.targets:
                    if isinstance(t, (ast.Tuple, ast.List)) and isinstance(n.value, (ast.Tuple, ast.List)) and len(t.elts) == len(n.value.elts):
                        for te, ve in zip(t.elts, n.value.elts):
                            if isinstance(te, ast.Name) and te.id == expr.id:
                                hit = ve
                if hit is None:
                    return expr
                defs.append(hit)
            elif isinstance(n, ast.NamedExpr) and isinstance(n.target, ast.Name) and n.target.id == expr.id:
                defs.append(n.value)
            elif isinstance(n, (ast.AugAssign,)) and isinstance(n.target, ast.Name) and n.target.id == expr.id:
                return expr
            elif isinstance(n, (ast.For, ast.comprehension)) and any(isinstance(x, ast.Name) and x.id == expr.id for x in ast.walk(n.target)):
                return expr
        if expr.id in [a.arg for a in self.fi.params]:
            return expr
        if expr.id in self._mutated_locals():
            return expr  # an object that is filled in place is not the expression it was created from
        if len(defs) == 1:
            return self.resolve(defs[0], depth + 1)
        return expr

    def reaching(self, name_node):
        """The value of the definition of a local that reaches the use `name_node`, when the name has several definitions:
        the closest `x = <value>` that dominates the use and after which no other definition of x can run before the use.
        None when that is not a single plain assignment (loop targets, augmented assignments, unpackings)."""
        if not isinstance(name_node, ast.Name):
            return None
        uid = self.cfg_id(name_node)
        if uid is None:
            return None
        defs = []
        for n in walk_no_nested(self.fi.node):
            tg = None
            if isinstance(n, ast.Assign):
                flat = []
                for t in n.targets:
                    flat += list(ast.walk(t))
                if any(isinstance(x, ast.Name) and x.id == name_node.id and isinstance(x.ctx, ast.Store) for x in flat):
                    plain = len(n.targets) == 1 and isinstance(n.targets[0], ast.Name)
                    defs.append((n, n.value if plain else None))
            elif isinstance(n, (ast.AugAssign, ast.AnnAssign)) and isinstance(n.target, ast.Name) and n.target.id == name_node.id:
                defs.append((n, None))
            elif isinstance(n, (ast.For, ast.comprehension)) and any(isinstance(x, ast.Name) and x.id == name_node.id for x in ast.walk(n.target)):
                if isinstance(n, ast.For):
                    defs.append((n, None))
        best = None
        for n, val in defs:
            did = self.cfg_id(n) if not isinstance(n, ast.For) else self.cfg.by_ast.get(id(n))
            if did is None or did == uid or not self.cfg.dominates(did, uid):
                continue
            if best is None or self.cfg.dominates(best[0], did):
                best = (did, n, val)
        if best is None or best[2] is None:
            return None
        # no other definition between the chosen one and the use
        others = [self.cfg_id(n) if not isinstance(n, ast.For) else self.cfg.by_ast.get(id(n)) for n, _ in defs if n is not best[1]]
        for oid in others:
            if oid is None:
                continue
            if self.cfg.reaches_without(best[0], oid, {uid}) and self.cfg.reaches_without(oid, uid, {best[0]}):
                return None
        return best[2]

    def _mutated_locals(self):
        m = getattr(self, "_mutated", None)
        if m is None:
            m = set()
            for n in walk_no_nested(self.fi.node):
                if isinstance(n, ast.Subscript) and isinstance(n.ctx, (ast.Store, ast.Del)) and isinstance(n.value, ast.Name):
                    m.add(n.value.id)
                elif isinstance(n, ast.Call) and isinstance(n.func, ast.Attribute) and isinstance(n.func.value, ast.Name) and (n.func.attr in MUTATING_METHODS or n.func.attr.startswith("add_") or n.func.attr.startswith("set_") or n.func.attr.startswith("remove_")):
                    m.add(n.func.value.id)
                elif isinstance(n, ast.Attribute) and isinstance(n.ctx, ast.Store) and isinstance(n.value, ast.Name):
                    m.add(n.value.id)
                elif isinstance(n, ast.Attribute) and isinstance(n.ctx, ast.Load) and n.attr in MUTATING_METHODS and isinstance(n.value, ast.Name):
                    # a bound mutator kept in a local (`add_visited = visited.add`) fills the container through the alias
                    m.add(n.value.id)
            self._mutated = m
        return m

    def inline(self, expr, depth: int = 4):
        """A copy of `expr` in which every local name that has exactly one definition (and is no parameter / loop
        variable / augmented target) is replaced by the expression it was assigned from, recursively: aliases and
        step-by-step computations are folded back into one expression before a template is matched."""
        import copy

        fv = self

        class Sub(ast.NodeTransformer):
            def __init__(self, d):
                self.d = d

            def visit_Name(self, n):
                if not isinstance(n.ctx, ast.Load) or self.d <= 0:
                    return n
                r = fv.resolve(n, depth=5)
                if r is n or isinstance(r, ast.Name) and r.id == n.id:
                    return n
                return Sub(self.d - 1).visit(_copy_with_origin(r))

        return Sub(depth).visit(_copy_with_origin(expr))

    def _extract(self) -> List[TOp]:
        out: List[TOp] = []

        def emit(op, cands, node, key=None, value=None):
            may = len(cands) > 1
            for cls, tab, lvl in cands:
                o = TOp(op, cls, tab, node, key, value, elem_level=lvl)
                o.may = may
                out.append(o)

        for n in walk_no_nested(self.fi.node):
            if isinstance(n, ast.Subscript):
                cands = self.tables_of(n.value)
                if not cands:
                    continue
                par = self.parent.get(id(n))
                if isinstance(n.ctx, ast.Store):
                    if isinstance(par, ast.AugAssign) and par.target is n:
                        emit("aug", cands, par, n.slice, par.value)
                    else:
                        val = par.value if isinstance(par, (ast.Assign, ast.AnnAssign)) else None
                        stmt = par
                        if isinstance(par, ast.Tuple) and isinstance(par.ctx, ast.Store):
                            # a, T[k] = x, y : the element of the right-hand tuple at the same position
                            asg = self.parent.get(id(par))
                            if isinstance(asg, ast.Assign) and len(asg.targets) == 1 and asg.targets[0] is par:
                                stmt = asg
                                i = par.elts.index(n)
                                val = asg.value.elts[i] if isinstance(asg.value, ast.Tuple) and len(asg.value.elts) == len(par.elts) else asg.value
                        emit("store", cands, stmt if val is not None else n, n.slice, val)
                elif isinstance(n.ctx, ast.Del):
                    emit("del", cands, par, n.slice)
                else:
                    emit("read", cands, n, n.slice)
            elif isinstance(n, ast.Compare) and len(n.ops) == 1 and isinstance(n.ops[0], (ast.In, ast.NotIn)):
                cands = self.tables_of(n.comparators[0])
                if cands:
                    emit("member", cands, n, n.left)
            elif isinstance(n, ast.Call) and isinstance(n.func, ast.Attribute):
                cands = self.tables_of(n.func.value)
                if not cands:
                    continue
                meth = n.func.attr
                if meth in MUTATING_METHODS:
                    op = MUTATING_METHODS[meth]
                    key = n.args[0] if n.args else None
                    if meth in ("append", "extend", "insert", "add"):
                        emit(op, cands, n, None, key)
                    else:
                        emit(op, cands, n, key, None)
                elif meth in READ_METHODS:
                    emit(READ_METHODS[meth], cands, n, n.args[0] if n.args else None)
            elif isinstance(n, ast.Attribute) and isinstance(n.ctx, ast.Store):
                if is_self_attr(n) and self.fi.cls is not None:
                    tabs = self.ctx.interp.class_tables.get(self.fi.cls.name)
                    if tabs and n.attr in tabs:
                        par = self.parent.get(id(n))
                        val = par.value if isinstance(par, (ast.Assign, ast.AnnAssign, ast.AugAssign)) else None
                        out.append(TOp("setattr", self.fi.cls.name, n.attr, par, None, val))
            elif isinstance(n, (ast.For, ast.comprehension)):
                cands = self.tables_of(n.iter)
                if cands:
                    emit("iter", cands, n.iter)
        # locate each op in the CFG and fold the guarded idioms
        for o in out:
            o.at = self.stmt_of(o.node)
            if o.op in ("del", "remove"):
                g = self._guard_if(o)
                if g is not None:
                    o.guard = g
                    o.at = g.test
        return out

    def _guard_if(self, o: TOp) -> Optional[ast.If]:
        """`if k in T: del T[k]` / `if x in T[k]: T[k].remove(x)` with nothing else in the body."""
        st = self.stmt_of(o.node)
        par = self.parent.get(id(st)) if st is not None else None
        if isinstance(par, ast.If) and len(par.body) == 1 and par.body[0] is st and not par.orelse:
            t = par.test
            if isinstance(t, ast.Name):
                # `present = k in T; if present: del T[k]`
                r = self.resolve(t)
                if isinstance(r, ast.Compare):
                    t = r
            if isinstance(t, ast.Compare) and len(t.ops) == 1 and isinstance(t.ops[0], ast.In):
                tt = self.table_of(t.comparators[0])
                if tt is not None and tt[1] == o.table and o.key is not None and norm(t.left) == norm(o.key):
                    return par
        return None

    # --------------------------------------------------------------- path queries
    def lifted(self, o: TOp) -> int:
        """CFG node standing for op `o` in must-pass-through questions: an op inside `for x in <...>` loops is
        represented by the outermost loop head (a loop body may run zero times only when there is nothing to do)."""
        loops = [l for l in self.enclosing_all(o.at, (ast.For, ast.While)) if isinstance(l, ast.For) or self._index_scan(l)]
        node = loops[-1] if loops else o.at
        nid = self.cfg.by_ast.get(id(node))
        if nid is None and isinstance(node, ast.While):
            nid = self.cfg.by_ast.get(id(node.test))
        return nid if nid is not None else self.cfg.by_ast[id(o.at)]

    def _index_scan(self, w: ast.While) -> bool:
        """`while i < n: ...; i += 1` - the index-based spelling of `for x in seq`"""
        t = w.test
        if not (isinstance(t, ast.Compare) and len(t.ops) == 1 and isinstance(t.ops[0], (ast.Lt, ast.LtE, ast.NotEq)) and isinstance(t.left, ast.Name)):
            return False
        i = t.left.id
        return any(isinstance(x, ast.AugAssign) and isinstance(x.target, ast.Name) and x.target.id == i and isinstance(x.op, ast.Add) for st in w.body for x in ast.walk(st))

    def must_id(self, o: TOp) -> int:
        """CFG node standing for a key-level op in must-pass-through questions: an op whose container is the loop
        variable of `for t in (<tables>)` / `for t, x in zip((<tables>), ...)` happens once per listed table - it is
        represented by that loop's head (the literal is not empty, so the body runs)."""
        node = o.at
        if o.may:
            for loop in self.enclosing_all(o.at, (ast.For,)):
                it = loop.iter
                lits = [it] + (list(it.args) if isinstance(it, ast.Call) and isinstance(it.func, ast.Name) and it.func.id in ("zip", "enumerate") else [])
                if any(isinstance(x, (ast.Tuple, ast.List)) and x.elts for x in lits):
                    node = loop
        return self.cfg.by_ast[id(self.stmt_of(node))]

    def passes_through(self, anchor_id: int, op_ids: set) -> bool:
        """Every entry->EXIT path through `anchor_id` meets one of `op_ids` (before or after the anchor)."""
        if anchor_id in op_ids:
            return True
        before = self.cfg.reaches_without(self.cfg.entry, anchor_id, op_ids)
        after = self.cfg.reaches_without(anchor_id, self.cfg.exit, op_ids)
        return not (before and after)

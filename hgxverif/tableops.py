"""Table operations of a function: which statement reads / writes / deletes which declared table.

Tables are identified through the kind annotations of the interpreter (so `t = self._weights; t[i] = w`
is still a write to `_weights`), with a syntactic fallback for `self.<attr>` on plain-attribute tables.
Accepted idioms (DESIGN 2.D) are normalised here:
  * guarded delete   `if k in T: del T[k]`            -> one `del` op located at the If test
  * guarded remove   `if x in L: L.remove(x)`         -> one `remove` op located at the If test
  * try remove       `try: L.remove(x) except: pass`  -> one `remove` op
  * pop delete       `T.pop(k, None)`                 -> `del`
"""
from __future__ import annotations

import ast
from dataclasses import dataclass
from typing import Dict, List, Optional

from .cfg import CFG
from .kinds import Dct, K, Lst, St, Union
from .model import FunctionInfo, is_self_attr, norm, walk_no_nested

MUTATING_METHODS = {
    "append": "append",
    "extend": "append",
    "insert": "append",
    "add": "add",
    "remove": "remove",
    "discard": "remove",
    "pop": "del",
    "popitem": "del",
    "clear": "clear",
    "update": "store",
    "setdefault": "store",
    "sort": "store",
    "__setitem__": "store",
}
READ_METHODS = {"get": "read", "keys": "iter", "values": "iter", "items": "iter", "copy": "iter", "index": "read", "count": "read"}


@dataclass
class TOp:
    op: str  # store aug del read member iter append add remove clear setattr
    cls: str
    table: str
    node: ast.AST
    key: Optional[ast.AST] = None
    value: Optional[ast.AST] = None
    at: Optional[ast.AST] = None  # the AST node that stands for this op in the CFG (statement or If-test)
    guard: Optional[ast.AST] = None  # the If whose test guards this op (guarded idioms)
    elem_level: bool = False  # operates on the list stored under a key (T[k].append) rather than on T itself
    via: Optional[str] = None  # set when the write happens inside a `self.<helper>()` call

    @property
    def is_write(self):
        return self.op in ("store", "aug", "del", "append", "add", "remove", "clear", "setattr")

    def text(self):
        return norm(self.node)


class FuncView:
    """A function with its CFG, parent map and table operations."""

    def __init__(self, ctx, fi: FunctionInfo):
        self.ctx = ctx
        self.fi = fi
        self.cfg = CFG(fi.node)
        self.parent: Dict[int, ast.AST] = {}
        for n in ast.walk(fi.node):
            for ch in ast.iter_child_nodes(n):
                self.parent[id(ch)] = n
        self._ops: Optional[List[TOp]] = None

    # --------------------------------------------------------------- structure
    def kind(self, node) -> K:
        return self.ctx.interp.kind_at(self.fi, node)

    def stmt_of(self, node: ast.AST) -> ast.AST:
        """Nearest ancestor (or self) that is a CFG node."""
        cur = node
        while cur is not None:
            if id(cur) in self.cfg.by_ast:
                return cur
            cur = self.parent.get(id(cur))
        return None

    def cfg_id(self, node: ast.AST) -> Optional[int]:
        st = self.stmt_of(node)
        return self.cfg.by_ast.get(id(st)) if st is not None else None

    def enclosing(self, node, types):
        cur = self.parent.get(id(node))
        while cur is not None and cur is not self.fi.node:
            if isinstance(cur, types):
                return cur
            cur = self.parent.get(id(cur))
        return None

    def enclosing_all(self, node, types):
        out = []
        cur = self.parent.get(id(node))
        while cur is not None and cur is not self.fi.node:
            if isinstance(cur, types):
                out.append(cur)
            cur = self.parent.get(id(cur))
        return out

    # --------------------------------------------------------------- tables
    def table_of(self, expr: ast.AST):
        """(cls, table, elem_level) of the container denoted by expr, or None."""
        k = self.kind(expr)
        tag = getattr(k, "tag", None)
        if isinstance(k, Union):
            tags = {getattr(m, "tag", None) for m in k.members if isinstance(m, (Dct, Lst, St))}
            tags.discard(None)
            tag = tags.pop() if len(tags) == 1 else None
        if tag:
            cls, _, tab = tag.partition(".")
            if tab.endswith("[]"):
                return cls, tab[:-2], True
            return cls, tab, False
        if is_self_attr(expr) and self.fi.cls is not None:
            tabs = self.ctx.interp.class_tables.get(self.fi.cls.name)
            if tabs and expr.attr in tabs:
                return self.fi.cls.name, expr.attr, False
        if isinstance(expr, ast.Attribute):
            rk = self.kind(expr.value)
            from .kinds import Obj

            if isinstance(rk, Obj) and rk.cls in self.ctx.interp.class_tables and expr.attr in self.ctx.interp.class_tables[rk.cls]:
                return rk.cls, expr.attr, False
        return None

    def ops(self, with_calls: bool = False) -> List[TOp]:
        if self._ops is None:
            self._ops = self._extract()
        if with_calls:
            return self._ops + self.call_ops()
        return self._ops

    def call_ops(self) -> List[TOp]:
        """Writes performed by `self.<method>(...)` helpers (inlining bound 1): each direct table write of the
        callee becomes an op located at the call."""
        if getattr(self, "_call_ops", None) is not None:
            return self._call_ops
        out: List[TOp] = []
        if self.fi.cls is not None:
            for n in walk_no_nested(self.fi.node):
                if isinstance(n, ast.Call) and isinstance(n.func, ast.Attribute) and is_self_attr(n.func) and n.func.attr in self.fi.cls.methods and n.func.attr != self.fi.name:
                    callee = self.ctx.view(self.fi.cls.methods[n.func.attr])
                    for o in callee.ops():
                        if o.is_write:
                            c = TOp(o.op, o.cls, o.table, n, None, None, elem_level=o.elem_level)
                            c.at = self.stmt_of(n)
                            c.via = callee.fi.short
                            out.append(c)
        self._call_ops = out
        return out

    def _extract(self) -> List[TOp]:
        out: List[TOp] = []
        for n in walk_no_nested(self.fi.node):
            if isinstance(n, ast.Subscript):
                t = self.table_of(n.value)
                if t is None:
                    continue
                cls, tab, lvl = t
                par = self.parent.get(id(n))
                if isinstance(n.ctx, ast.Store):
                    if isinstance(par, ast.AugAssign) and par.target is n:
                        out.append(TOp("aug", cls, tab, par, n.slice, par.value, elem_level=lvl))
                    else:
                        val = par.value if isinstance(par, (ast.Assign, ast.AnnAssign)) else None
                        out.append(TOp("store", cls, tab, par if val is not None else n, n.slice, val, elem_level=lvl))
                elif isinstance(n.ctx, ast.Del):
                    out.append(TOp("del", cls, tab, par, n.slice, elem_level=lvl))
                else:
                    # a read; if it is the receiver of a mutating method on the stored list it is reported there too
                    out.append(TOp("read", cls, tab, n, n.slice, elem_level=lvl))
            elif isinstance(n, ast.Compare) and len(n.ops) == 1 and isinstance(n.ops[0], (ast.In, ast.NotIn)):
                t = self.table_of(n.comparators[0])
                if t is not None:
                    out.append(TOp("member", t[0], t[1], n, n.left, elem_level=t[2]))
            elif isinstance(n, ast.Call) and isinstance(n.func, ast.Attribute):
                t = self.table_of(n.func.value)
                if t is None:
                    continue
                cls, tab, lvl = t
                meth = n.func.attr
                if meth in MUTATING_METHODS:
                    op = MUTATING_METHODS[meth]
                    key = n.args[0] if n.args else None
                    if meth in ("append", "extend", "insert", "add"):
                        out.append(TOp(op, cls, tab, n, None, key, elem_level=lvl))
                    else:
                        out.append(TOp(op, cls, tab, n, key, None, elem_level=lvl))
                elif meth in READ_METHODS:
                    out.append(TOp(READ_METHODS[meth], cls, tab, n, n.args[0] if n.args else None, elem_level=lvl))
            elif isinstance(n, ast.Attribute) and isinstance(n.ctx, ast.Store):
                if is_self_attr(n) and self.fi.cls is not None:
                    tabs = self.ctx.interp.class_tables.get(self.fi.cls.name)
                    if tabs and n.attr in tabs:
                        par = self.parent.get(id(n))
                        val = par.value if isinstance(par, (ast.Assign, ast.AnnAssign, ast.AugAssign)) else None
                        out.append(TOp("setattr", self.fi.cls.name, n.attr, par, None, val))
            elif isinstance(n, (ast.For, ast.comprehension)):
                t = self.table_of(n.iter)
                if t is not None:
                    out.append(TOp("iter", t[0], t[1], n.iter, elem_level=t[2]))
        # locate each op in the CFG and fold the guarded idioms
        for o in out:
            o.at = self.stmt_of(o.node)
            if o.op in ("del", "remove"):
                g = self._guard_if(o)
                if g is not None:
                    o.guard = g
                    o.at = g.test
        return out

    def _guard_if(self, o: TOp) -> Optional[ast.If]:
        """`if k in T: del T[k]` / `if x in T[k]: T[k].remove(x)` with nothing else in the body."""
        st = self.stmt_of(o.node)
        par = self.parent.get(id(st)) if st is not None else None
        if isinstance(par, ast.If) and len(par.body) == 1 and par.body[0] is st and not par.orelse:
            t = par.test
            if isinstance(t, ast.Compare) and len(t.ops) == 1 and isinstance(t.ops[0], ast.In):
                tt = self.table_of(t.comparators[0])
                if tt is not None and tt[1] == o.table and o.key is not None and norm(t.left) == norm(o.key):
                    return par
        return None

    # --------------------------------------------------------------- path queries
    def lifted(self, o: TOp) -> int:
        """CFG node standing for op `o` in must-pass-through questions: an op inside `for x in <...>` loops is
        represented by the outermost loop head (a loop body may run zero times only when there is nothing to do)."""
        loops = self.enclosing_all(o.at, (ast.For,))
        node = loops[-1] if loops else o.at
        return self.cfg.by_ast[id(node)]

    def passes_through(self, anchor_id: int, op_ids: set) -> bool:
        """Every entry->EXIT path through `anchor_id` meets one of `op_ids` (before or after the anchor)."""
        if anchor_id in op_ids:
            return True
        before = self.cfg.reaches_without(self.cfg.entry, anchor_id, op_ids)
        after = self.cfg.reaches_without(anchor_id, self.cfg.exit, op_ids)
        return not (before and after)

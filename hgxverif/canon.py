"""Canonicalisation of the parsed sources before any rule looks at them (a tiny copy-propagation pass).

Two spellings that say the same thing are brought to one shape, so that every rule - not only the ones that were taught
the idiom - reads the same construct:

* `flag = <pure test>` ... `if flag:` (any number of uses, at any distance after the definition) where `flag` is assigned
  once and nothing between the definition and a use can change what the test reads - no assignment to its operand names,
  no store / delete / mutator call on a container it looks into, no method call on the object whose tables it reads, no
  enclosing loop that re-runs between two evaluations: the test is folded back into each use and the definition dropped.
  If one use is not provably undisturbed, everything is left as it is (the rules that read tests then fold the flag on
  demand through FuncView.inline / resolve, with dominance checks of their own).
* `a, b = x, y` with plain-name targets where no later component reads an earlier target: `a = x; b = y`.

* `match subject:` over literal / `|` / wildcard / capture / fixed-length sequence patterns is lowered to the if / elif
  chain it abbreviates (the CFG and the kind engine know `if`, not `match`); other pattern kinds are left alone.

* `try: x = T[k]` / `except KeyError: A` / `else: B` (the body being that single dict lookup) becomes `if k not in T: A` /
  `else: x = T[k]; B`: the tables are plain dicts, so the lookup raises exactly when the key is absent.

* `for a, b in ((x1, y1), (x2, y2)): body` over a literal display of a few rows is unrolled (body once per row, the row's
  pure expressions substituted), and the operator-module getters are written out: `TABLE[<const>]` for a frozen module-level
  dict display, `attrgetter("a")(x)` -> `x.a`, `itemgetter(k)(x)` -> `x[k]`, `methodcaller("m", ...)(x)` -> `x.m(...)`.

The rewrites preserve the meaning of the function; positions of the moved nodes are kept, so reports still point at the
original lines."""
from __future__ import annotations

import ast
from typing import List


def _blocks(fn):
    out = []

    def rec(stmts):
        out.append(stmts)
        for st in stmts:
            if isinstance(st, (ast.FunctionDef, ast.AsyncFunctionDef, ast.ClassDef)):
                continue
            for fld in ("body", "orelse", "finalbody"):
                sub = getattr(st, fld, None)
                if isinstance(sub, list) and sub and isinstance(sub[0], ast.stmt):
                    rec(sub)
            if isinstance(st, ast.Try):
                for h in st.handlers:
                    rec(h.body)

    rec(fn.body)
    return out


def _functions(tree):
    return [n for n in ast.walk(tree) if isinstance(n, (ast.FunctionDef, ast.AsyncFunctionDef))]


def _pure_name_assign(st) -> bool:
    return isinstance(st, ast.Assign) and len(st.targets) == 1 and isinstance(st.targets[0], ast.Name) and not any(isinstance(x, (ast.Call, ast.Yield, ast.Await, ast.NamedExpr)) for x in ast.walk(st.value))


_PURE_CALLS = {"len", "isinstance", "type", "hasattr", "callable", "str", "int", "bool", "tuple", "sorted", "set", "frozenset", "list"}
_MUTATORS = {"append", "extend", "insert", "remove", "pop", "popitem", "clear", "add", "discard", "update", "setdefault", "sort", "reverse", "difference_update", "intersection_update", "symmetric_difference_update"}


def _text(e) -> str:
    try:
        return ast.unparse(e)
    except Exception:
        return "?"


def _pure_test(e) -> bool:
    for x in ast.walk(e):
        if isinstance(x, ast.Call):
            if not (isinstance(x.func, ast.Name) and x.func.id in _PURE_CALLS):
                return False
        elif isinstance(x, (ast.NamedExpr, ast.Yield, ast.YieldFrom, ast.Await, ast.Lambda, ast.ListComp, ast.SetComp, ast.DictComp, ast.GeneratorExp, ast.IfExp)):
            return False
    return True


def _bases(e):
    """(names read, texts of the attribute / subscript chains read) by a test expression"""
    names, bases = set(), set()
    for x in ast.walk(e):
        if isinstance(x, ast.Name):
            names.add(x.id)
        if isinstance(x, (ast.Attribute, ast.Subscript)):
            b = x
            while isinstance(b, ast.Subscript):
                b = b.value
            bases.add(_text(b))
    return names, bases


def _disturbs(st, names, bases) -> bool:
    """may statement `st` (one simple statement or the header of a compound one) change what the test reads?"""
    def hits_base(e):
        t = _text(e)
        return any(t == b or t.startswith(b + ".") or t.startswith(b + "[") or b.startswith(t + ".") or b.startswith(t + "[") for b in bases)

    def store_target(t):
        if isinstance(t, ast.Name):
            return t.id in names or any(b == t.id or b.startswith(t.id + ".") or b.startswith(t.id + "[") for b in bases)
        if isinstance(t, (ast.Tuple, ast.List)):
            return any(store_target(x) for x in t.elts)
        if isinstance(t, ast.Starred):
            return store_target(t.value)
        if isinstance(t, (ast.Subscript, ast.Attribute)):
            b = t
            while isinstance(b, ast.Subscript):
                b = b.value
            return hits_base(b) or (isinstance(t, ast.Attribute) and hits_base(t))
        return False

    heads = []
    if isinstance(st, (ast.Assign,)):
        if any(store_target(t) for t in st.targets):
            return True
        heads.append(st.value)
    elif isinstance(st, (ast.AugAssign, ast.AnnAssign)):
        if store_target(st.target):
            return True
        if st.value is not None:
            heads.append(st.value)
    elif isinstance(st, ast.Delete):
        if any(store_target(t) for t in st.targets):
            return True
    elif isinstance(st, (ast.For, ast.AsyncFor)):
        if store_target(st.target):
            return True
        heads.append(st.iter)
    elif isinstance(st, (ast.With, ast.AsyncWith)):
        for it in st.items:
            if it.optional_vars is not None and store_target(it.optional_vars):
                return True
            heads.append(it.context_expr)
    elif isinstance(st, (ast.If, ast.While)):
        heads.append(st.test)
    elif isinstance(st, (ast.Expr, ast.Return, ast.Raise, ast.Assert)):
        heads += [c for c in ast.iter_child_nodes(st) if isinstance(c, ast.expr)]
    elif isinstance(st, (ast.Import, ast.ImportFrom, ast.Pass, ast.Break, ast.Continue, ast.Global, ast.Nonlocal, ast.Try)):
        return False
    elif isinstance(st, (ast.FunctionDef, ast.AsyncFunctionDef, ast.ClassDef)):
        return False
    else:
        return True
    self_tables = any(b.startswith("self.") or b == "self" for b in bases)
    for h in heads:
        for x in ast.walk(h):
            if isinstance(x, ast.NamedExpr) and store_target(x.target):
                return True
            if isinstance(x, ast.Call):
                f = x.func
                if isinstance(f, ast.Attribute):
                    if hits_base(f.value) and (f.attr in _MUTATORS or not f.attr.startswith(("get", "is_", "check", "keys", "values", "items", "copy", "index", "count"))):
                        return True
                    if self_tables and isinstance(f.value, ast.Name) and f.value.id == "self":
                        return True  # a method of the same object may change its tables
                # a container the test reads is handed to a callee
                for a_ in list(x.args) + [k.value for k in x.keywords]:
                    if isinstance(a_, (ast.Attribute, ast.Subscript, ast.Name)) and (hits_base(a_) if not isinstance(a_, ast.Name) else any(b == a_.id or b.startswith(a_.id + ".") or b.startswith(a_.id + "[") for b in bases)):
                        return True
    return False


def _fold_flags(fn) -> int:
    """`flag = <pure test>` ... `if flag:` -> the test itself, when nothing between the definition and the use can change
    what the test reads (no assignment to its operands, no mutation of a container it looks into, no method call on the
    object whose tables it reads) - otherwise everything is left as it is"""
    stores, params = {}, set()
    for n in ast.walk(fn):
        if isinstance(n, ast.Name) and isinstance(n.ctx, (ast.Store, ast.Del)):
            stores[n.id] = stores.get(n.id, 0) + 1
        elif isinstance(n, ast.arg):
            params.add(n.arg)
        elif isinstance(n, (ast.Global, ast.Nonlocal)):
            params.update(n.names)
    # statements in textual order with their nesting
    parent = {}
    for n in ast.walk(fn):
        for ch in ast.iter_child_nodes(n):
            parent[id(ch)] = n
    nested_scopes = [n for n in ast.walk(fn) if isinstance(n, (ast.FunctionDef, ast.AsyncFunctionDef, ast.Lambda, ast.ListComp, ast.SetComp, ast.DictComp, ast.GeneratorExp)) and n is not fn]
    in_nested = set()
    for sc in nested_scopes:
        for x in ast.walk(sc):
            if x is not sc or not isinstance(sc, (ast.FunctionDef, ast.AsyncFunctionDef)):
                in_nested.add(id(x))

    def stmt_of(n):
        while n is not None and not isinstance(n, ast.stmt):
            n = parent.get(id(n))
        return n

    def pos(n):
        return (getattr(n, "lineno", 0), getattr(n, "col_offset", 0))

    all_stmts = [n for n in ast.walk(fn) if isinstance(n, ast.stmt) and n is not fn and id(n) not in in_nested]
    done = 0
    for blk in _blocks(fn):
        i = 0
        while i < len(blk):
            st = blk[i]
            ok = isinstance(st, ast.Assign) and len(st.targets) == 1 and isinstance(st.targets[0], ast.Name) and isinstance(st.value, (ast.Compare, ast.BoolOp, ast.UnaryOp)) and _pure_test(st.value)
            if ok:
                f = st.targets[0].id
                ok = stores.get(f) == 1 and f not in params
            if ok:
                uses = [x for x in ast.walk(fn) if isinstance(x, ast.Name) and x.id == f and isinstance(x.ctx, ast.Load)]
                ok = bool(uses) and not any(id(u) in in_nested for u in uses)
            if ok:
                names, bases = _bases(st.value)
                later = blk[i + 1 :]
                for u in uses:
                    su = stmt_of(u)
                    # the use lies in (or under) a later statement of the block that holds the definition
                    holder = su
                    while holder is not None and not any(holder is x for x in later):
                        holder = stmt_of(parent.get(id(holder))) if parent.get(id(holder)) is not None else None
                    if holder is None:
                        ok = False
                        break
                    # a `while` re-evaluates its test: not the same as a flag computed once
                    w = su
                    if isinstance(su, ast.While) and any(x is u for x in ast.walk(su.test)):
                        ok = False
                        break
                    region = [s_ for s_ in all_stmts if pos(st) < pos(s_) < pos(su) and s_ is not st]
                    # enclosing loops that do not contain the definition run their whole body between two evaluations
                    anc = parent.get(id(su))
                    while anc is not None and anc is not fn:
                        if isinstance(anc, (ast.For, ast.While, ast.AsyncFor)) and not any(x is st for x in ast.walk(anc)):
                            region += [s_ for s_ in ast.walk(anc) if isinstance(s_, ast.stmt) and s_ is not anc and id(s_) not in in_nested]
                            region.append(anc)
                        anc = parent.get(id(anc))
                    if any(_disturbs(s_, names, bases) for s_ in region if s_ is not su or isinstance(su, (ast.For, ast.With))):
                        ok = False
                        break
            if ok:
                import copy as _copy

                targets = {id(u) for u in uses}
                value = st.value

                class R(ast.NodeTransformer):
                    def visit_Name(self, n):
                        if id(n) in targets:
                            return ast.copy_location(_copy.deepcopy(value), value)
                        return n

                for later_st in blk[i + 1 :]:
                    R().visit(later_st)
                del blk[i]
                done += 1
                continue
            i += 1
    return done


def _split_parallel(fn) -> int:
    done = 0
    for blk in _blocks(fn):
        i = 0
        while i < len(blk):
            st = blk[i]
            if isinstance(st, ast.Assign) and len(st.targets) == 1 and isinstance(st.targets[0], (ast.Tuple, ast.List)) and isinstance(st.value, (ast.Tuple, ast.List)) and len(st.targets[0].elts) == len(st.value.elts) and all(isinstance(t, ast.Name) for t in st.targets[0].elts) and not any(isinstance(v, ast.Starred) for v in st.value.elts):
                names = [t.id for t in st.targets[0].elts]
                ok = len(set(names)) == len(names)
                for k, v in enumerate(st.value.elts):
                    reads = {x.id for x in ast.walk(v) if isinstance(x, ast.Name)}
                    if reads & set(names[:k]):
                        ok = False
                if ok:
                    new = [ast.copy_location(ast.Assign(targets=[ast.copy_location(ast.Name(id=t.id, ctx=ast.Store()), t)], value=v, lineno=st.lineno), st) for t, v in zip(st.targets[0].elts, st.value.elts)]
                    blk[i : i + 1] = new
                    i += len(new)
                    done += 1
                    continue
            # `a[i], b[j] = x, y` with plain names / constants on the right: the right-hand values are fixed before the first
            # store, and a store into a subscript or attribute cannot rebind a name - the stores then happen left to right,
            # each evaluating its own target expression, exactly like separate statements
            if isinstance(st, ast.Assign) and len(st.targets) == 1 and isinstance(st.targets[0], (ast.Tuple, ast.List)) and isinstance(st.value, (ast.Tuple, ast.List)) and len(st.targets[0].elts) == len(st.value.elts) and all(isinstance(t, (ast.Subscript, ast.Attribute)) for t in st.targets[0].elts) and all(isinstance(v, (ast.Name, ast.Constant)) for v in st.value.elts):
                new = [ast.copy_location(ast.Assign(targets=[t], value=v, lineno=st.lineno), st) for t, v in zip(st.targets[0].elts, st.value.elts)]
                blk[i : i + 1] = new
                i += len(new)
                done += 1
                continue
            i += 1
    return done


def _pos(n):
    return (getattr(n, "lineno", 0), getattr(n, "col_offset", 0))


def _hoist_walrus(fn) -> int:
    """`table[label := f(idx)] = node`  ->  `label = f(idx); table[label] = node`, and `a[k] = name = expr` -> `name = expr; a[k] = name`.
    A walrus in a simple statement is hoisted only when it is evaluated unconditionally (not under and / or / a conditional
    expression / a comprehension / a lambda), nothing that is evaluated before it calls anything or reads the name, and the name is
    bound once in the statement."""
    done = 0
    for blk in _blocks(fn):
        i = 0
        while i < len(blk):
            st = blk[i]
            # chained assignment with one plain name among the targets
            if isinstance(st, ast.Assign) and len(st.targets) > 1 and sum(isinstance(t, ast.Name) for t in st.targets) == 1 and not any(isinstance(t, (ast.Tuple, ast.List, ast.Starred)) for t in st.targets):
                nm = next(t for t in st.targets if isinstance(t, ast.Name))
                rest = [t for t in st.targets if t is not nm]
                if not any(isinstance(x, ast.Name) and x.id == nm.id for t in rest for x in ast.walk(t)) and not any(isinstance(x, (ast.NamedExpr, ast.Yield, ast.Await)) for x in ast.walk(st)):
                    first = ast.copy_location(ast.Assign(targets=[nm], value=st.value, lineno=st.lineno), st)
                    more = [ast.copy_location(ast.Assign(targets=[t], value=ast.copy_location(ast.Name(id=nm.id, ctx=ast.Load()), nm), lineno=st.lineno), st) for t in rest]
                    blk[i : i + 1] = [first] + more
                    i += 1 + len(more)
                    done += 1
                    continue
            if isinstance(st, (ast.Assign, ast.AugAssign, ast.Expr, ast.Return)) and any(isinstance(x, ast.NamedExpr) for x in ast.walk(st)):
                parents = {}
                for p_ in ast.walk(st):
                    for c_ in ast.iter_child_nodes(p_):
                        parents[id(c_)] = p_
                ws = [x for x in ast.walk(st) if isinstance(x, ast.NamedExpr)]
                w = min(ws, key=_pos)
                ok = isinstance(w.target, ast.Name) and sum(1 for x in ws if isinstance(x.target, ast.Name) and x.target.id == w.target.id) == 1
                # unconditional evaluation
                cur = w
                while ok and id(cur) in parents:
                    par = parents[id(cur)]
                    if isinstance(par, (ast.IfExp, ast.Lambda, ast.ListComp, ast.SetComp, ast.DictComp, ast.GeneratorExp)):
                        ok = False
                    if isinstance(par, ast.BoolOp) and par.values[0] is not cur:
                        ok = False
                    if isinstance(par, ast.Compare) and len(par.ops) > 1 and par.left is not cur and par.comparators[0] is not cur:
                        ok = False
                    cur = par
                if ok:
                    inside = {id(x) for x in ast.walk(w)}
                    in_target = isinstance(st, (ast.Assign, ast.AugAssign)) and any(id(w) in {id(x) for x in ast.walk(t)} for t in (st.targets if isinstance(st, ast.Assign) else [st.target]))
                    for x in ast.walk(st):
                        if id(x) in inside or x is st:
                            continue
                        before = _pos(x) < _pos(w) or (in_target and isinstance(st, (ast.Assign, ast.AugAssign)) and id(x) in {id(y) for y in ast.walk(st.value)})
                        if not before:
                            continue
                        encloses = id(w) in {id(y) for y in ast.walk(x)}
                        if isinstance(x, ast.Name) and x.id == w.target.id:
                            ok = False
                        if isinstance(x, (ast.Call, ast.Yield, ast.Await)) and not encloses:
                            ok = False
                    if isinstance(st, ast.AugAssign):
                        ok = ok and not in_target
                if ok:
                    first = ast.copy_location(ast.Assign(targets=[ast.copy_location(ast.Name(id=w.target.id, ctx=ast.Store()), w.target)], value=w.value, lineno=w.lineno), w)
                    repl = ast.copy_location(ast.Name(id=w.target.id, ctx=ast.Load()), w)

                    class _R(ast.NodeTransformer):
                        def visit_NamedExpr(self, node):
                            return repl if node is w else self.generic_visit(node)

                    blk[i] = _R().visit(st)
                    blk.insert(i, first)
                    done += 1
                    continue  # the same statement again: there may be another walrus
            i += 1
    return done


def _lower_match(fn) -> int:
    """`match subject:` over literal / or / wildcard / capture / fixed-length sequence patterns -> the if / elif chain it
    abbreviates (the analyses work on if-chains; other pattern kinds are left alone)."""
    Match = getattr(ast, "Match", None)
    if Match is None:
        return 0
    done = 0

    def cond_and_binds(pat, subj):
        """(condition expr or None for 'always', [(name, value expr)]) or raise ValueError when not supported"""
        if isinstance(pat, ast.MatchValue):
            return ast.Compare(left=subj(), ops=[ast.Eq()], comparators=[pat.value]), []
        if isinstance(pat, ast.MatchSingleton):
            return ast.Compare(left=subj(), ops=[ast.Is()], comparators=[ast.Constant(value=pat.value)]), []
        if isinstance(pat, ast.MatchOr):
            parts = [cond_and_binds(p_, subj) for p_ in pat.patterns]
            if any(b for _, b in parts) or any(c is None for c, _ in parts):
                raise ValueError
            return ast.BoolOp(op=ast.Or(), values=[c for c, _ in parts]), []
        if isinstance(pat, ast.MatchAs):
            if pat.pattern is None:
                return None, ([(pat.name, subj())] if pat.name else [])
            c, b = cond_and_binds(pat.pattern, subj)
            return c, b + ([(pat.name, subj())] if pat.name else [])
        if isinstance(pat, ast.MatchClass) and isinstance(pat.cls, ast.Name) and pat.cls.id in ("str", "int", "float", "bool", "tuple", "list", "dict", "set", "frozenset", "bytes") and not pat.kwd_attrs and len(pat.patterns) <= 1:
            # `str()` / `int()` / `str("all")` / `str() as name`: an isinstance test (plus the literal, if any)
            c = ast.Call(func=ast.Name(id="isinstance", ctx=ast.Load()), args=[subj(), ast.Name(id=pat.cls.id, ctx=ast.Load())], keywords=[])
            binds = []
            if pat.patterns:
                c2, binds = cond_and_binds(pat.patterns[0], subj)
                if c2 is not None:
                    c = ast.BoolOp(op=ast.And(), values=[c, c2])
            return c, binds
        if isinstance(pat, ast.MatchSequence) and not any(isinstance(p_, ast.MatchStar) for p_ in pat.patterns) and isinstance(getattr(subj, "display", None), ast.Tuple) and len(subj.display.elts) == len(pat.patterns):
            # `match (order, size): case (None, _):` - the subject is a tuple display: component by component, no length test
            import copy as _cp

            conds, binds = [], []
            for elt, p_ in zip(subj.display.elts, pat.patterns):
                sub = lambda elt=elt: _cp.deepcopy(elt)
                c, b = cond_and_binds(p_, sub)
                if c is not None:
                    conds.append(c)
                binds += b
            return (None if not conds else conds[0] if len(conds) == 1 else ast.BoolOp(op=ast.And(), values=conds)), binds
        if isinstance(pat, ast.MatchSequence) and not any(isinstance(p_, ast.MatchStar) for p_ in pat.patterns):
            n = len(pat.patterns)
            conds = [ast.Compare(left=ast.Call(func=ast.Name(id="len", ctx=ast.Load()), args=[subj()], keywords=[]), ops=[ast.Eq()], comparators=[ast.Constant(value=n)])]
            binds = []
            for k, p_ in enumerate(pat.patterns):
                sub = lambda k=k: ast.Subscript(value=subj(), slice=ast.Constant(value=k), ctx=ast.Load())
                c, b = cond_and_binds(p_, sub)
                if c is not None:
                    conds.append(c)
                binds += b
            return (conds[0] if len(conds) == 1 else ast.BoolOp(op=ast.And(), values=conds)), binds
        raise ValueError

    for blk in _blocks(fn):
        i = 0
        while i < len(blk):
            st = blk[i]
            if isinstance(st, Match):
                pre = []
                pure_tuple = isinstance(st.subject, ast.Tuple) and all(isinstance(e_, (ast.Name, ast.Constant, ast.Attribute)) for e_ in st.subject.elts)
                if isinstance(st.subject, (ast.Name, ast.Attribute, ast.Constant)) or (isinstance(st.subject, ast.Subscript) and isinstance(st.subject.value, ast.Name)) or pure_tuple:
                    subj_expr = st.subject
                else:
                    tmp = f"match_subject_{st.lineno}"
                    pre = [ast.copy_location(ast.Assign(targets=[ast.Name(id=tmp, ctx=ast.Store())], value=st.subject, lineno=st.lineno), st)]
                    subj_expr = ast.Name(id=tmp, ctx=ast.Load())
                import copy as _copy

                subj = lambda: _copy.deepcopy(subj_expr)
                subj.display = subj_expr if pure_tuple else None
                try:
                    arms = []
                    for case in st.cases:
                        c, b = cond_and_binds(case.pattern, subj)
                        if case.guard is not None:
                            if b:
                                raise ValueError  # a guard that reads the captures: not lowered
                            c = case.guard if c is None else ast.BoolOp(op=ast.And(), values=[c, case.guard])
                        body = [ast.copy_location(ast.Assign(targets=[ast.Name(id=nm, ctx=ast.Store())], value=val, lineno=case.body[0].lineno), case.body[0]) for nm, val in b] + list(case.body)
                        arms.append((c, body))
                except ValueError:
                    i += 1
                    continue
                chain: List[ast.stmt] = []
                for c, body in reversed(arms):
                    if c is None:
                        chain = body
                    else:
                        chain = [ast.copy_location(ast.If(test=c, body=body, orelse=chain), body[0])]
                blk[i : i + 1] = pre + (chain or [ast.copy_location(ast.Pass(), st)])
                done += 1
                continue
            i += 1
    return done


def _lbyl(fn) -> int:
    """`try: x = T[k]` / `except KeyError: A` / `else: B`  ->  `if k not in T: A` / `else: x = T[k]; B` (the look-before-you-leap
    spelling the path rules know; T is a plain dict, so the lookup raises KeyError exactly when the key is absent).  Only
    when the try body is that single lookup, with one KeyError handler that does not bind the exception, and no finally."""
    done = 0
    for blk in _blocks(fn):
        i = 0
        while i < len(blk):
            st = blk[i]
            if isinstance(st, ast.Try) and not st.finalbody and len(st.body) == 1 and len(st.handlers) == 1:
                h = st.handlers[0]
                b = st.body[0]
                look = b.value if isinstance(b, (ast.Assign, ast.Expr)) else None
                ok = isinstance(h.type, ast.Name) and h.type.id == "KeyError" and h.name is None and isinstance(look, ast.Subscript) and isinstance(look.value, (ast.Name, ast.Attribute)) and not isinstance(look.slice, ast.Slice)
                if ok and isinstance(b, ast.Assign):
                    ok = len(b.targets) == 1 and isinstance(b.targets[0], ast.Name)
                # the key must be a side-effect free expression (it is evaluated twice after the rewrite)
                if ok and any(isinstance(x, (ast.Call, ast.NamedExpr, ast.Yield, ast.Await)) for x in ast.walk(look.slice)):
                    ok = False
                if ok:
                    import copy as _copy

                    test = ast.Compare(left=_copy.deepcopy(look.slice), ops=[ast.NotIn()], comparators=[_copy.deepcopy(look.value)])
                    new_if = ast.copy_location(ast.If(test=ast.copy_location(test, look), body=list(h.body), orelse=[b] + list(st.orelse)), st)
                    blk[i] = new_if
                    done += 1
            i += 1
    return done


def _is_pure_row_expr(e) -> bool:
    for x in ast.walk(e):
        if isinstance(x, ast.Call):
            if not (isinstance(x.func, ast.Name) and x.func.id in _PURE_CALLS | {"partial", "attrgetter", "itemgetter", "methodcaller"}):
                return False
        elif isinstance(x, (ast.NamedExpr, ast.Yield, ast.YieldFrom, ast.Await, ast.ListComp, ast.SetComp, ast.DictComp, ast.GeneratorExp)):
            return False
    return True


def _unroll_literal_loops(fn) -> int:
    """`for a, b in ((x1, y1), (x2, y2)): body` over a literal display of at most 8 rows -> the body once per row with the
    row's expressions substituted for the loop variables.  Only when the body has no break / continue / else, does not
    assign the loop variables, and does not assign anything the row expressions read (so evaluating a row right before its
    iteration is the same as evaluating the whole display up front)."""
    import copy as _copy

    done = 0
    for blk in _blocks(fn):
        i = 0
        while i < len(blk):
            st = blk[i]
            ok = isinstance(st, ast.For) and not st.orelse and isinstance(st.iter, (ast.Tuple, ast.List)) and 1 <= len(st.iter.elts) <= 8 and not any(isinstance(e, ast.Starred) for e in st.iter.elts)
            if ok:
                tgt = st.target
                names = [tgt.id] if isinstance(tgt, ast.Name) else ([t.id for t in tgt.elts] if isinstance(tgt, (ast.Tuple, ast.List)) and all(isinstance(t, ast.Name) for t in tgt.elts) else None)
                ok = names is not None and len(set(names)) == len(names)
            if ok:
                rows = []
                for e in st.iter.elts:
                    if isinstance(tgt, ast.Name):
                        rows.append([e])
                    elif isinstance(e, (ast.Tuple, ast.List)) and len(e.elts) == len(names) and not any(isinstance(x, ast.Starred) for x in e.elts):
                        rows.append(list(e.elts))
                    else:
                        ok = False
                ok = ok and all(_is_pure_row_expr(x) for r in rows for x in r)
            if ok:
                body_nodes = [x for b_ in st.body for x in ast.walk(b_)]
                if any(isinstance(x, (ast.Break, ast.Continue, ast.FunctionDef, ast.AsyncFunctionDef, ast.Lambda, ast.ClassDef)) for x in body_nodes):
                    ok = False
                # loop variables are not re-bound in the body and not used after the loop
                if ok and any(isinstance(x, ast.Name) and x.id in names and isinstance(x.ctx, (ast.Store, ast.Del)) for x in body_nodes):
                    ok = False
                if ok:
                    after_uses = [x for later in blk[i + 1 :] for x in ast.walk(later) if isinstance(x, ast.Name) and x.id in names and isinstance(x.ctx, ast.Load)]
                    # (a later re-binding before the use would make this safe; keep it simple)
                    if after_uses:
                        ok = False
                if ok:
                    rnames, rbases = set(), set()
                    for r in rows:
                        for x in r:
                            a_, b_ = _bases(x)
                            rnames |= a_
                            rbases |= b_
                    if any(_disturbs(b_, rnames, rbases) for b_ in body_nodes if isinstance(b_, ast.stmt)):
                        ok = False
            if ok:
                new = []
                for r in rows:
                    sub = dict(zip(names, r))

                    class R(ast.NodeTransformer):
                        def visit_Name(self, n):
                            if n.id in sub and isinstance(n.ctx, ast.Load):
                                return ast.copy_location(_copy.deepcopy(sub[n.id]), n)
                            return n

                    for b_ in st.body:
                        new.append(R().visit(_copy.deepcopy(b_)))
                blk[i : i + 1] = new
                i += len(new)
                done += 1
                continue
            i += 1
    return done


def _lower_genexp_loops(fn) -> int:
    """`for x in (E for y in IT if C): body` -> `for y in IT: if C: x = E; body` (a generator expression is consumed lazily, one
    element per iteration, so the two run the same statements in the same order).  Only for one generator, no `else` of the
    loop, and when the generator's variables are free to become locals of the function (they are the loop's own target, or a
    name used nowhere else)."""
    done = 0
    for blk in _blocks(fn):
        for st in blk:
            if not (isinstance(st, ast.For) and not st.orelse and isinstance(st.iter, ast.GeneratorExp) and len(st.iter.generators) == 1):
                continue
            g = st.iter.generators[0]
            if g.is_async:
                continue
            gnames = {x.id for x in ast.walk(g.target) if isinstance(x, ast.Name)}
            tnames = {x.id for x in ast.walk(st.target) if isinstance(x, ast.Name)}
            inside = {id(x) for x in ast.walk(st.iter)}
            elsewhere = {x.id for x in ast.walk(fn) if isinstance(x, ast.Name) and id(x) not in inside} | {a.arg for a in fn.args.args + fn.args.kwonlyargs}
            if (gnames - tnames) & elsewhere:
                continue
            # `continue` in the body must still skip to the next element: it does (same loop); a `break` likewise
            same = isinstance(st.iter.elt, ast.Name) and isinstance(st.target, ast.Name) and isinstance(g.target, ast.Name) and st.iter.elt.id == g.target.id and st.target.id == g.target.id
            body = list(st.body)
            if not same:
                if isinstance(g.target, ast.Name) and isinstance(st.iter.elt, ast.Name) and st.iter.elt.id == g.target.id and isinstance(st.target, ast.Name):
                    # for x in (y for y in IT if C): rename by binding x = y
                    body = [ast.Assign(targets=[st.target], value=ast.Name(id=g.target.id, ctx=ast.Load()))] + body
                else:
                    body = [ast.Assign(targets=[st.target], value=st.iter.elt)] + body
            if g.ifs:
                test = g.ifs[0] if len(g.ifs) == 1 else ast.BoolOp(op=ast.And(), values=list(g.ifs))
                body = [ast.If(test=test, body=body, orelse=[])]
            new_target = g.target
            for x in ast.walk(new_target):
                if isinstance(x, ast.Name):
                    x.ctx = ast.Store()
            st.target = new_target
            st.iter = g.iter
            st.body = body
            for n in body:
                ast.copy_location(n, st)
            done += 1
    return done


def _fold_bound_aliases(fn) -> int:
    """`add = seen.add` ... `add(x)`  ->  `seen.add(x)`; `w_of = self._weights.__getitem__` ... `w_of(k)` -> `self._weights[k]`.
    Region by region: after `name = <attribute of an object>` the rest of the same block calls `name(...)`; when neither the name
    nor the object it was taken from is re-assigned in that rest, calling the local is calling that attribute of the same
    object.  Only calls are rewritten; the binding stays."""
    import copy as _copy

    def root(e):
        # `set(nodes).issuperset`: a bound method of a set built from a name - as good as the name while the name's object is
        # left alone (checked below: no re-assignment, no mutating call on it in the region)
        if isinstance(e, ast.Attribute) and e.attr in ("issubset", "issuperset", "isdisjoint", "__contains__", "intersection") and isinstance(e.value, ast.Call) and isinstance(e.value.func, ast.Name) and e.value.func.id in ("set", "frozenset") and len(e.value.args) == 1 and not e.value.keywords:
            e = e.value.args[0]
        while isinstance(e, ast.Attribute):
            e = e.value
        return e if isinstance(e, ast.Name) else None

    done = 0
    for blk in _blocks(fn):
        for i, st in enumerate(blk):
            if not (isinstance(st, ast.Assign) and len(st.targets) == 1 and isinstance(st.targets[0], ast.Name) and isinstance(st.value, ast.Attribute)):
                continue
            name, target = st.targets[0].id, st.value
            r = root(target)
            if r is None:
                continue
            if not (target.attr.startswith("__") or target.attr in _METHODISH or isinstance(target.value, ast.Name)):
                continue  # (a data attribute read early is a snapshot, not an alias)
            region = blk[i + 1 :]
            if not region:
                continue
            # nothing in the rest of the block re-assigns the alias, the object, or an attribute on the chain
            chain = set()
            e = target.value
            while isinstance(e, ast.Attribute):
                chain.add(norm_(e))
                e = e.value
            clobbered = False
            for s2 in region:
                for n in ast.walk(s2):
                    if isinstance(n, ast.Name) and isinstance(n.ctx, (ast.Store, ast.Del)) and n.id in (name, r.id):
                        clobbered = True
                    if isinstance(n, ast.Attribute) and isinstance(n.ctx, (ast.Store, ast.Del)) and norm_(n) in chain:
                        clobbered = True
                    if isinstance(target.value, ast.Call) and isinstance(n, ast.Call) and isinstance(n.func, ast.Attribute) and isinstance(n.func.value, ast.Name) and n.func.value.id == r.id and n.func.attr in ("append", "extend", "add", "update", "remove", "discard", "pop", "clear", "insert", "sort"):
                        clobbered = True  # the snapshot `set(x)` would differ from a later `set(x)`
            # a loop around the block may bring a later re-assignment of the object back in front of the calls
            if clobbered:
                continue
            holder_loops = [n for n in ast.walk(fn) if isinstance(n, (ast.For, ast.While)) and any(st is y for y in ast.walk(n))]
            if any(isinstance(n, ast.Name) and isinstance(n.ctx, (ast.Store, ast.Del)) and n.id == r.id and n is not st.targets[0] for lp in holder_loops for n in ast.walk(lp)):
                continue

            class R(ast.NodeTransformer):
                def visit_Call(self, n):
                    nonlocal done
                    self.generic_visit(n)
                    if isinstance(n.func, ast.Name) and n.func.id == name:
                        if target.attr == "__getitem__" and len(n.args) == 1 and not n.keywords:
                            done += 1
                            return ast.copy_location(ast.Subscript(value=_copy.deepcopy(target.value), slice=n.args[0], ctx=ast.Load()), n)
                        if target.attr == "__contains__" and len(n.args) == 1 and not n.keywords:
                            done += 1
                            return ast.copy_location(ast.Compare(left=n.args[0], ops=[ast.In()], comparators=[_copy.deepcopy(target.value)]), n)
                        done += 1
                        n.func = ast.copy_location(_copy.deepcopy(target), n.func)
                    return n

                def visit_FunctionDef(self, n):
                    return n  # (a nested function may run later, when the object has been rebound)

                visit_AsyncFunctionDef = visit_Lambda = visit_FunctionDef

            for s2 in region:
                R().visit(s2)
    return done


_METHODISH = {
    "append", "extend", "add", "update", "remove", "discard", "pop", "get", "setdefault", "keys", "values", "items", "insert", "clear", "index", "count", "copy",
    "popleft", "appendleft", "union", "intersection", "difference", "issubset", "issuperset", "sort", "write", "transform", "inverse_transform",
}


def norm_(e) -> str:
    return ast.unparse(e)


def _module_tables(tree):
    """module-level `NAME = {<const>: <expr>, ...}` displays that are assigned once and never written to afterwards"""
    out = {}
    counts = {}
    for st in tree.body:
        if isinstance(st, ast.Assign) and len(st.targets) == 1 and isinstance(st.targets[0], ast.Name):
            counts[st.targets[0].id] = counts.get(st.targets[0].id, 0) + 1
            if isinstance(st.value, ast.Dict) and st.value.keys and all(isinstance(k, ast.Constant) for k in st.value.keys):
                out[st.targets[0].id] = st.value
    written = set()
    for n in ast.walk(tree):
        if isinstance(n, ast.Subscript) and isinstance(n.ctx, (ast.Store, ast.Del)) and isinstance(n.value, ast.Name):
            written.add(n.value.id)
        if isinstance(n, ast.Call) and isinstance(n.func, ast.Attribute) and isinstance(n.func.value, ast.Name) and n.func.attr in _MUTATORS:
            written.add(n.func.value.id)
        if isinstance(n, ast.Name) and isinstance(n.ctx, ast.Store) and n.id in out and not any(isinstance(st, ast.Assign) and st.targets[0] is n for st in tree.body):
            written.add(n.id)
        if isinstance(n, (ast.Global,)):
            written.update(n.names)
    return {k: v for k, v in out.items() if counts.get(k) == 1 and k not in written}


class _FoldGetters(ast.NodeTransformer):
    """`TABLE[<const>]` for a frozen module-level table -> the entry; `attrgetter("a")(x)` -> `x.a`; `itemgetter(k)(x)` -> `x[k]`;
    `methodcaller("m", ...)(x)` -> `x.m(...)` (what the operator-module helpers compute, written out)"""

    def __init__(self, tables):
        self.tables = tables
        self.n = 0

    def visit_Subscript(self, n):
        self.generic_visit(n)
        if isinstance(n.ctx, ast.Load) and isinstance(n.value, ast.Name) and n.value.id in self.tables and isinstance(n.slice, ast.Constant):
            d = self.tables[n.value.id]
            import copy as _copy

            for k, val in zip(d.keys, d.values):
                if isinstance(k, ast.Constant) and type(k.value) is type(n.slice.value) and k.value == n.slice.value and _is_pure_row_expr(val) and not any(isinstance(x, ast.Lambda) for x in ast.walk(val)):
                    self.n += 1
                    return ast.copy_location(_copy.deepcopy(val), n)
        return n

    def visit_Call(self, n):
        self.generic_visit(n)
        f = n.func
        if isinstance(f, ast.Call) and isinstance(f.func, (ast.Name, ast.Attribute)) and len(n.args) == 1 and not n.keywords:
            name = f.func.id if isinstance(f.func, ast.Name) else f.func.attr
            x = n.args[0]
            if name == "attrgetter" and len(f.args) == 1 and not f.keywords and isinstance(f.args[0], ast.Constant) and isinstance(f.args[0].value, str) and f.args[0].value.isidentifier():
                self.n += 1
                return ast.copy_location(ast.Attribute(value=x, attr=f.args[0].value, ctx=ast.Load()), n)
            if name == "itemgetter" and len(f.args) == 1 and not f.keywords:
                self.n += 1
                return ast.copy_location(ast.Subscript(value=x, slice=f.args[0], ctx=ast.Load()), n)
            if name == "methodcaller" and f.args and isinstance(f.args[0], ast.Constant) and isinstance(f.args[0].value, str) and f.args[0].value.isidentifier():
                self.n += 1
                return ast.copy_location(ast.Call(func=ast.Attribute(value=x, attr=f.args[0].value, ctx=ast.Load()), args=list(f.args[1:]), keywords=list(f.keywords)), n)
        return n


class _PlainAnnotated(ast.NodeTransformer):
    """`allowed: Set[Node] = set(nodes)`  ->  `allowed = set(nodes)` for plain local names: the annotation of a local carries nothing
    the analysis uses, and every def-use helper reads plain assignments"""

    def visit_AnnAssign(self, n):
        if isinstance(n.target, ast.Name) and n.value is not None and n.simple:
            return ast.copy_location(ast.Assign(targets=[n.target], value=n.value, type_comment=None), n)
        return n

    def visit_ClassDef(self, n):
        return n  # annotated class-level fields (dataclasses, NamedTuples) keep their form


def _inline_filter_generators(tree: ast.Module) -> int:
    """`for e in _edges_not_of_size(hypergraph.get_edges(), size): body`  with the module-level generator
           def _edges_not_of_size(edges, size):
               for e in edges:
                   if len(e) != size:
                       yield e
    is  `for e in hypergraph.get_edges(): if len(e) != size: body`.  Only generators of exactly that shape (one loop over their first
    parameter, one optional test, `yield <loop variable>`), called with plain positional arguments; the arguments other than the
    iterated one must be names / constants / attribute chains (they are evaluated once per item after the rewrite)."""
    import copy as _copy

    helpers = {}
    for fn in tree.body:
        if not isinstance(fn, ast.FunctionDef) or fn.decorator_list or fn.args.vararg or fn.args.kwarg or fn.args.kwonlyargs or fn.args.defaults:
            continue
        body = [st for st in fn.body if not (isinstance(st, ast.Expr) and isinstance(st.value, ast.Constant))]
        params = [a.arg for a in fn.args.args]
        if len(body) != 1 or not params:
            continue
        if isinstance(body[0], ast.Return) and isinstance(body[0].value, ast.GeneratorExp) and len(body[0].value.generators) == 1:
            # `return (e for e in hypergraph.get_edges() if len(e) != size)`
            g = body[0].value.generators[0]
            if g.is_async or len(g.ifs) > 1 or not isinstance(g.target, ast.Name) or not (isinstance(body[0].value.elt, ast.Name) and body[0].value.elt.id == g.target.id):
                continue
            tvar, it_expr, test = g.target.id, g.iter, (g.ifs[0] if g.ifs else None)
        elif isinstance(body[0], ast.For) and not body[0].orelse:
            lp = body[0]
            if not isinstance(lp.target, ast.Name):
                continue
            inner, test = lp.body, None
            if len(inner) == 1 and isinstance(inner[0], ast.If) and not inner[0].orelse:
                test, inner = inner[0].test, inner[0].body
            if not (len(inner) == 1 and isinstance(inner[0], ast.Expr) and isinstance(inner[0].value, ast.Yield) and isinstance(inner[0].value.value, ast.Name) and inner[0].value.value.id == lp.target.id):
                continue
            tvar, it_expr = lp.target.id, lp.iter
        else:
            continue
        bare = isinstance(it_expr, ast.Name) and it_expr.id == params[0]
        # the iterated expression is the first parameter itself, or an expression over the parameters only
        if not bare and not ({x.id for x in ast.walk(it_expr) if isinstance(x, ast.Name)} <= set(params)):
            continue
        if bare and test is not None and any(isinstance(x, ast.Name) and x.id == params[0] for x in ast.walk(test)):
            continue
        if any(isinstance(x, (ast.NamedExpr, ast.Yield, ast.Await, ast.Lambda)) for e_ in (it_expr, test) if e_ is not None for x in ast.walk(e_)):
            continue
        helpers[fn.name] = (params, tvar, test, None if bare else it_expr)
    if not helpers:
        return 0
    done = 0
    for lp in [n for n in ast.walk(tree) if isinstance(n, ast.For)]:
        it = lp.iter
        if not (isinstance(it, ast.Call) and isinstance(it.func, ast.Name) and it.func.id in helpers and not it.keywords and not any(isinstance(a, ast.Starred) for a in it.args)):
            continue
        params, tvar, test, it_expr = helpers[it.func.id]
        if len(it.args) != len(params) or not isinstance(lp.target, ast.Name):
            continue
        if not all(isinstance(a, (ast.Name, ast.Constant)) or (isinstance(a, ast.Attribute) and isinstance(a.value, ast.Name)) for a in it.args[(1 if it_expr is None else 0):]):
            continue
        mapping = dict(zip(params[1:], it.args[1:])) if it_expr is None else dict(zip(params, it.args))
        if tvar in mapping:
            continue
        mapping[tvar] = lp.target

        class Sub(ast.NodeTransformer):
            def visit_Name(self, n):
                if isinstance(n.ctx, ast.Load) and n.id in mapping:
                    return ast.copy_location(_copy.deepcopy(mapping[n.id]) if not isinstance(mapping[n.id], ast.Name) else ast.Name(id=mapping[n.id].id, ctx=ast.Load()), n)
                return n

        lp.iter = it.args[0] if it_expr is None else Sub().visit(_copy.deepcopy(it_expr))
        if test is not None:
            new_test = Sub().visit(_copy.deepcopy(test))
            lp.body = [ast.copy_location(ast.If(test=new_test, body=lp.body, orelse=[]), lp.body[0])]
        done += 1
    return done


def _unclash_local_imports(tree: ast.Module) -> int:
    """Two functions of one module bind the SAME local alias to different things (`from ...degree import degree_sequence as _impl` in one
    method, `from ...degree import degree as _impl` in the next).  The module-wide import table of the model has one entry per alias,
    so such an alias is renamed per function (`_impl` -> `_impl__degree_sequence`): import and uses, inside that function only."""
    seen = {}
    for n in ast.walk(tree):
        if isinstance(n, (ast.Import, ast.ImportFrom)):
            for a in n.names:
                if a.name != "*":
                    seen.setdefault(a.asname or a.name.split(".")[0], set()).add((getattr(n, "module", None), a.name))
    clash = {k for k, v_ in seen.items() if len(v_) > 1}
    if not clash:
        return 0
    done = 0
    for fn in [x for x in ast.walk(tree) if isinstance(x, (ast.FunctionDef, ast.AsyncFunctionDef))]:
        local = {}
        for n in fn.body:
            if isinstance(n, (ast.Import, ast.ImportFrom)):
                for a in n.names:
                    al = a.asname or a.name.split(".")[0]
                    if al in clash and a.name != "*":
                        new = f"{al}__{a.name.replace('.', '_')}"
                        local[al] = new
                        a.asname = new
        if not local:
            continue
        for x in ast.walk(fn):
            if isinstance(x, ast.Name) and x.id in local:
                x.id = local[x.id]
        done += 1
    return done


def canonicalise(tree: ast.Module) -> ast.Module:
    _unclash_local_imports(tree)
    _inline_filter_generators(tree)
    tables = _module_tables(tree)
    for fn in _functions(tree):
        _PlainAnnotated().visit(fn)
        for _ in range(3):
            if not _unroll_literal_loops(fn):  # (nested literal loops: the inner one after the outer one was unrolled)
                break
        _FoldGetters(tables).visit(fn)
        for _ in range(3):
            if not _lower_match(fn):  # (nested match statements: inner ones appear after the outer one was lowered)
                break
        _split_parallel(fn)
        _hoist_walrus(fn)
        _fold_bound_aliases(fn)
        _lower_genexp_loops(fn)
        _lbyl(fn)
        # folding one flag can make the next one adjacent to its `if`
        for _ in range(4):
            if not _fold_flags(fn):
                break
    ast.fix_missing_locations(tree)
    return tree

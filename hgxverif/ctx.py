"""Analysis context shared by the rule engines of one run."""
from __future__ import annotations

import ast
from typing import Dict, Iterable, List, Optional

from .interp import Interp, Site
from .model import AnalysisError, FunctionInfo, Program
from .report import Ob, Result
from .tableops import FuncView


class Ctx:
    def __init__(self, repo: str, tier: str = "quick", overrides=None):
        self.repo = repo
        self.tier = tier
        self.prog = Program(repo, overrides)
        self._check_tables_declared()
        self.interp = Interp(self.prog)
        self.interp.analyse_all()
        self._views: Dict[str, FuncView] = {}

    def _check_tables_declared(self):
        """Frozen table declarations vs the source: every declared table is initialised in __init__, and every
        dict / set attribute initialised in __init__ is declared (a new table must get a kind and enter the pairing rules)."""
        from . import tables as T

        self.table_notes = []  # (class, kind, attributes): surfaced as `unknown` obligations by the container properties
        for cls in T.CONTAINERS:
            ci = self.prog.cls(cls)
            init = dict(ci.init_attrs())
            # attributes initialised by helpers that __init__ calls (or anywhere else in the class) count as well
            assigned = set(init)
            for m in ci.methods.values():
                for n in ast.walk(m.node):
                    if isinstance(n, ast.Attribute) and isinstance(n.ctx, ast.Store) and isinstance(n.value, ast.Name) and n.value.id == "self":
                        assigned.add(n.attr)
                    if isinstance(n, ast.Call) and isinstance(n.func, ast.Name) and n.func.id == "setattr" and len(n.args) >= 2 and isinstance(n.args[1], ast.Constant):
                        assigned.add(n.args[1].value)
            decl = T.class_tables(cls)
            missing = [a for a in decl if a not in assigned]
            if len(missing) == len(decl):
                raise AnalysisError(f"{cls}: none of the declared tables {sorted(decl)} is assigned anywhere in the class (tables.py does not describe this tree)")
            if missing:
                self.table_notes.append((cls, "declared-but-not-assigned", missing))
            extra = [a for a, v in init.items() if a not in decl and (isinstance(v, (ast.Dict, ast.Set)) or (isinstance(v, ast.Call) and isinstance(v.func, ast.Name) and v.func.id in ("dict", "set", "list", "defaultdict")))]
            if extra:
                self.table_notes.append((cls, "undeclared-table", extra))

    def view(self, dotted_or_fi) -> FuncView:
        fi = dotted_or_fi if isinstance(dotted_or_fi, FunctionInfo) else self.prog.func(dotted_or_fi)
        v = self._views.get(fi.qualname)
        if v is None:
            v = FuncView(self, fi)
            self._views[fi.qualname] = v
        return v

    def callees(self, fi: FunctionInfo, node: ast.Call) -> List[FunctionInfo]:
        """repo functions a call may reach, as resolved by the kind engine (all contexts)"""
        idx = getattr(self, "_callee_index", None)
        if idx is None:
            idx = {}
            for cf in self.interp.callfacts:
                lst = idx.setdefault((cf.caller.qualname, id(cf.node)), [])
                if cf.callee not in lst:
                    lst.append(cf.callee)
            self._callee_index = idx
        return idx.get((fi.qualname, id(node)), [])

    def has(self, dotted: str) -> bool:
        return self.prog.has_func(dotted)

    def require(self, dotted: str) -> FunctionInfo:
        """An anchored function: its disappearance is an analysis error, never a silent pass."""
        if isinstance(dotted, FunctionInfo):
            return dotted
        return self.prog.func(dotted)

    def methods(self, cls: str) -> Dict[str, FunctionInfo]:
        return self.prog.cls(cls).methods

    # ------------------------------------------------------------- kind sites
    def sites(self, rules: Iterable[str] = (), funcs: Optional[Iterable[str]] = None, files: Optional[Iterable[str]] = None, classes: Optional[Iterable[str]] = None) -> List[Site]:
        rules = set(rules)
        if "K-ARG" in rules or "K-KEY" in rules:
            rules.add("K-POS")  # lists indexed by an edge id: reported wherever the argument / key units are
        funcs = set(funcs) if funcs is not None else None
        files = set(files) if files is not None else None
        if files is not None:
            # a listed file that was split: the private modules (`_impl.py`) it re-exports from belong to it
            by_rel = {m.relpath: m for m in self.prog.modules.values()}
            for rel in list(files):
                m = by_rel.get(rel)
                if m is None:
                    continue
                bases = {b[1] for b in m.imports.values() if b[0] == "symbol"} | set(m.star_imports)
                for base in bases:
                    src = self.prog.modules.get(base)
                    if src is not None and src.name.split(".")[-1].startswith("_") and src.name.rsplit(".", 1)[0] == m.name.rsplit(".", 1)[0]:
                        files.add(src.relpath)
        classes = set(classes) if classes is not None else None
        out = []
        for s in self.interp.sites.values():
            if rules and s.rule not in rules:
                continue
            if funcs is not None and s.func not in funcs:
                continue
            if files is not None and s.where.rsplit(":", 1)[0] not in files:
                continue
            if classes is not None and s.func.split(".")[0] not in classes:
                continue
            out.append(s)
        out.sort(key=lambda s: (s.where.rsplit(":", 1)[0], int(s.where.rsplit(":", 1)[1]) if s.where.rsplit(":", 1)[1].isdigit() else 0, s.rule, s.detail))
        return out

    def add_sites(self, res: Result, sites: Iterable[Site], rename: Optional[str] = None):
        sites = list(sites)
        soft = self._dispatch_guarded(sites)
        for s in sites:
            status = {"ok": "ok", "unknown": "unknown", "mismatch": "violation"}[s.verdict]
            reason = s.reason
            if status == "violation" and id(s) in soft:
                status = "unknown"
                reason = f"{s.reason} - for ONE of the classes the receiver may have; the call sits under a test on the type name ({soft[id(s)]}), whose pairing with the receiver's class was not followed"
            res.add(rename or s.rule, s.func, s.stmt, s.detail, status, reason, s.where)

    def _dispatch_guarded(self, sites):
        """C-SIG / K-ARG mismatches of a call whose receiver may be one of several container classes, where the call is
        control-dependent on a test that compares something with a container class name / uses isinstance / type(): the
        dispatch is there, only spelled in a way the kind engine does not narrow on (a boolean local, a helper that returns
        the class name).  {id(site): text of the guarding test}"""
        import ast as _ast

        from . import tables as T
        from .model import norm as _norm

        groups = {}
        for s in sites:
            if s.rule in ("C-SIG", "K-ARG") and s.node_id:
                groups.setdefault((s.qual, s.node_id), []).append(s)
        out = {}
        for (qual, nid), grp in groups.items():
            classes = {c for s in grp for c in T.CONTAINERS if (c + ".") in s.detail}
            if len(classes) < 2 or not any(s.verdict == "mismatch" for s in grp):
                continue
            fi = self.prog.functions.get(qual)
            if fi is None:
                continue
            v = self.view(fi)
            node = next((n for n in _ast.walk(fi.node) if id(n) == nid), None)
            if node is None:
                continue
            guard = None
            for iff in v.enclosing_all(node, (_ast.If,)):
                t = v.inline(iff.test)
                for x in _ast.walk(t):
                    if (isinstance(x, _ast.Constant) and isinstance(x.value, str) and any(c in x.value for c in T.CONTAINERS)) or (isinstance(x, _ast.Call) and _norm(x.func) in ("isinstance", "type")) or (isinstance(x, _ast.Attribute) and x.attr in ("__class__", "__name__")):
                        guard = _norm(iff.test)[:60]
            if guard:
                for s in grp:
                    if s.verdict == "mismatch":
                        out[id(s)] = guard
        return out

    def stats(self) -> dict:
        st = self.prog.stats()
        st["function_analyses"] = self.interp.analysed_functions
        st["calls"] = dict(self.interp.call_stats)
        st["kind_sites"] = len(self.interp.sites)
        return st

"""Must-flow rules for functions that build a new container from `self` (C05): weights, hyperedge metadata,
node metadata and weightedness travel from the source to the extract on every path that returns it."""
from __future__ import annotations

import ast
from typing import List, Optional

from . import tables as T
from .kinds import META, WEIGHT, Lst, Obj, _Top, elem_of
from .model import AnalysisError, is_self_attr, loc, norm, walk_no_nested
from .report import Result
from .rules_container import _atoms, _implied_branch
from .tableops import FuncView


def _fresh_containers(v: FuncView):
    """name -> constructor Call, for `h = <ContainerClass>(...)` assignments."""
    out = {}
    for n in walk_no_nested(v.fi.node):
        if isinstance(n, ast.Assign) and len(n.targets) == 1 and isinstance(n.targets[0], ast.Name) and isinstance(n.value, ast.Call):
            k = v.kind(n.value)
            if isinstance(k, Obj) and k.cls in T.CONTAINERS and isinstance(n.value.func, ast.Name):
                out.setdefault(n.targets[0].id, []).append(n.value)
    return out


def _calls_on(v: FuncView, name: str, methods):
    out = []
    for n in walk_no_nested(v.fi.node):
        if isinstance(n, ast.Call) and isinstance(n.func, ast.Attribute) and isinstance(n.func.value, ast.Name) and n.func.value.id == name and n.func.attr in methods:
            out.append(n)
    return out


def _weighted_branch(v: FuncView, node, names) -> Optional[bool]:
    """True / False if `node` is only reached on a branch where the weighted flag (of self or of one of `names`) is
    known true / false, else None."""
    nid = v.cfg_id(node)
    for n in walk_no_nested(v.fi.node):
        if isinstance(n, ast.If):
            for atom, _ in _atoms(n.test, True):
                isflag = is_self_attr(atom, "_weighted") or (
                    isinstance(atom, ast.Call) and isinstance(atom.func, ast.Attribute) and atom.func.attr == "is_weighted" and isinstance(atom.func.value, ast.Name) and atom.func.value.id in set(names) | {"self"}
                )
                if isflag:
                    for want in (True, False):
                        lab = _implied_branch(n.test, atom, want)
                        if lab and v.cfg.branch_dominated(v.cfg.by_ast[id(n.test)], lab, nid):
                            return want
    return None


def _arg(call: ast.Call, pos: int, kw: str):
    for k in call.keywords:
        if k.arg == kw:
            return k.value
    if len(call.args) > pos:
        return call.args[pos]
    return None


def _transfer_loops(v: FuncView, h: str, setter: str, getter: str):
    """`for X in ITER: h.<setter>(X, self.<getter>(X))` loops."""
    out = []
    for n in walk_no_nested(v.fi.node):
        if isinstance(n, ast.For) and isinstance(n.target, ast.Name):
            x = n.target.id
            for c in ast.walk(n):
                if isinstance(c, ast.Call) and isinstance(c.func, ast.Attribute) and c.func.attr == setter and isinstance(c.func.value, ast.Name) and c.func.value.id == h and len(c.args) >= 2:
                    a0, a1 = c.args[0], c.args[1]
                    if isinstance(a0, ast.Name) and a0.id == x and isinstance(a1, ast.Call) and isinstance(a1.func, ast.Attribute) and a1.func.attr == getter and is_self_attr(a1.func) and a1.args and isinstance(a1.args[0], ast.Name) and a1.args[0].id == x:
                        out.append(n)
    return out


def check_extraction(ctx, res: Result, dotted: str):
    v = ctx.view(dotted)
    f = v.fi.short
    fresh = _fresh_containers(v)
    rets = [n for n in walk_no_nested(v.fi.node) if isinstance(n, ast.Return) and isinstance(n.value, ast.Name) and n.value.id in fresh]
    if not fresh or not rets:
        if _check_delegation(ctx, res, v):
            return
        raise AnalysisError(f"{f}: no fresh container is built and returned (anchor of the must-flow rules vanished)")
    for h, ctors in fresh.items():
        if not any(r.value.id == h for r in rets):
            continue
        # (F) same weightedness
        for c in ctors:
            w = _arg(c, 1, "weighted")
            good = w is not None and (is_self_attr(w, "_weighted") or (isinstance(w, ast.Call) and isinstance(w.func, ast.Attribute) and w.func.attr == "is_weighted" and isinstance(w.func.value, ast.Name) and w.func.value.id == "self"))
            res.check(good, "X-FLAG", f, norm(c), "weighted", "the extract is not constructed with the source's weightedness", loc(v.fi, c))
        adds = _calls_on(v, h, ("add_edge", "add_edges"))
        if not adds:
            res.violation("X-WEIGHT", f, f"{h}.add_edge(...)", "insert", "the extract never receives hyperedges", loc(v.fi, v.fi.node))
        edge_loops = _transfer_loops(v, h, "set_edge_metadata", "get_edge_metadata")
        node_loops = _transfer_loops(v, h, "set_node_metadata", "get_node_metadata")
        for c in adds:
            batch = c.func.attr == "add_edges"
            # (W) weights
            warg = _arg(c, 1, "weights" if batch else "weight")
            wb = _weighted_branch(v, c, [h])
            if warg is None:
                res.check(wb is False, "X-WEIGHT", f, norm(c), "weight", "hyperedges are inserted into the extract without their weights although the source may be weighted", loc(v.fi, c))
            else:
                k = v.kind(warg)
                ek = elem_of(k) if batch else k
                from .kinds import fits, Mismatch, strip_none

                vv = fits(strip_none(ek), WEIGHT)
                res.add("X-WEIGHT", f, norm(c), "weight", "violation" if isinstance(vv, Mismatch) else ("ok" if not isinstance(ek, _Top) else "unknown"), getattr(vv, "reason", ""), loc(v.fi, c))
            # (M) hyperedge metadata
            marg = _arg(c, 2, "metadata")
            cid = v.cfg_id(c)
            if marg is None:
                ids = {v.cfg.by_ast[id(l)] for l in edge_loops}
                ok = bool(ids) and all(not v.cfg.reaches_without(cid, v.cfg_id(r), ids) for r in rets if r.value.id == h and v.cfg.reachable(cid, v.cfg_id(r)))
                res.check(ok, "X-EMETA", f, norm(c), "metadata", "hyperedges reach the extract without their metadata on some path (no metadata argument and no following set_edge_metadata transfer loop)", loc(v.fi, c))
            else:
                k = v.kind(marg)
                res.add("X-EMETA", f, norm(c), "metadata", "ok" if (k == META or (batch and elem_of(k) == META)) else "unknown", "", loc(v.fi, c))
        # (S) documented node set: whole-node-set insertions take ALL nodes of the source (or the requested node list)
        params = {a.arg for a in v.fi.params}
        for c in _calls_on(v, h, ("add_nodes",)):
            arg = _arg(c, 0, "node_list")
            txt = norm(arg) if arg is not None else ""
            names = {x.id for x in ast.walk(arg) if isinstance(x, ast.Name)} if arg is not None else set()
            ok = "self.get_nodes()" in txt or bool(names & (params - {"self"}))
            res.check(ok, "X-NODES", f, norm(c), "all-nodes", f"the extract receives `{txt}` as its node set instead of all nodes of the source: nodes that have hyperedges, but none in the selection, are lost", loc(v.fi, c))
        # (N) node metadata: every node-creating call is followed by a transfer loop over the extract's nodes (or over
        # the very collection that was added), and no node is created after the last transfer
        creators = _calls_on(v, h, ("add_node", "add_nodes", "add_edge", "add_edges"))
        if not node_loops:
            # metadata may be handed over at creation time: h.add_node(n, metadata=self.get_node_metadata(n)) is not an idiom of this code base
            res.violation("X-NMETA", f, f"for node in {h}.get_nodes(): {h}.set_node_metadata(node, self.get_node_metadata(node))", "transfer", "the nodes of the extract never receive the node metadata of the source", loc(v.fi, v.fi.node))
        loop_ids = {v.cfg.by_ast[id(l)] for l in node_loops}
        for c in creators:
            cid = v.cfg_id(c)
            if any(c in list(ast.walk(l)) for l in node_loops):
                continue
            covered = True
            for r in rets:
                rid = v.cfg_id(r)
                if r.value.id == h and v.cfg.reachable(cid, rid) and v.cfg.reaches_without(cid, rid, loop_ids):
                    covered = False
            if not covered:
                # hyperedges inserted after the transfer are fine when the selection only admits hyperedges over already
                # present nodes: `if set(edge).issubset(set(nodes))`
                if c.func.attr in ("add_edge", "add_edges") and _under_subset_test(v, c):
                    res.ok("X-NMETA", f, norm(c), "subset-guarded", loc(v.fi, c))
                    continue
                res.violation("X-NMETA", f, norm(c), "after-transfer", "nodes are added to the extract after (or without) the node-metadata transfer: they keep empty metadata", loc(v.fi, c))
            else:
                res.ok("X-NMETA", f, norm(c), "before-transfer", loc(v.fi, c))


def _check_delegation(ctx, res: Result, v: FuncView) -> bool:
    """The function builds no container itself but returns `self.<other extractor>(...)`: the delegate carries the
    must-flow obligations; here the selection handed over must be the one requested (an `up_to` selection covers
    every order from 0 / every size from 1)."""
    f = v.fi.short
    dels = []
    for n in walk_no_nested(v.fi.node):
        if isinstance(n, ast.Return) and isinstance(n.value, ast.Call) and isinstance(n.value.func, ast.Attribute) and is_self_attr(n.value.func) and n.value.func.attr in ("subhypergraph_by_orders", "subhypergraph", "get_edges"):
            dels.append(n.value)
    if not dels:
        return False
    for c in dels:
        res.ok("X-DELEG", f, norm(c), "delegates", loc(v.fi, c))
        for kw in c.keywords:
            if kw.arg in ("orders", "sizes"):
                lo_want = 0 if kw.arg == "orders" else 1
                exprs = [kw.value]
                if isinstance(kw.value, ast.Name):
                    exprs = [m.value for m in walk_no_nested(v.fi.node) if isinstance(m, ast.Assign) and isinstance(m.targets[0], ast.Name) and m.targets[0].id == kw.value.id]
                for e in exprs:
                    for r in ast.walk(e):
                        if isinstance(r, ast.Call) and isinstance(r.func, ast.Name) and r.func.id == "range":
                            lo = r.args[0] if len(r.args) >= 2 else ast.Constant(0)
                            ok = isinstance(lo, ast.Constant) and lo.value == lo_want
                            res.check(ok, "X-DELEG", f, norm(r), f"{kw.arg}-from-{lo_want}", f"an `up_to` selection is delegated as {norm(r)}: {kw.arg} start at {lo_want}, so hyperedges of {'order 0' if lo_want == 0 else 'size 1'} are dropped from the extract", loc(v.fi, r))
    return True


def _under_subset_test(v: FuncView, node) -> bool:
    for i in v.enclosing_all(node, (ast.If,)):
        for x in ast.walk(i.test):
            if isinstance(x, ast.Call) and isinstance(x.func, ast.Attribute) and x.func.attr == "issubset":
                return True
    return False


def check_subset_orientation(ctx, res: Result, dotted: str):
    """`set(edge).issubset(set(nodes))`: the hyperedge is the subset, the requested node set the superset."""
    v = ctx.view(dotted)
    f = v.fi.short
    n_found = 0
    for n in walk_no_nested(v.fi.node):
        if isinstance(n, ast.Call) and isinstance(n.func, ast.Attribute) and n.func.attr in ("issubset", "issuperset") and n.args:
            n_found += 1
            recv_names = {x.id for x in ast.walk(n.func.value) if isinstance(x, ast.Name)}
            arg_names = {x.id for x in ast.walk(n.args[0]) if isinstance(x, ast.Name)}
            params = {a.arg for a in v.fi.params}
            edge_is_recv = not (recv_names & params)  # derived from the loop variable, not from the parameter
            nodes_is_arg = bool(arg_names & params)
            good = (edge_is_recv and nodes_is_arg) if n.func.attr == "issubset" else (not edge_is_recv)
            res.check(good, "X-SUBSET", f, norm(n), "orientation", "the induced sub-hypergraph keeps hyperedges that CONTAIN the node set instead of those contained in it", loc(v.fi, n))
    if n_found == 0:
        raise AnalysisError(f"{f}: no issubset test (anchor of X-SUBSET vanished or idiom unrecognised)")

"""Must-flow rules for functions that build a new container from `self` (C05): weights, hyperedge metadata,
node metadata and weightedness travel from the source to the extract on every path that returns it."""
from __future__ import annotations

import ast
from typing import List, Optional

from . import tables as T
from .kinds import META, WEIGHT, Lst, Obj, _Top, elem_of
from .model import AnalysisError, is_self_attr, loc, norm, walk_no_nested
from .report import Result
from .rules_container import _atoms, _implied_branch
from .tableops import FuncView


def _fresh_containers(v: FuncView):
    """name -> constructor Call, for `h = <ContainerClass>(...)` assignments."""
    out = {}
    for n in walk_no_nested(v.fi.node):
        if isinstance(n, ast.Assign) and len(n.targets) == 1 and isinstance(n.targets[0], ast.Name) and isinstance(n.value, ast.Call):
            k = v.kind(n.value)
            if isinstance(k, Obj) and k.cls in T.CONTAINERS and isinstance(n.value.func, ast.Name):
                out.setdefault(n.targets[0].id, []).append(n.value)
    return out


class _Softened:
    """Result proxy: a violation becomes `unknown` (used for builders whose inputs are parameters)"""

    def __init__(self, res):
        self._res = res

    def __getattr__(self, name):
        return getattr(self._res, name)

    def violation(self, rule, func, stmt, detail="", reason="", where="", **extra):
        return self._res.unknown(rule, func, stmt, detail, "(builder with parameters) " + reason, where, **extra)

    def check(self, cond, rule, func, stmt, detail="", reason="", where="", **extra):
        return self._res.add(rule, func, stmt, detail, "ok" if cond else "unknown", "" if cond else "(builder with parameters) " + reason, where, **extra)

    def add(self, rule, func, stmt, detail="", status="ok", reason="", where="", **extra):
        return self._res.add(rule, func, stmt, detail, "unknown" if status == "violation" else status, reason, where, **extra)


class Ev:
    """A method call on the extract: written in `view` (this function or a helper that was handed the extract), standing
    at `at` (a node of the analysed function: the call itself or the call of the helper)."""

    def __init__(self, call, view, hname, at):
        self.call, self.view, self.hname, self.at = call, view, hname, at

    @property
    def meth(self):
        return self.call.func.attr


def _param_for(callee, n: ast.Call, name: str):
    """name of the callee parameter that receives the caller's local `name` (passed as a plain name), else None"""
    names = [x.arg for x in callee.params]
    if callee.cls is not None and not callee.is_static and names and isinstance(n.func, ast.Attribute):
        names = names[1:]
    for i, a in enumerate(n.args):
        if isinstance(a, ast.Name) and a.id == name and i < len(names):
            return names[i]
    for kw in n.keywords:
        if kw.arg and isinstance(kw.value, ast.Name) and kw.value.id == name:
            return kw.arg
    return None


def _helpers_given(ctx, v: FuncView, name: str):
    """[(call node, callee view, parameter name)] for repo helpers that are handed the local object `name`"""
    out = []
    for n in walk_no_nested(v.fi.node):
        if isinstance(n, ast.Call) and not (isinstance(n.func, ast.Attribute) and isinstance(n.func.value, ast.Name) and n.func.value.id == name):
            for callee in ctx.callees(v.fi, n):
                if callee.qualname == v.fi.qualname:
                    continue
                p = _param_for(callee, n, name)
                if p is not None:
                    out.append((n, ctx.view(callee), p))
    return out


def _calls_on(ctx, v: FuncView, name: str, methods, depth: int = 0, at=None) -> List[Ev]:
    out = []
    for n in walk_no_nested(v.fi.node):
        if isinstance(n, ast.Call) and isinstance(n.func, ast.Attribute) and isinstance(n.func.value, ast.Name) and n.func.value.id == name and n.func.attr in methods:
            out.append(Ev(n, v, name, at if at is not None else n))
    if depth < 2:
        for n, cv, p in _helpers_given(ctx, v, name):
            out += _calls_on(ctx, cv, p, methods, depth + 1, at if at is not None else n)
    return out


def _is_flag(v: FuncView, e, names) -> bool:
    """`e` is the weightedness of the source (or of the extract, which was constructed with it)"""
    e = v.resolve(e)
    if is_self_attr(e, "_weighted"):
        return True
    return isinstance(e, ast.Call) and isinstance(e.func, ast.Attribute) and e.func.attr == "is_weighted" and isinstance(e.func.value, ast.Name) and e.func.value.id in set(names) | {"self"}


def _weighted_branch(v: FuncView, node, names) -> Optional[bool]:
    """True / False if `node` is only reached on a branch where the weighted flag (of self or of one of `names`) is
    known true / false, else None."""
    nid = v.cfg_id(node)
    for n in walk_no_nested(v.fi.node):
        if isinstance(n, ast.If):
            for atom, _ in _atoms(n.test, True):
                if _is_flag(v, atom, names):
                    for want in (True, False):
                        lab = _implied_branch(n.test, atom, want)
                        if lab and v.cfg.branch_dominated(v.cfg.by_ast[id(n.test)], lab, nid):
                            return want
    return None


def _arg(call: ast.Call, pos: int, kw: str):
    for k in call.keywords:
        if k.arg == kw:
            return k.value
    if len(call.args) > pos:
        return call.args[pos]
    return None


_UNDECIDED = object()


def _ctor_arg(ctx, v: FuncView, call: ast.Call, pos: int, kw: str):
    """The expression (of the calling function) that reaches constructor parameter `kw` when `call` builds the extract:
    the argument itself for `Hypergraph(...)`; for a factory (`_new_hypergraph(self._weighted)`) the factory's own
    constructor call is read and its parameters are replaced by the arguments of `call`."""
    from .model import ClassInfo, FunctionInfo

    tgt = ctx.prog.resolve_name(v.fi.module, call.func.id) if isinstance(call.func, ast.Name) else None
    if not isinstance(tgt, FunctionInfo):
        return _arg(call, pos, kw)
    gv = ctx.view(tgt)
    ctors = []
    for r in walk_no_nested(tgt.node):
        if isinstance(r, ast.Return) and r.value is not None:
            e = gv.resolve(r.value) if isinstance(r.value, ast.Name) else r.value
            if isinstance(e, ast.Call) and isinstance(e.func, ast.Name) and e.func.id in T.CONTAINERS:
                ctors.append(e)
            else:
                return _UNDECIDED
    if len(ctors) != 1:
        return _UNDECIDED
    inner = _arg(ctors[0], pos, kw)
    if inner is None or isinstance(inner, ast.Constant):
        return inner
    pn = [a.arg for a in tgt.params]
    if isinstance(inner, ast.Name) and inner.id in pn:
        for k in call.keywords:
            if k.arg == inner.id:
                return k.value
        i = pn.index(inner.id)
        if i < len(call.args) and not any(isinstance(a, ast.Starred) for a in call.args[: i + 1]):
            return call.args[i]
        d = tgt.defaults().get(inner.id)
        return d if d is not None else _UNDECIDED
    return _UNDECIDED


def _is_getter_of(v: FuncView, e, getter: str, arg: str) -> bool:
    """`e` is `self.<getter>(<arg>)`, possibly through a bound-method alias (`meta_of = self.get_edge_metadata`)"""
    if not isinstance(e, ast.Call) or not e.args:
        return False
    fn = v.resolve(e.func) if isinstance(e.func, ast.Name) else e.func
    return isinstance(fn, ast.Attribute) and fn.attr == getter and is_self_attr(fn) and isinstance(e.args[0], ast.Name) and e.args[0].id == arg


def _local_transfer_loops(v: FuncView, h: str, setter: str, getter: str):
    """`for X in ITER: h.<setter>(X, self.<getter>(X))` loops, also with the values collected first:
    `D = {X: self.<getter>(X) for X in ITER}; for X, M in D.items(): h.<setter>(X, M)`."""
    out = []
    # a higher-order transfer: `transfer(self.<getter>, h.<setter>, keys)` / `consume(starmap(h.<setter>, annotate(self.<getter>, keys)))`
    # - one statement that is handed the source's getter and the extract's setter as VALUES
    for n in walk_no_nested(v.fi.node):
        if isinstance(n, ast.Expr) and isinstance(n.value, ast.Call):
            vals = [x for x in ast.walk(n.value) if isinstance(x, ast.Attribute) and isinstance(x.ctx, ast.Load) and not (isinstance(v.parent.get(id(x)), ast.Call) and v.parent.get(id(x)).func is x)]
            if any(is_self_attr(x) and x.attr == getter for x in vals) and any(isinstance(x.value, ast.Name) and x.value.id == h and x.attr == setter for x in vals):
                out.append(n.value)
    for n in walk_no_nested(v.fi.node):
        if not isinstance(n, ast.For):
            continue
        calls = [c for c in ast.walk(n) if isinstance(c, ast.Call) and isinstance(c.func, ast.Attribute) and c.func.attr == setter and isinstance(c.func.value, ast.Name) and c.func.value.id == h and len(c.args) >= 2]
        for c in calls:
            a0, a1 = c.args[0], c.args[1]
            if not isinstance(a0, ast.Name):
                continue
            if isinstance(n.target, ast.Name) and a0.id == n.target.id and _is_getter_of(v, v.inline(a1, depth=1) if isinstance(a1, ast.Name) else a1, getter, a0.id):
                out.append(n)
            elif isinstance(n.target, ast.Tuple) and len(n.target.elts) == 2 and all(isinstance(t, ast.Name) for t in n.target.elts) and a0.id == n.target.elts[0].id and isinstance(a1, ast.Name) and a1.id == n.target.elts[1].id:
                it = n.iter
                if isinstance(it, ast.Call) and isinstance(it.func, ast.Name) and it.func.id == "zip" and len(it.args) == 2:
                    # M = [self.<getter>(X) for X in A]; for X, m in zip(A, M): h.<setter>(X, m)
                    lst = v.resolve(it.args[1]) if isinstance(it.args[1], ast.Name) else it.args[1]
                    if isinstance(lst, ast.ListComp) and len(lst.generators) == 1 and not lst.generators[0].ifs and isinstance(lst.generators[0].target, ast.Name) and norm(lst.generators[0].iter) == norm(it.args[0]) and _is_getter_of(v, lst.elt, getter, lst.generators[0].target.id):
                        out.append(n)
                    # for X, m in zip(A, map(self.<getter>, A)): h.<setter>(X, m)
                    if isinstance(lst, ast.Call) and isinstance(lst.func, ast.Name) and lst.func.id == "map" and len(lst.args) == 2 and is_self_attr(lst.args[0]) and lst.args[0].attr == getter and norm(lst.args[1]) == norm(it.args[0]):
                        out.append(n)
                # pairs produced by a helper that was handed the source's metadata table:
                # `for node, md in _node_metadata_items(self._adj, self._node_metadata, h.get_nodes()): h.set_node_metadata(node, md)`
                want_tab = "_node_metadata" if "node" in getter else "_edge_metadata"
                if isinstance(it, ast.Call) and not (isinstance(it.func, ast.Attribute) and it.func.attr == "items") and any(is_self_attr(a_, want_tab) for a_ in list(it.args) + [k.value for k in it.keywords]):
                    out.append(n)
                # pairs collected first: `P = [(X, self.<getter>(X)) for X in ITER]; for X, M in P: h.<setter>(X, M)`
                lstp = v.resolve(it) if isinstance(it, ast.Name) else it
                if isinstance(lstp, (ast.ListComp, ast.GeneratorExp)) and len(lstp.generators) == 1 and not lstp.generators[0].ifs and isinstance(lstp.generators[0].target, ast.Name) and isinstance(lstp.elt, ast.Tuple) and len(lstp.elt.elts) == 2 and isinstance(lstp.elt.elts[0], ast.Name) and lstp.elt.elts[0].id == lstp.generators[0].target.id and _is_getter_of(v, lstp.elt.elts[1], getter, lstp.generators[0].target.id):
                    out.append(n)
                if isinstance(it, ast.Call) and isinstance(it.func, ast.Attribute) and it.func.attr == "items" and not it.args:
                    d = v.resolve(it.func.value) if isinstance(it.func.value, ast.Name) else it.func.value
                    if isinstance(d, ast.DictComp) and len(d.generators) == 1 and isinstance(d.generators[0].target, ast.Name) and isinstance(d.key, ast.Name) and d.key.id == d.generators[0].target.id and _is_getter_of(v, d.value, getter, d.key.id):
                        out.append(n)
    return out


def _transfer_loops(ctx, v: FuncView, h: str, setter: str, getter: str, depth: int = 0):
    """transfer loops of this function, and calls of helpers (handed the extract) that contain one: each a node of v"""
    out = list(_local_transfer_loops(v, h, setter, getter))
    if depth < 2:
        for n, cv, p in _helpers_given(ctx, v, h):
            # the helper must transfer from the same source object: it is a method called on self
            if isinstance(n.func, ast.Attribute) and isinstance(n.func.value, ast.Name) and n.func.value.id == "self" and _transfer_loops(ctx, cv, p, setter, getter, depth + 1):
                out.append(n)
    return out


def check_extraction(ctx, res: Result, dotted, _seen=None, delegated: bool = False):
    v = ctx.view(dotted)
    f = v.fi.short
    _seen = _seen if _seen is not None else set()
    if v.fi.qualname in _seen:
        return
    _seen.add(v.fi.qualname)
    if delegated:
        # a private builder that is handed the data to put into the extract (nodes, hyperedges, weights, metadata as
        # parameters): what it is handed is the caller's business; nothing that is "missing" here is definite
        res = _Softened(res)
    fresh = _fresh_containers(v)
    # the must-flow rules read the construction of the extract off the public API calls made on it (add_node / add_edge /
    # set_*_metadata).  A builder that writes the extract's private tables itself (`h._node_metadata[n] = ...`) is outside that
    # reading: what it "never does" through the API says nothing
    if any(isinstance(x, ast.Attribute) and isinstance(x.value, ast.Name) and x.value.id in fresh and x.attr.startswith("_") and not x.attr.startswith("__") for x in walk_no_nested(v.fi.node)):
        res = _Softened(res)
    rets = [n for n in walk_no_nested(v.fi.node) if isinstance(n, ast.Return) and isinstance(n.value, ast.Name) and n.value.id in fresh]
    delegated = _check_delegation(ctx, res, v, _seen)
    if not fresh or not rets:
        if delegated:
            return
        raise AnalysisError(f"{f}: no fresh container is built and returned (anchor of the must-flow rules vanished)")
    for h, ctors in fresh.items():
        if not any(r.value.id == h for r in rets):
            continue
        # (F) same weightedness
        for c in ctors:
            w = _ctor_arg(ctx, v, c, 1, "weighted")
            if w is _UNDECIDED:
                res.unknown("X-FLAG", f, norm(c), "weighted", "the extract comes from a factory whose constructor call was not recognised", loc(v.fi, c))
            elif w is None:
                res.violation("X-FLAG", f, norm(c), "weighted", "the extract is constructed without the source's weightedness (defaults to unweighted)", loc(v.fi, c))
            elif _is_flag(v, w, ()):
                res.ok("X-FLAG", f, norm(c), "weighted", loc(v.fi, c))
            elif isinstance(v.resolve(w), ast.Constant):
                res.violation("X-FLAG", f, norm(c), "weighted", "the extract is constructed with a constant weightedness instead of the source's", loc(v.fi, c))
            else:
                res.unknown("X-FLAG", f, norm(c), "weighted", f"weighted={norm(w)}: not recognised as the source's weightedness", loc(v.fi, c))
        adds = _calls_on(ctx, v, h, ("add_edge", "add_edges"))
        if not adds:
            if _helpers_given(ctx, v, h):
                res.unknown("X-WEIGHT", f, f"{h}.add_edge(...)", "insert", "no insertion of hyperedges into the extract was found; it is handed to helpers", loc(v.fi, v.fi.node))
            else:
                res.violation("X-WEIGHT", f, f"{h}.add_edge(...)", "insert", "the extract never receives hyperedges", loc(v.fi, v.fi.node))
        edge_loops = _transfer_loops(ctx, v, h, "set_edge_metadata", "get_edge_metadata")
        node_loops = _transfer_loops(ctx, v, h, "set_node_metadata", "get_node_metadata")
        for ev in adds:
            c, cv = ev.call, ev.view
            batch = ev.meth == "add_edges"
            # (W) weights
            warg = _arg(c, 1, "weights" if batch else "weight")
            wb = _weighted_branch(cv, c, [ev.hname])
            if wb is None and cv is not v:
                wb = _weighted_branch(v, ev.at, [h])
            if warg is None:
                res.check(wb is False, "X-WEIGHT", cv.fi.short, norm(c), "weight", "hyperedges are inserted into the extract without their weights although the source may be weighted", loc(cv.fi, c))
            else:
                k = cv.kind(warg)
                ek = elem_of(k) if batch else k
                from .kinds import fits, Mismatch, strip_none

                vv = fits(strip_none(ek), WEIGHT)
                res.add("X-WEIGHT", cv.fi.short, norm(c), "weight", "violation" if isinstance(vv, Mismatch) else ("ok" if not isinstance(ek, _Top) else "unknown"), getattr(vv, "reason", ""), loc(cv.fi, c))
            # (M) hyperedge metadata
            marg = _arg(c, 2, "metadata")
            if marg is None:
                local_loops = edge_loops if cv is v else _transfer_loops(ctx, cv, ev.hname, "set_edge_metadata", "get_edge_metadata")
                ok = _followed_by(cv, c, local_loops, ev.hname if cv is not v else h, rets if cv is v else None)
                if not ok and cv is not v:
                    ok = _followed_by(v, ev.at, edge_loops, h, rets)
                res.check(ok, "X-EMETA", cv.fi.short, norm(c), "metadata", "hyperedges reach the extract without their metadata on some path (no metadata argument and no following set_edge_metadata transfer loop)", loc(cv.fi, c))
            else:
                k = cv.kind(marg)
                res.add("X-EMETA", cv.fi.short, norm(c), "metadata", "ok" if (k == META or (batch and elem_of(k) == META)) else "unknown", "", loc(cv.fi, c))
        # (S) documented node set: whole-node-set insertions take ALL nodes of the source (or the requested node list)
        for ev in _calls_on(ctx, v, h, ("add_nodes",)):
            c, cv = ev.call, ev.view
            params = {a.arg for a in cv.fi.params}
            arg = _arg(c, 0, "node_list")
            txt = norm(arg) if arg is not None else ""
            rarg = cv.resolve(arg) if arg is not None else None
            rtxt = norm(rarg) if rarg is not None else ""
            names = {x.id for x in ast.walk(rarg) if isinstance(x, ast.Name)} if rarg is not None else set()
            ok = "self.get_nodes()" in rtxt or "self._adj" in rtxt or "self._node_metadata" in rtxt or bool(names & (params - {"self"}))
            other_query = any(isinstance(x, ast.Call) and isinstance(x.func, ast.Attribute) and isinstance(x.func.value, ast.Name) and x.func.value.id == "self" and not x.func.attr.startswith("_") and x.func.attr != "get_nodes" for x in ast.walk(rarg)) if rarg is not None else False
            # a parameter counts as "the requested node list" only when it IS the node set; as an argument of another query of the
            # source (`self.isolated_nodes(size=size)`) it selects among the nodes
            if ok and other_query and not ("self.get_nodes()" in rtxt or "self._adj" in rtxt or "self._node_metadata" in rtxt):
                ok = False
            bad = not ok and (f"{ev.hname}." in rtxt or "edge" in rtxt.lower() or other_query)
            res.add("X-NODES", cv.fi.short, norm(c), "all-nodes", "ok" if ok else ("violation" if bad else "unknown"), "" if ok else f"the extract receives `{txt}` as its node set instead of all nodes of the source: nodes that have hyperedges, but none in the selection, are lost", loc(cv.fi, c))
        # (N) node metadata: every node-creating call is followed by a transfer loop over the extract's nodes (or over
        # the very collection that was added), and no node is created after the last transfer
        creators = _calls_on(ctx, v, h, ("add_node", "add_nodes", "add_edge", "add_edges"))
        # whole-node-set insertions that carry the source's node metadata along: h.add_nodes(all nodes, metadata=<of self>)
        meta_adds = set()
        for ev in creators:
            if ev.view is v and ev.meth in ("add_nodes",):
                m_ = _arg(ev.call, 1, "metadata")
                if m_ is not None and any(isinstance(x, ast.Name) and x.id == "self" for x in ast.walk(v.inline(m_))):
                    cid_ = v.cfg_id(ev.at)
                    if cid_ is not None:
                        meta_adds.add(cid_)
        if not node_loops and meta_adds:
            pass  # decided path by path below
        elif not node_loops:
            # metadata may be handed over at creation time: h.add_node(n, metadata=self.get_node_metadata(n)) is not an idiom of this code base
            if _helpers_given(ctx, v, h) or any("metadata" in [k.arg for k in ev.call.keywords] for ev in creators if ev.meth in ("add_node", "add_nodes")):
                res.unknown("X-NMETA", f, f"for node in {h}.get_nodes(): {h}.set_node_metadata(node, self.get_node_metadata(node))", "transfer", "no node-metadata transfer loop recognised", loc(v.fi, v.fi.node))
                continue
            res.violation("X-NMETA", f, f"for node in {h}.get_nodes(): {h}.set_node_metadata(node, self.get_node_metadata(node))", "transfer", "the nodes of the extract never receive the node metadata of the source", loc(v.fi, v.fi.node))
        loop_ids = {v.cfg_id(l) for l in node_loops}
        for ev in creators:
            c = ev.call
            cid = v.cfg_id(ev.at)
            if any(ev.at in list(ast.walk(l)) for l in node_loops):
                continue
            covered = True
            if cid in meta_adds:
                res.ok("X-NMETA", ev.view.fi.short, norm(c), "with-metadata", loc(ev.view.fi, c))
                continue
            for r in rets:
                rid = v.cfg_id(r)
                if r.value.id == h and v.cfg.reachable(cid, rid) and v.cfg.reaches_without(cid, rid, loop_ids - {cid}):
                    # no transfer afterwards: fine only when every path to this call went through an insertion of ALL nodes
                    # together with their metadata (then no node is new here)
                    if not meta_adds or v.cfg.reaches_without(v.cfg.entry, cid, meta_adds):
                        covered = False
            if cid in loop_ids and ev.view is not v:
                # created and transferred inside the same helper call: the helper's own order decides
                hl = _transfer_loops(ctx, ev.view, ev.hname, "set_node_metadata", "get_node_metadata")
                covered = covered or _followed_by(ev.view, c, hl, ev.hname, None)
            if not covered:
                # hyperedges inserted after the transfer are fine when the selection only admits hyperedges over already
                # present nodes: `if set(edge).issubset(set(nodes))`
                if ev.meth in ("add_edge", "add_edges") and (_under_subset_test(ev.view, c) or (ev.view is not v and _under_subset_test(v, ev.at))):
                    res.ok("X-NMETA", ev.view.fi.short, norm(c), "subset-guarded", loc(ev.view.fi, c))
                    continue
                # `if not is_induced_by(edge, allowed_nodes): continue` - the selection is a predicate helper that is handed the
                # requested node set: whether an admitted hyperedge can bring new nodes is the helper's business
                if ev.meth in ("add_edge", "add_edges"):
                    at_id = v.cfg_id(ev.at)
                    opaque_sel = False
                    for iff in walk_no_nested(v.fi.node):
                        if not isinstance(iff, ast.If):
                            continue
                        tid_ = v.cfg.by_ast.get(id(iff.test))
                        if tid_ is None or at_id is None or not any(v.cfg.branch_dominated(tid_, lab_, at_id) for lab_ in ("T", "F")):
                            continue
                        for x in ast.walk(iff.test):
                            if isinstance(x, ast.Call) and not is_self_attr(x.func) and ctx.callees(v.fi, x) and any(_param_derived(v, a_) for a_ in list(x.args) + [k.value for k in x.keywords]):
                                opaque_sel = True
                    if opaque_sel:
                        res.unknown("X-NMETA", ev.view.fi.short, norm(c), "after-transfer", "the inserted hyperedges are admitted by a predicate helper that receives the requested nodes; whether they can bring new nodes is not decided here", loc(ev.view.fi, c))
                        continue
                # the hyperedges come out of a helper that was handed the requested node list: the selection (and with it whether
                # a hyperedge can bring new nodes) is the helper's
                lp_ = ev.view.enclosing(c, (ast.For,))
                pn_ = {a_.arg for a_ in ev.view.fi.params} - {"self"}
                if lp_ is None and ev.view is not v:
                    # the insertion sits in a helper (`self._reinsert_edge(h, edge)`): the loop that selects is the extractor's
                    lp_ = v.enclosing(ev.at, (ast.For,))
                    pn_ = {a_.arg for a_ in v.fi.params} - {"self"}

                def _selection_helper(fn_):
                    # a function of the module, or a PRIVATE method of the source (`self._edges_within(nodes)`); the public queries
                    # (`self.get_edges(...)`) select by order / size, never by the requested nodes
                    return not is_self_attr(fn_) or fn_.attr.startswith("_")

                if ev.meth in ("add_edge", "add_edges") and lp_ is not None and isinstance(lp_.iter, ast.Call) and _selection_helper(lp_.iter.func) and any(isinstance(x, ast.Name) and x.id in pn_ for a_ in list(lp_.iter.args) + [k.value for k in lp_.iter.keywords] for x in ast.walk(a_)):
                    res.unknown("X-NMETA", ev.view.fi.short, norm(c), "after-transfer", "the inserted hyperedges are selected by a helper that receives the requested nodes; whether they can bring new nodes is not decided here", loc(ev.view.fi, c))
                    continue
                res.violation("X-NMETA", ev.view.fi.short, norm(c), "after-transfer", "nodes are added to the extract after (or without) the node-metadata transfer: they keep empty metadata", loc(ev.view.fi, c))
            else:
                res.ok("X-NMETA", ev.view.fi.short, norm(c), "before-transfer", loc(ev.view.fi, c))


def _followed_by(v: FuncView, node, loops, h: str, rets) -> bool:
    """every path from `node` to a return of the extract (or, in a helper, to the exit) meets one of `loops`"""
    ids = {v.cfg_id(l) for l in loops}
    if not ids:
        return False
    cid = v.cfg_id(node)
    if rets is None:
        return not v.cfg.reaches_without(cid, v.cfg.exit, ids - {cid}) or cid in ids
    return all(not v.cfg.reaches_without(cid, v.cfg_id(r), ids - {cid}) for r in rets if r.value.id == h and v.cfg.reachable(cid, v.cfg_id(r)))


def _check_delegation(ctx, res: Result, v: FuncView, _seen=None) -> bool:
    """The function builds no container itself but returns `self.<other extractor>(...)`: the delegate carries the
    must-flow obligations (a private helper is checked right here); the selection handed over must be the one requested
    (an `up_to` selection covers every order from 0 / every size from 1)."""
    f = v.fi.short
    dels = []
    for n in walk_no_nested(v.fi.node):
        if isinstance(n, ast.Return) and isinstance(n.value, ast.Call) and isinstance(n.value.func, ast.Attribute) and is_self_attr(n.value.func):
            if n.value.func.attr in ("subhypergraph_by_orders", "subhypergraph", "get_edges"):
                dels.append(n.value)
            else:
                for callee in ctx.callees(v.fi, n.value):
                    if callee.cls is not None and _fresh_containers(ctx.view(callee)):
                        res.ok("X-DELEG", f, norm(n.value), "delegates", loc(v.fi, n.value))
                        uses_params = any(isinstance(x, ast.Name) and x.id in {a.arg for a in callee.params} - {"self"} for x in ast.walk(callee.node))
                        check_extraction(ctx, res, callee, _seen, delegated=uses_params and len(callee.params) > 2)
                        dels.append(None)
    if not dels:
        return False
    for c in dels:
        if c is None:
            continue
        res.ok("X-DELEG", f, norm(c), "delegates", loc(v.fi, c))
        for kw in c.keywords:
            if kw.arg in ("orders", "sizes"):
                lo_want = 0 if kw.arg == "orders" else 1
                exprs = [kw.value]
                if isinstance(kw.value, ast.Name):
                    exprs = [m.value for m in walk_no_nested(v.fi.node) if isinstance(m, ast.Assign) and isinstance(m.targets[0], ast.Name) and m.targets[0].id == kw.value.id]
                for e in exprs:
                    for r in ast.walk(e):
                        if isinstance(r, ast.Call) and isinstance(r.func, ast.Name) and r.func.id == "range":
                            lo = r.args[0] if len(r.args) >= 2 else ast.Constant(0)
                            ok = isinstance(lo, ast.Constant) and lo.value == lo_want
                            res.check(ok, "X-DELEG", f, norm(r), f"{kw.arg}-from-{lo_want}", f"an `up_to` selection is delegated as {norm(r)}: {kw.arg} start at {lo_want}, so hyperedges of {'order 0' if lo_want == 0 else 'size 1'} are dropped from the extract", loc(v.fi, r))
    return True


def _is_subset_call(x) -> bool:
    return isinstance(x, ast.Call) and isinstance(x.func, ast.Attribute) and x.func.attr in ("issubset", "issuperset") and bool(x.args)


def _under_subset_test(v: FuncView, node) -> bool:
    """`node` is reached only through one branch of a test `<set>.issubset(...)` / `.issuperset(...)` (either the
    enclosing `if` or an earlier `if not ...: continue`); which branch is the business of X-SUBSET"""
    nid = v.cfg_id(node)
    # a batch insertion of a list that was filled under the test: `if not set(e) <= wanted: continue; inside.append(e)`
    if isinstance(node, ast.Call) and isinstance(node.func, ast.Attribute) and node.func.attr == "add_edges" and node.args and isinstance(node.args[0], ast.Name):
        lst = node.args[0].id
        fills = [c for c in walk_no_nested(v.fi.node) if isinstance(c, ast.Call) and isinstance(c.func, ast.Attribute) and c.func.attr == "append" and isinstance(c.func.value, ast.Name) and c.func.value.id == lst]
        if fills and all(_under_subset_test(v, c) for c in fills):
            return True
        d = v.resolve(node.args[0])
        if isinstance(d, ast.ListComp) and any(_is_subset_call(x) or (isinstance(x, ast.Compare) and isinstance(x.ops[0], (ast.LtE, ast.GtE))) for g in d.generators for i in g.ifs for x in ast.walk(i)):
            return True
    # the loop that drives the insertion ranges over a pre-selected collection: `for e in filter(set(nodes).issuperset, edges)`,
    # `for e in [e for e in edges if set(e) <= wanted]`
    for lp in v.enclosing_all(node, (ast.For,)):
        it = v.inline(lp.iter)
        if isinstance(it, ast.Call) and norm(it.func) == "filter" and it.args:
            pred = it.args[0]
            if (isinstance(pred, ast.Attribute) and pred.attr in ("issubset", "issuperset")) or any(_is_subset_call(x) for x in ast.walk(pred)):
                return True
        if isinstance(it, (ast.ListComp, ast.GeneratorExp, ast.SetComp)) and any(_is_subset_call(x) or (isinstance(x, ast.Compare) and isinstance(x.ops[0], (ast.LtE, ast.GtE))) for g in it.generators for i_ in g.ifs for x in ast.walk(i_)):
            return True
    for i in walk_no_nested(v.fi.node):
        if isinstance(i, ast.If) and any(_is_subset_call(x) or (isinstance(x, ast.Compare) and len(x.ops) == 1 and isinstance(x.ops[0], (ast.LtE, ast.GtE, ast.Lt, ast.Gt)) and isinstance(v.kind(x.left), type(v.kind(x.comparators[0]))) and "SET" in repr(v.kind(x.left))) for x in ast.walk(i.test)):
            tid = v.cfg.by_ast.get(id(i.test))
            if tid is not None and (v.cfg.branch_dominated(tid, "T", nid) or v.cfg.branch_dominated(tid, "F", nid)):
                return True
    return False


def _param_derived(v: FuncView, e, depth: int = 0) -> bool:
    """`e` mentions a parameter of the function (other than self), possibly through single-assignment locals"""
    params = {a.arg for a in v.fi.params} - {"self"}
    for x in ast.walk(e):
        if isinstance(x, ast.Name):
            if x.id in params:
                return True
            r = v.resolve(x)
            if r is not x and depth < 4 and _param_derived(v, r, depth + 1):
                return True
    return False


def _subset_tests(v: FuncView):
    """[(node, subset expr, superset expr)] for `A.issubset(B)`, `B.issuperset(A)`, `A <= B`, `B >= A` on sets"""
    from .kinds import St

    out = []
    for n in walk_no_nested(v.fi.node):
        if _is_subset_call(n):
            a, b = n.func.value, n.args[0]
            out.append((n, a, b) if n.func.attr == "issubset" else (n, b, a))
        elif isinstance(n, ast.Compare) and len(n.ops) == 1 and isinstance(n.ops[0], (ast.LtE, ast.GtE)):
            l, r = n.left, n.comparators[0]
            if isinstance(v.kind(l), St) or isinstance(v.kind(r), St) or (isinstance(l, ast.Call) and norm(l.func) in ("set", "frozenset")) or (isinstance(r, ast.Call) and norm(r.func) in ("set", "frozenset")):
                out.append((n, l, r) if isinstance(n.ops[0], ast.LtE) else (n, r, l))
    return out


def check_subset_orientation(ctx, res: Result, dotted: str):
    """`set(edge).issubset(set(nodes))`: the hyperedge is the subset, the requested node set the superset."""
    v = ctx.view(dotted)
    f = v.fi.short
    tests = _subset_tests(v)
    for n, sub, sup in tests:
        sub_nodes = _param_derived(v, sub)  # the requested node set comes from the parameter,
        sup_nodes = _param_derived(v, sup)  # the hyperedge from the loop over the source's hyperedges
        if sub_nodes == sup_nodes:
            res.unknown("X-SUBSET", f, norm(n), "orientation", "could not tell the hyperedge from the requested node set", loc(v.fi, n))
            continue
        # sub-hypergraph induced by the node set: hyperedge <= node set
        good = sup_nodes and not sub_nodes
        # the positive outcome of the test must be the one that keeps the hyperedge
        pol = _keeps_on(v, n)
        if pol is None:
            res.add("X-SUBSET", f, norm(n), "orientation", "ok" if good else "violation", "" if good else "the induced sub-hypergraph keeps hyperedges that CONTAIN the node set instead of those contained in it", loc(v.fi, n))
        else:
            res.check(good == pol, "X-SUBSET", f, norm(n), "orientation", "the induced sub-hypergraph keeps hyperedges that CONTAIN the node set instead of those contained in it" if pol else "the induced sub-hypergraph keeps exactly the hyperedges that are NOT contained in the node set", loc(v.fi, n))
    if not tests:
        raise AnalysisError(f"{f}: no subset test (anchor of X-SUBSET vanished or idiom unrecognised)")


def _keeps_on(v: FuncView, test_call) -> Optional[bool]:
    """True when the insertion into the extract happens on the branch where `test_call` is true, False when on the
    branch where it is false, None when this cannot be told."""
    for i in walk_no_nested(v.fi.node):
        if isinstance(i, ast.If) and any(x is test_call for x in ast.walk(i.test)):
            tid = v.cfg.by_ast.get(id(i.test))
            adds = [c for c in walk_no_nested(v.fi.node) if isinstance(c, ast.Call) and isinstance(c.func, ast.Attribute) and c.func.attr in ("add_edge", "add_edges", "append")]
            for want in (True, False):
                lab = _implied_branch(i.test, test_call, want)
                if lab and any(v.cfg.branch_dominated(tid, lab, v.cfg_id(c)) for c in adds):
                    return want
    return None


def check_nodes_before_return(ctx, res: Result, dotted, rule="X-NODES"):
    """A sub-hypergraph whose node set depends on a flag (`keep_isolated_nodes`): no path hands the extract back before
    the flag was consulted (an early `return h` for an empty selection would drop the nodes the flag asks to keep)."""
    v = ctx.view(dotted)
    f = v.fi.short
    params = {a.arg for a in v.fi.params} | {a.arg for a in v.fi.node.args.kwonlyargs}
    found = 0
    for c in walk_no_nested(v.fi.node):
        if not (isinstance(c, ast.Call) and isinstance(c.func, ast.Attribute) and c.func.attr in ("add_nodes", "add_node") and isinstance(c.func.value, ast.Name)):
            continue
        h = c.func.value.id
        flag_tests = []
        for i_ in v.enclosing_all(c, (ast.If,)):
            t = v.inline(i_.test)
            names = {x.id for x in ast.walk(t) if isinstance(x, ast.Name)}
            if names & params and any("isolated" in n_ or "keep" in n_ or "nodes" in n_ for n_ in names & params):
                flag_tests.append(i_)
        if not flag_tests:
            continue
        tids = {v.cfg.by_ast[id(i_.test)] for i_ in flag_tests if id(i_.test) in v.cfg.by_ast}
        # the construction of the extract: returns of `h` after it
        ctor = [d for d in walk_no_nested(v.fi.node) if isinstance(d, ast.Assign) and any(isinstance(t_, ast.Name) and t_.id == h for t_ in d.targets) and isinstance(d.value, ast.Call)]
        for r in walk_no_nested(v.fi.node):
            if isinstance(r, ast.Return) and isinstance(r.value, ast.Name) and r.value.id == h:
                rid = v.cfg_id(r)
                starts = [v.cfg_id(d) for d in ctor if v.cfg_id(d) is not None and v.cfg.reachable(v.cfg_id(d), rid)]
                if not starts or not tids:
                    continue
                found += 1
                early = v.cfg.reaches_without(v.cfg.entry, rid, tids)
                res.add(rule, f, norm(r), "nodes-decided-before-return", "violation" if early else "ok", "the extract is handed back on a path that never consulted the keep-nodes flag (an early return for an empty selection): the nodes the flag asks to keep are missing, per-order matrices lose their rows" if early else "", loc(v.fi, r))
    if not found:
        res.ok(rule, f, "no flag-dependent node set", "nodes-decided-before-return", loc(v.fi, v.fi.node))

"""Program model: modules, classes, functions, imports of /repo/hypergraphx (parsed, never imported)."""
from __future__ import annotations

import ast
import hashlib
import os
import warnings
from dataclasses import dataclass, field
from typing import Dict, List, Optional, Tuple

from .canon import canonicalise

PKG = "hypergraphx"


class AnalysisError(Exception):
    """The analysis itself cannot proceed (anchor vanished, idiom unrecognised, floor not met)."""


@dataclass
class FunctionInfo:
    qualname: str  # e.g. hypergraphx.core.hypergraph.Hypergraph.add_edge
    name: str
    node: ast.AST  # FunctionDef | Lambda
    module: "ModuleInfo"
    cls: Optional["ClassInfo"] = None
    parent: Optional["FunctionInfo"] = None  # enclosing function for nested defs
    nested: Dict[str, "FunctionInfo"] = field(default_factory=dict)
    decorators: Tuple[str, ...] = ()

    @property
    def short(self) -> str:
        """Class.method or module-tail.function, used in reports."""
        if self.cls is not None and self.parent is None:
            return f"{self.cls.name}.{self.name}"
        tail = self.qualname[len(self.module.name) + 1 :]
        return f"{self.module.name.split('.')[-1]}.{tail}"

    @property
    def params(self) -> List[ast.arg]:
        a = self.node.args
        return list(a.posonlyargs) + list(a.args)

    TRANSPARENT_DECORATORS = frozenset({"staticmethod", "classmethod", "property", "wraps", "lru_cache", "cache", "cached_property", "abstractmethod", "overload", "singledispatch", "singledispatchmethod", "register", "setter", "getter", "deleter", "contextmanager", "dataclass", "total_ordering", "final", "override", "njit", "jit"})

    @property
    def rewrapped(self) -> bool:
        """decorated by something that may validate, convert or re-bind the arguments before the body runs (a repository
        decorator): what the body sees in its parameters is then not what the caller passed"""
        return any(d not in self.TRANSPARENT_DECORATORS for d in self.decorators)

    @property
    def is_static(self) -> bool:
        return "staticmethod" in self.decorators

    @property
    def is_property(self) -> bool:
        return "property" in self.decorators

    def param_names(self, drop_self=True) -> List[str]:
        names = [a.arg for a in self.params]
        if drop_self and self.cls is not None and not self.is_static and self.parent is None and names:
            names = names[1:]
        return names

    def defaults(self) -> Dict[str, ast.expr]:
        a = self.node.args
        pos = list(a.posonlyargs) + list(a.args)
        out = {}
        for arg, d in zip(pos[len(pos) - len(a.defaults) :], a.defaults):
            out[arg.arg] = d
        for arg, d in zip(a.kwonlyargs, a.kw_defaults):
            if d is not None:
                out[arg.arg] = d
        return out


@dataclass
class ClassInfo:
    name: str
    qualname: str
    node: ast.ClassDef
    module: "ModuleInfo"
    methods: Dict[str, FunctionInfo] = field(default_factory=dict)
    bases: Tuple[str, ...] = ()
    base_nodes: List[ast.ClassDef] = field(default_factory=list)  # class statements of the repository bases (mixins)

    def init_attrs(self) -> Dict[str, ast.expr]:
        """self.X = <expr> assignments directly in __init__ (first assignment wins)."""
        out: Dict[str, ast.expr] = {}
        init = self.methods.get("__init__")
        if init is None:
            return out
        for st in ast.walk(init.node):
            if isinstance(st, (ast.Assign, ast.AnnAssign)):
                targets = st.targets if isinstance(st, ast.Assign) else [st.target]
                for t in targets:
                    if (
                        isinstance(t, ast.Attribute)
                        and isinstance(t.value, ast.Name)
                        and t.value.id == "self"
                        and t.attr not in out
                        and st.value is not None
                    ):
                        out[t.attr] = st.value
        return out

    def all_self_attrs(self) -> set:
        """Every attribute name assigned through self.X anywhere in the class, plus methods / class vars."""
        names = set(self.methods)
        for cnode in [self.node] + list(self.base_nodes):
            for st in cnode.body:
                if isinstance(st, ast.Assign):
                    for t in st.targets:
                        if isinstance(t, ast.Name):
                            names.add(t.id)
                elif isinstance(st, ast.AnnAssign) and isinstance(st.target, ast.Name):
                    names.add(st.target.id)
                elif isinstance(st, (ast.FunctionDef, ast.AsyncFunctionDef, ast.ClassDef)):
                    names.add(st.name)
            for n in ast.walk(cnode):
                if isinstance(n, ast.Attribute) and isinstance(n.ctx, ast.Store):
                    if isinstance(n.value, ast.Name) and n.value.id == "self":
                        names.add(n.attr)
        return names


@dataclass
class ModuleInfo:
    name: str
    path: str
    relpath: str
    src: str
    tree: ast.Module
    functions: Dict[str, FunctionInfo] = field(default_factory=dict)
    classes: Dict[str, ClassInfo] = field(default_factory=dict)
    # local name -> ("module", modname) | ("symbol", modname, symbol)
    imports: Dict[str, tuple] = field(default_factory=dict)
    star_imports: List[str] = field(default_factory=list)


class Program:
    def __init__(self, repo: str, overrides: Optional[Dict[str, str]] = None):
        """`overrides` maps a repo-relative path to replacement source text (used by the self-test to analyse a
        mutated variant in memory; the files on disk are never touched)."""
        self.overrides = overrides or {}
        self.repo = os.path.abspath(repo)
        self.pkg_dir = os.path.join(self.repo, PKG)
        if not os.path.isdir(self.pkg_dir):
            raise AnalysisError(f"package directory not found: {self.pkg_dir}")
        self.modules: Dict[str, ModuleInfo] = {}
        self.functions: Dict[str, FunctionInfo] = {}
        self.classes: Dict[str, ClassInfo] = {}
        self._load()
        self._flatten_inheritance()
        self._resolve_cache: Dict[Tuple[str, str], object] = {}

    # ------------------------------------------------------------------ loading
    def _load(self):
        for root, dirs, files in os.walk(self.pkg_dir):
            dirs[:] = sorted(d for d in dirs if d != "__pycache__")
            for f in sorted(files):
                if not f.endswith(".py"):
                    continue
                path = os.path.join(root, f)
                rel = os.path.relpath(path, self.repo)
                modname = rel[:-3].replace(os.sep, ".")
                if modname.endswith(".__init__"):
                    modname = modname[: -len(".__init__")]
                if rel in self.overrides:
                    src = self.overrides[rel]
                else:
                    with open(path, encoding="utf-8") as fh:
                        src = fh.read()
                try:
                    with warnings.catch_warnings():
                        warnings.simplefilter("ignore")
                        with warnings.catch_warnings():
                            warnings.simplefilter("ignore")
                            tree = ast.parse(src, filename=path)
                except SyntaxError as e:
                    raise AnalysisError(f"cannot parse {rel}: {e}")
                tree = canonicalise(tree)
                m = ModuleInfo(modname, path, rel, src, tree)
                self.modules[modname] = m
                self._index_module(m)
        # files that exist only in the overrides (a variant that adds a module)
        for rel, src in sorted(self.overrides.items()):
            modname = rel[:-3].replace("/", ".") if rel.endswith(".py") else None
            if modname is None or not rel.startswith(PKG + "/"):
                continue
            if modname.endswith(".__init__"):
                modname = modname[: -len(".__init__")]
            if modname in self.modules:
                continue
            try:
                with warnings.catch_warnings():
                    warnings.simplefilter("ignore")
                    tree = ast.parse(src, filename=rel)
            except SyntaxError as e:
                raise AnalysisError(f"cannot parse {rel}: {e}")
            tree = canonicalise(tree)
            m = ModuleInfo(modname, os.path.join(self.repo, rel), rel, src, tree)
            self.modules[modname] = m
            self._index_module(m)

    def _flatten_inheritance(self):
        """A repo class that inherits from repo classes (mixins that hold groups of its methods) is analysed with the
        inherited methods as its own: each inherited method is re-registered under the subclass (same AST node, the subclass as
        owner), following the method resolution order left to right, depth first."""
        by_name: Dict[str, List[ClassInfo]] = {}
        for c in self.classes.values():
            by_name.setdefault(c.name, []).append(c)

        def bases_of(c: ClassInfo, seen):
            out = []
            for b in c.bases:
                nm = b.split(".")[-1]
                cands = by_name.get(nm, [])
                if len(cands) == 1 and cands[0].qualname not in seen:
                    seen.add(cands[0].qualname)
                    out.append(cands[0])
                    out += bases_of(cands[0], seen)
            return out

        for c in list(self.classes.values()):
            for b in bases_of(c, {c.qualname}):
                c.base_nodes.append(b.node)
                for name, fi in list(b.methods.items()):
                    if name in c.methods or fi.cls is not b:
                        continue
                    q = f"{c.qualname}.{name}"
                    if q in self.functions:
                        continue
                    clone = self._mk_function(fi.module, fi.node, q, c, None)
                    c.methods[name] = clone

    def _index_module(self, m: ModuleInfo):
        for st in m.tree.body:
            self._index_stmt(m, st)
        # imports anywhere at module level or inside functions are recorded per module (function-local
        # imports are resolved by the same table; names do not clash in this package - verified by
        # checking that a local import never rebinds a module-level name to something else)
        for n in ast.walk(m.tree):
            if isinstance(n, ast.Import):
                for a in n.names:
                    local = a.asname or a.name.split(".")[0]
                    target = a.name if a.asname else a.name.split(".")[0]
                    m.imports.setdefault(local, ("module", target))
            elif isinstance(n, ast.ImportFrom):
                base = n.module or ""
                if n.level:
                    parts = m.name.split(".")
                    if not m.path.endswith("__init__.py"):
                        parts = parts[:-1]
                    if n.level > 1:
                        parts = parts[: len(parts) - (n.level - 1)]
                    base = ".".join(parts + ([n.module] if n.module else []))
                for a in n.names:
                    if a.name == "*":
                        m.star_imports.append(base)
                    else:
                        m.imports.setdefault(a.asname or a.name, ("symbol", base, a.name))

    def _index_stmt(self, m: ModuleInfo, st: ast.stmt):
        if isinstance(st, (ast.FunctionDef, ast.AsyncFunctionDef)):
            fi = self._mk_function(m, st, f"{m.name}.{st.name}", None, None)
            m.functions[st.name] = fi
        elif isinstance(st, ast.ClassDef):
            ci = ClassInfo(
                st.name,
                f"{m.name}.{st.name}",
                st,
                m,
                bases=tuple(ast.unparse(b) for b in st.bases),
            )
            m.classes[st.name] = ci
            self.classes[ci.qualname] = ci
            for sub in st.body:
                if isinstance(sub, (ast.FunctionDef, ast.AsyncFunctionDef)):
                    fi = self._mk_function(m, sub, f"{ci.qualname}.{sub.name}", ci, None)
                    ci.methods[sub.name] = fi

    def _mk_function(self, m, node, qualname, cls, parent) -> FunctionInfo:
        decos = tuple(ast.unparse(d).split("(")[0].split(".")[-1] for d in node.decorator_list)
        fi = FunctionInfo(qualname, node.name, node, m, cls, parent, decorators=decos)
        self.functions[qualname] = fi
        for sub in self._direct_nested_defs(node):
            nf = self._mk_function(m, sub, f"{qualname}.<locals>.{sub.name}", cls, fi)
            fi.nested[sub.name] = nf
        return fi

    @staticmethod
    def _direct_nested_defs(fn):
        out = []

        def walk(stmts):
            for s in stmts:
                if isinstance(s, (ast.FunctionDef, ast.AsyncFunctionDef)):
                    out.append(s)
                    continue
                if isinstance(s, ast.ClassDef):
                    continue
                for fld in ("body", "orelse", "finalbody"):
                    sub = getattr(s, fld, None)
                    if isinstance(sub, list):
                        walk(sub)
                if isinstance(s, ast.Try):
                    for h in s.handlers:
                        walk(h.body)

        walk(fn.body)
        return out

    # --------------------------------------------------------------- resolution
    def resolve_name(self, m: ModuleInfo, name: str, _depth=0):
        """Resolve a bare name used in module m to a FunctionInfo / ClassInfo / ("module", name) / None."""
        key = (m.name, name)
        if key in self._resolve_cache:
            return self._resolve_cache[key]
        res = self._resolve_name(m, name, _depth)
        self._resolve_cache[key] = res
        return res

    def _resolve_name(self, m, name, depth):
        if depth > 8:
            return None
        if name in m.functions:
            return m.functions[name]
        if name in m.classes:
            return m.classes[name]
        if name in m.imports:
            imp = m.imports[name]
            if imp[0] == "module":
                return ("module", imp[1])
            _, base, sym = imp
            # symbol may be a submodule
            if f"{base}.{sym}" in self.modules:
                return ("module", f"{base}.{sym}")
            if base in self.modules:
                return self._resolve_name(self.modules[base], sym, depth + 1)
            return ("external", f"{base}.{sym}")
        for base in m.star_imports:
            if base in self.modules:
                r = self._resolve_name(self.modules[base], name, depth + 1)
                if r is not None:
                    return r
            else:
                # star import from an external module (numpy etc.): unknown external symbol
                pass
        return None

    def resolve_attr_chain(self, m: ModuleInfo, node: ast.AST):
        """Resolve dotted access like pkg.mod.func or np.random.rand to a repo object or ('external', dotted)."""
        parts = []
        cur = node
        while isinstance(cur, ast.Attribute):
            parts.append(cur.attr)
            cur = cur.value
        if not isinstance(cur, ast.Name):
            return None
        parts.append(cur.id)
        parts.reverse()
        head = self.resolve_name(m, parts[0])
        if head is None:
            return None
        if isinstance(head, tuple) and head[0] in ("module", "external"):
            dotted = head[1]
            obj = head
            for p in parts[1:]:
                if obj[0] == "module" and obj[1] in self.modules:
                    r = self._resolve_name(self.modules[obj[1]], p, 0)
                    if r is None:
                        if f"{obj[1]}.{p}" in self.modules:
                            obj = ("module", f"{obj[1]}.{p}")
                            continue
                        return None
                    if isinstance(r, tuple):
                        obj = r
                        continue
                    return r if p == parts[-1] else None
                else:
                    dotted = obj[1] + "." + p
                    obj = ("external", dotted)
            return obj
        return head if len(parts) == 1 else None

    def cls(self, name: str) -> ClassInfo:
        """Look a repo class up by bare name (names are unique in this package; checked)."""
        hits = [c for c in self.classes.values() if c.name == name]
        if len(hits) != 1:
            raise AnalysisError(f"class {name!r}: expected exactly one definition, found {len(hits)}")
        return hits[0]

    def func(self, dotted: str) -> FunctionInfo:
        """Look up 'Class.method' or 'module_tail.function' (e.g. 'cc.connected_components')."""
        head, _, tail = dotted.partition(".")
        for c in self.classes.values():
            if c.name == head and tail in c.methods:
                return c.methods[tail]
        hits = [
            f
            for f in self.functions.values()
            if f.cls is None and f.parent is None and f.name == tail and f.module.name.split(".")[-1] == head
        ]
        if len(hits) == 1:
            return hits[0]
        # the module still offers the name, but as a re-export of a function that now lives elsewhere
        # (`from ._impl import degree` after a module was split)
        if not hits:
            for m in self.modules.values():
                if m.name.split(".")[-1] != head:
                    continue
                b = m.imports.get(tail)
                seen = 0
                while b is not None and b[0] == "symbol" and seen < 4:
                    seen += 1
                    src = self.modules.get(b[1]) or self.modules.get(b[1] + ".__init__")
                    cand = [f for f in self.functions.values() if f.cls is None and f.parent is None and f.name == b[2] and src is not None and f.module is src]
                    if len(cand) == 1:
                        return cand[0]
                    b = src.imports.get(b[2]) if src is not None else None
                for base in m.star_imports:
                    src = self.modules.get(base)
                    cand = [f for f in self.functions.values() if f.cls is None and f.parent is None and f.name == tail and src is not None and f.module is src]
                    if len(cand) == 1:
                        return cand[0]
        # nested: 'mod.outer.<locals>.inner'
        hits = [f for f in self.functions.values() if f.short == dotted]
        if len(hits) == 1:
            return hits[0]
        raise AnalysisError(f"anchor function {dotted!r} not found (or ambiguous: {len(hits)})")

    def has_func(self, dotted: str) -> bool:
        try:
            self.func(dotted)
            return True
        except AnalysisError:
            return False

    def digest(self) -> str:
        h = hashlib.sha256()
        for name in sorted(self.modules):
            h.update(name.encode())
            h.update(self.modules[name].src.encode())
        return h.hexdigest()[:16]

    def stats(self) -> dict:
        ncalls = sum(
            1 for m in self.modules.values() for n in ast.walk(m.tree) if isinstance(n, ast.Call)
        )
        return {
            "files": len(self.modules),
            "functions": len(self.functions),
            "classes": len(self.classes),
            "call_sites": ncalls,
            "source_digest": self.digest(),
        }


# ---------------------------------------------------------------------- helpers
def norm(node: ast.AST) -> str:
    """Normalised source text of a node (formatting- and comment-independent)."""
    try:
        return " ".join(ast.unparse(node).split())
    except Exception:  # pragma: no cover
        return f"<{type(node).__name__}>"


def loc(fi: FunctionInfo, node: ast.AST) -> str:
    return f"{fi.module.relpath}:{getattr(node, 'lineno', '?')}"


def is_self_attr(node: ast.AST, attr: Optional[str] = None) -> bool:
    return (
        isinstance(node, ast.Attribute)
        and isinstance(node.value, ast.Name)
        and node.value.id == "self"
        and (attr is None or node.attr == attr)
    )


def walk_no_nested(node: ast.AST):
    """ast.walk that does not descend into nested function / class definitions or lambdas."""
    todo = list(ast.iter_child_nodes(node))
    while todo:
        n = todo.pop()
        yield n
        if isinstance(n, (ast.FunctionDef, ast.AsyncFunctionDef, ast.ClassDef, ast.Lambda)):
            continue
        todo.extend(ast.iter_child_nodes(n))

"""Command line: python -m hgxverif check <ID> [--tier quick|thorough] [--repo PATH]

exit 0  every armed obligation discharged (or listed in known_findings.json -> KNOWN-FINDING lines)
exit 1  VIOLATION property=<id> replay=<path>   for each finding that is not a listed known finding
exit 2  ANALYSIS-ERROR ...                       the analysis could not be carried out (never a verdict)
"""
from __future__ import annotations

import argparse
import importlib
import json
import os
import sys
import time
import traceback

from .model import AnalysisError
from .report import VERIF_DIR, Result, load_floors, load_known, match_known, write_evidence, write_replay

PROPS = [f"C{i:02d}" for i in range(1, 21)]


def run_property(prop: str, repo: str, tier: str, evidence_dir=None, quiet=False):
    from .ctx import Ctx

    t0 = time.time()
    seed = int(os.environ.get("VERIF_SEED", "0") or 0)
    ctx = Ctx(repo, tier)
    mod = importlib.import_module(f"hgxverif.props.{prop.lower()}")
    res: Result = mod.run(ctx)
    res.dedupe()
    stats = ctx.stats()
    # positive control: a breaking in-memory variant of the repository must make its rule fire on this very run
    from . import selftest as ST

    res.controls.append(ST.positive_control(prop, repo))

    # floors: analysing far less than what was confirmed by hand is an analysis error, not a pass.  A single rule
    # without instances, or a control variant that no longer fires, is what a behaviour-preserving restructuring of the
    # code can legitimately cause: it is reported as an `unknown` obligation (and fails the run only under
    # HGXVERIF_STRICT=1, which the maintenance tools of /verif set when they run against the pinned tree).
    strict = os.environ.get("HGXVERIF_STRICT", "") == "1"
    floors = load_floors().get(prop, {})
    problems, soft = [], []
    by_rule = res.by_rule()
    total = len(res.obs)
    fl = floors.get("obligations", 1)  # a quarter of what the reference tree gives
    if total < fl:
        # between a tenth and a quarter of the reference: a deep restructuring (methods delegating to new private classes) can
        # do that; it is reported, and fails the run only in strict mode.  Below a tenth nothing meaningful was analysed.
        if strict or total < max(3, int(fl * 0.4)):
            problems.append(f"only {total} obligations (floor {fl})")
        else:
            soft.append(f"only {total} obligations (a quarter of the reference tree would be {fl})")
            res.unknown("COVERAGE", prop, f"{total} obligations", "floor", f"far fewer constructs were analysed than on the reference tree ({total} against a floor of {fl}): most of the code this property is about was not recognised")
            print(f"COVERAGE-LOW property={prop} obligations={total} floor={fl}")
    for rule, mn in floors.get("rules", {}).items():
        have = sum(by_rule.get(rule, {}).values())
        if have < mn:
            soft.append(f"rule {rule}: {have} instances (floor {mn})")
            res.unknown(rule, prop, f"instances of {rule}", "floor", f"the rule found {have} instances on this tree (at least {mn} on the reference tree): its constructs were not recognised")
    for c in res.controls:
        if not c.get("matched"):
            soft.append(f"positive control {c.get('name')} did not match")
            res.unknown("CONTROL", prop, str(c.get("name")), "positive-control", "no breaking variant of this tree made its rule fire (the constructs the variants edit were not found or are no longer decided)")
    if strict:
        problems += soft
    elif soft:
        res.notes.append("weakened on this tree: " + "; ".join(soft))
    by_rule = res.by_rule()
    total = len(res.obs)
    known = load_known()
    violations, known_hits = [], []
    for o in res.obs:
        if o.status != "violation":
            continue
        k = match_known(prop, o, known)
        if k is not None:
            known_hits.append({**o.ident(), "what": k.get("what", "")})
        else:
            violations.append(o)

    # a shortfall of analysed instances is an analysis error - unless a definite violation was found anyway, which is
    # reported as such (the shortfall is then usually the very change that broke the property)
    if problems and not violations:
        raise AnalysisError("; ".join(problems))
    if problems:
        res.notes.append("instance floors not met (reported as a note because violations were found): " + "; ".join(problems))

    selftest = None
    if tier == "thorough":
        selftest = ST.matrix(prop, repo, jobs=int(os.environ.get("VERIF_JOBS", "16")))
        # the filed seeded changes / behaviour-preserving refactorings of this property, applied to the current sources in memory
        selftest["corpus"] = ST.corpus(prop, repo, jobs=int(os.environ.get("VERIF_JOBS", "16")))
        # the general lint pack has no instance on the repository: its own tiny positive / negative examples must behave
        selftest["lint_pack"] = ST.lint_pack_controls(repo)
        selftest.setdefault("broken", [])
        selftest["broken"] += selftest["lint_pack"]["broken"]

    wall = time.time() - t0
    level_text = getattr(mod, "LEVEL_TEXT", "static structural rules over the AST / CFG / kind annotations of the current source tree")
    path = write_evidence(prop, tier, seed, res, stats, wall, violations, known_hits, level_text, selftest, outdir=evidence_dir)

    out = []
    unknown = sum(1 for o in res.obs if o.status == "unknown")
    out.append(
        f"[{prop}] tier={tier} repo={repo} files={stats['files']} functions={stats['functions']} calls={stats['call_sites']} "
        f"obligations={total} ok={sum(1 for o in res.obs if o.status == 'ok')} unknown={unknown} violations={len(violations)} known={len(known_hits)} wall={wall:.2f}s"
    )
    for rule, d in sorted(by_rule.items()):
        out.append(f"  {rule:14} ok={d['ok']:4d} unknown={d['unknown']:3d} violation={d['violation']:3d}  {res.rules.get(rule, '')}")
    for k in known_hits:
        out.append(f"KNOWN-FINDING: property={prop} {k['rule']} {k['func']}: {k['stmt']} [{k['detail']}] {k['what']}")
    for i, o in enumerate(violations):
        rp = write_replay(prop, i, o, outdir=os.path.join(evidence_dir, "replay") if evidence_dir else None)
        out.append(f"  {o.where} {o.func}: {o.rule} [{o.detail}] {o.stmt}  -- {o.reason}")
        out.append(f"VIOLATION property={prop} replay={rp}")
    if selftest is not None:
        out.append(f"  selftest: {selftest.get('summary', '')}")
        if selftest.get("broken"):
            if strict:
                raise AnalysisError("self-test of the checker failed: " + "; ".join(selftest["broken"][:5]))
            out.append("  selftest (not strict): " + "; ".join(selftest["broken"][:5]))
        cp = selftest.get("corpus")
        if cp:
            out.append(f"  corpus: {cp.get('summary', '')}")
            if cp.get("broken"):
                if strict:
                    raise AnalysisError("filed seeded changes / refactorings not handled as recorded: " + "; ".join(cp["broken"][:5]))
                out.append("  corpus (not strict): " + "; ".join(cp["broken"][:5]))
    if not quiet:
        try:
            print("\n".join(out), flush=True)
        except BrokenPipeError:  # the reader closed the pipe: the exit code still carries the verdict
            try:
                sys.stdout = open(os.devnull, "w")
            except OSError:
                pass
    return (1 if violations else 0), res, violations, known_hits, out


def main(argv=None):
    ap = argparse.ArgumentParser(prog="hgxverif")
    sub = ap.add_subparsers(dest="cmd", required=True)
    c = sub.add_parser("check")
    c.add_argument("prop")
    c.add_argument("--tier", default=os.environ.get("VERIF_TIER", "quick"), choices=["quick", "thorough"])
    c.add_argument("--repo", default="/repo")
    c.add_argument("--evidence-dir", default=None)
    e = sub.add_parser("explain")
    e.add_argument("path")
    a = ap.parse_args(argv)
    if a.cmd == "explain":
        with open(a.path) as f:
            d = json.load(f)
        print(json.dumps(d, indent=1))
        print(f"\n{d.get('where')}  in {d.get('func')}\n  rule   : {d.get('rule')} [{d.get('detail')}]\n  at     : {d.get('stmt')}\n  reason : {d.get('reason')}")
        return 0
    prop = a.prop.upper()
    try:
        if prop not in PROPS:
            raise AnalysisError(f"unknown property {prop}")
        code, *_ = run_property(prop, a.repo, a.tier, a.evidence_dir)
        return code
    except AnalysisError as ex:
        print(f"ANALYSIS-ERROR property={prop} {ex}")
        return 2
    except Exception as ex:  # tracebacks must not look like violations
        traceback.print_exc()
        print(f"ANALYSIS-ERROR property={prop} internal error: {type(ex).__name__}: {ex}")
        return 2


if __name__ == "__main__":
    sys.exit(main())

"""Comparison-shape rules (DESIGN 2.I): M-UPTO, M-EXCL, M-NONE, M-WINDOW, M-THRESH.

Comparisons are normalised (operand order, `not`, chained form) before matching, so equivalent spellings of
a filter are accepted and only a changed relation is reported.
"""
from __future__ import annotations

import ast
from typing import List, Optional, Tuple

from .kinds import ORDER, SIZE, TIME, Atom, Const, Union, deconst, strip_none
from .model import AnalysisError, loc, norm, walk_no_nested
from .report import Result
from .rules_container import _atoms, _implied_branch
from .tableops import FuncView

SWAP = {ast.Lt: ast.Gt, ast.Gt: ast.Lt, ast.LtE: ast.GtE, ast.GtE: ast.LtE, ast.Eq: ast.Eq, ast.NotEq: ast.NotEq}
NEG = {ast.Lt: ast.GtE, ast.Gt: ast.LtE, ast.LtE: ast.Gt, ast.GtE: ast.Lt, ast.Eq: ast.NotEq, ast.NotEq: ast.Eq}
NAME = {ast.Lt: "<", ast.Gt: ">", ast.LtE: "<=", ast.GtE: ">=", ast.Eq: "==", ast.NotEq: "!="}


def _k(v: FuncView, n):
    return deconst(strip_none(v.kind(n)))


def size_compares(v: FuncView):
    """(Compare node, op type with the size-expression on the LEFT, size-expr node, filter node, negated?)"""
    out = []
    for n in walk_no_nested(v.fi.node):
        if not isinstance(n, ast.Compare) or len(n.ops) != 1:
            continue
        l, r = n.left, n.comparators[0]
        kl, kr = _k(v, l), _k(v, r)
        if kl not in (SIZE, ORDER) or kr not in (SIZE, ORDER):
            continue
        op = type(n.ops[0])
        if op not in SWAP:
            continue
        # which side is the measured hyperedge (contains a len()/size helper call), which the filter variable
        lm, rm = _is_measure(l, v), _is_measure(r, v)
        if lm and not rm:
            out.append((n, op, l, r))
        elif rm and not lm:
            out.append((n, SWAP[op], r, l))
    return out


def _is_measure(e, v: FuncView = None) -> bool:
    for x in ast.walk(e):
        if isinstance(x, ast.Call) and isinstance(x.func, ast.Name) and x.func.id in ("len", "_get_size", "_get_order", "_get_edge_size"):
            return True
        # a repo helper that returns the size / order of what it is handed (`self._record_order(key)`)
        if v is not None and isinstance(x, ast.Call) and x.args and _k(v, x) in (SIZE, ORDER) and v.ctx.callees(v.fi, x):
            return True
    return False


def check_upto(ctx, res: Result, dotted: str, rule="M-UPTO"):
    """Size filters are `==` where up_to is false (or absent) and `<=` where up_to is true."""
    v = ctx.view(dotted)
    f = v.fi.short
    has_upto = "up_to" in [a.arg for a in v.fi.params]
    cmps = size_compares(v)
    for n, op, meas, filt in cmps:
        nid = v.cfg_id(n)
        want = ast.Eq
        branch = "exact"
        if has_upto:
            st = _upto_state(v, nid)
            if st is None:
                res.unknown(rule, f, norm(n), "up_to?", "comparison not governed by a test of up_to", loc(v.fi, n))
                continue
            want = ast.LtE if st else ast.Eq
            branch = "up_to" if st else "not up_to"
        res.check(
            op is want,
            rule,
            f,
            norm(n),
            branch,
            f"size filter on the `{branch}` branch is `{NAME[op]}` (hyperedge measure on the left); it must be `{NAME[want]}`",
            loc(v.fi, n),
        )
    return len(cmps)


def _upto_state(v: FuncView, nid: int) -> Optional[bool]:
    for n in walk_no_nested(v.fi.node):
        if isinstance(n, ast.If):
            for atom, _ in _atoms(n.test, True):
                if isinstance(atom, ast.Name) and atom.id == "up_to":
                    for want in (True, False):
                        lab = _implied_branch(n.test, atom, want)
                        if lab and v.cfg.branch_dominated(v.cfg.by_ast[id(n.test)], lab, nid):
                            return want
    return None


def _none_atoms(test) -> Optional[Tuple[str, frozenset]]:
    """Normalise a test made of `x is None` / `x is not None` atoms joined by and/or/not into
    ('and'|'or', {(name, is_none)}) ; None if the test has another shape."""

    def lit(t, pos=True):
        if isinstance(t, ast.UnaryOp) and isinstance(t.op, ast.Not):
            return lit(t.operand, not pos)
        if isinstance(t, ast.Compare) and len(t.ops) == 1 and isinstance(t.left, ast.Name) and isinstance(t.comparators[0], ast.Constant) and t.comparators[0].value is None and isinstance(t.ops[0], (ast.Is, ast.IsNot)):
            is_none = isinstance(t.ops[0], ast.Is)
            return (t.left.id, is_none if pos else not is_none)
        return None

    def go(t, pos=True):
        if isinstance(t, ast.UnaryOp) and isinstance(t.op, ast.Not) and isinstance(t.operand, ast.BoolOp):
            return go(t.operand, not pos)
        if isinstance(t, ast.BoolOp):
            lits = [lit(x, pos) for x in t.values]
            if any(l is None for l in lits):
                return None
            conj = isinstance(t.op, ast.And)
            if not pos:
                conj = not conj  # De Morgan
            return ("and" if conj else "or", frozenset(lits))
        l = lit(t, pos)
        return ("and", frozenset([l])) if l else None

    return go(test)


def _exclusion_guards(v: FuncView, a: str, b: str):
    """[(If node, normal form)] of the raising guards that test exactly the None-ness of `a` and `b`."""
    neither = ("and", frozenset([(a, True), (b, True)]))  # the separate "at least one must be given" guard
    cands = []
    for n in walk_no_nested(v.fi.node):
        if isinstance(n, ast.If) and n.body and isinstance(n.body[0], ast.Raise):
            nf = _none_atoms(n.test)
            if nf is None:
                continue
            if {x for x, _ in nf[1]} == {a, b} and nf != neither:
                cands.append((n, nf))
        # nested form: `if a is not None: if b is not None: raise` == the conjunction of the two tests
        if isinstance(n, ast.If) and n.body and isinstance(n.body[0], ast.If) and n.body[0].body and isinstance(n.body[0].body[0], ast.Raise):
            o, i = _none_atoms(n.test), _none_atoms(n.body[0].test)
            if o and i and o[0] == "and" and i[0] == "and":
                nf = ("and", o[1] | i[1])
                if {x for x, _ in nf[1]} == {a, b} and nf != neither:
                    cands.append((n, nf))
    return cands


def _raise_conditions(v: FuncView, a: str, b: str):
    """[(Raise node, set of (a is None, b is None) under which it is reached)] for the raises whose enclosing tests are
    all None-tests of `a` / `b` (if / elif / else nesting); a raise under any other test is skipped"""
    out = []
    for r in walk_no_nested(v.fi.node):
        if not isinstance(r, ast.Raise):
            continue
        conds = []
        ok = True
        child = r
        par = v.parent.get(id(child))
        while par is not None and par is not v.fi.node:
            if isinstance(par, ast.If):
                if any(child is x for x in par.body):
                    conds.append((par.test, True))
                elif any(child is x for x in par.orelse):
                    conds.append((par.test, False))
            elif isinstance(par, (ast.For, ast.While, ast.Try, ast.With)):
                ok = False
            child = par
            par = v.parent.get(id(par))
        if not ok or not conds:
            continue
        conds = [(v.inline(t), pol) for t, pol in conds]
        combos = set()
        tabular = True
        for an in (True, False):
            for bn in (True, False):
                holds = True
                for t, pol in conds:
                    val = _eval_none_test(t, {a: an, b: bn})
                    if val is None:
                        tabular = False
                        break
                    if val != pol:
                        holds = False
                if not tabular:
                    break
                if holds:
                    combos.add((an, bn))
            if not tabular:
                break
        if tabular:
            out.append((r, combos))
        elif any(isinstance(x, ast.Name) and x.id in (a, b) for t, _ in conds for x in ast.walk(t)):
            out.append((r, None))  # depends on a / b in a way that was not tabulated
    return out


def _eval_none_test(t, env):
    """truth of a test made of `x is None` / `x is not None` atoms (x in env: name -> is None?), else None"""
    if isinstance(t, ast.UnaryOp) and isinstance(t.op, ast.Not):
        x = _eval_none_test(t.operand, env)
        return None if x is None else (not x)
    if isinstance(t, ast.BoolOp):
        vals = [_eval_none_test(x, env) for x in t.values]
        if any(x is None for x in vals):
            return None
        return all(vals) if isinstance(t.op, ast.And) else any(vals)
    if isinstance(t, ast.Compare) and len(t.ops) == 1 and isinstance(t.left, ast.Name) and t.left.id in env and isinstance(t.comparators[0], ast.Constant) and t.comparators[0].value is None and isinstance(t.ops[0], (ast.Is, ast.IsNot)):
        return env[t.left.id] if isinstance(t.ops[0], ast.Is) else (not env[t.left.id])
    if isinstance(t, ast.Compare) and len(t.ops) == 1 and isinstance(t.ops[0], (ast.Eq, ast.NotEq, ast.Is, ast.IsNot)):
        # `(a is None) == (b is None)` and the like: two None-tests compared with each other
        l, r = _eval_none_test(t.left, env), _eval_none_test(t.comparators[0], env)
        if l is None or r is None:
            return None
        return (l == r) if isinstance(t.ops[0], (ast.Eq, ast.Is)) else (l != r)
    if isinstance(t, ast.Constant) and isinstance(t.value, bool):
        return t.value
    return None


def _both_forwarded(ctx, v: FuncView, a: str, b: str):
    """[(call node, callee FunctionInfo, callee's name for a, callee's name for b)] for the calls of repo functions
    that receive the caller's `a` and `b` unchanged (plain names) - candidates for a delegated exclusion guard."""
    out = []
    for n in walk_no_nested(v.fi.node):
        if not isinstance(n, ast.Call):
            continue
        for callee in ctx.callees(v.fi, n):
            if callee.qualname == v.fi.qualname:
                continue
            names = [x.arg for x in callee.params]
            if callee.cls is not None and names and names[0] in ("self", "cls") and isinstance(n.func, ast.Attribute):
                names = names[1:]
            got = {}
            for i, arg in enumerate(n.args):
                if isinstance(arg, ast.Name) and arg.id in (a, b) and i < len(names):
                    got[arg.id] = names[i]
            for kw in n.keywords:
                if kw.arg is not None and isinstance(kw.value, ast.Name) and kw.value.id in (a, b):
                    got[kw.value.id] = kw.arg
            if a in got and b in got:
                out.append((n, callee, got[a], got[b]))
    return out


def _exclusion_status(ctx, v: FuncView, a: str, b: str, depth: int = 0):
    """('ok' | 'wrong' | 'delegated-unknown' | 'absent', node, text)"""
    want = ("and", frozenset([(a, False), (b, False)]))
    cands = _exclusion_guards(v, a, b)
    for n, nf in cands:
        if nf == want:
            return ("ok", n, norm(n.test))
    # general form: a raise whose path condition (if / elif / else nesting of None tests) is "both given"
    rc_all = _raise_conditions(v, a, b)
    rc = [(r, c) for r, c in rc_all if c is not None]
    undecided = [r for r, c in rc_all if c is None]
    for r, combos in rc:
        # raised when both are given - possibly by the same guard that rejects "neither given"
        if (False, False) in combos and combos <= {(False, False), (True, True)}:
            return ("ok", r, "raise under " + " / ".join(sorted({norm(t) for t in [v.parent.get(id(r)).test] if hasattr(v.parent.get(id(r)), "test")})))
    if cands and not undecided:
        return ("wrong", cands[0][0], norm(cands[0][0].test))
    for r, combos in rc:
        if combos and combos != {(True, True)} and (False, False) not in combos and not undecided:
            return ("wrong", r, norm(r))
    if undecided:
        return ("delegated-unknown", undecided[0], norm(undecided[0]))
    fw = _both_forwarded(ctx, v, a, b) if depth < 3 else []
    worst = None
    for n, callee, ca, cb in fw:
        st = _exclusion_status(ctx, ctx.view(callee), ca, cb, depth + 1)
        if st[0] == "ok":
            # the call must be made on every path that uses the filters: accept when it dominates the function's exits
            return ("ok", n, f"{norm(n)} -> {callee.short}: {st[2]}")
        worst = worst or st
    if fw:
        return ("delegated-unknown", fw[0][0], norm(fw[0][0]))
    # the exclusion test is written as a deferred predicate (a lambda / local function in a table of checks that a helper runs)
    for n in ast.walk(v.fi.node):
        if isinstance(n, (ast.Lambda, ast.FunctionDef)) and n is not v.fi.node:
            names = {x.id for x in ast.walk(n) if isinstance(x, ast.Name)}
            if {a, b} <= names:
                return ("delegated-unknown", n, norm(n)[:80])
    # both filters are handed to something that was not resolved (a callable picked from a table, a parameter, a closure)
    for n in walk_no_nested(v.fi.node):
        if isinstance(n, ast.Call) and not ctx.callees(v.fi, n):
            got = {x.id for arg in list(n.args) + [k.value for k in n.keywords] for x in ast.walk(arg) if isinstance(x, ast.Name) and x.id in (a, b)}
            if got == {a, b} and not (isinstance(n.func, ast.Name) and n.func.id in ("print", "len", "isinstance", "str", "repr", "format")):
                return ("delegated-unknown", n, norm(n)[:80])
    # nothing receives both filters: did something receive them in a form we cannot follow (**kwargs, a dict)?
    for n in walk_no_nested(v.fi.node):
        if isinstance(n, ast.Call) and (any(kw.arg is None for kw in n.keywords) or any(isinstance(x, ast.Starred) for x in n.args)):
            return ("delegated-unknown", n, norm(n))
    return ("absent", v.fi.node, "")


def check_exclusion(ctx, res: Result, dotted: str, a="order", b="size", rule="M-EXCL"):
    """`a` and `b` are mutually exclusive: a guard raises exactly when both are not None - in the function itself or in
    a repo function it hands both filters to."""
    v = ctx.view(dotted)
    f = v.fi.short
    names = [x.arg for x in v.fi.params]
    if a not in names or b not in names:
        return False
    st, n, text = _exclusion_status(ctx, v, a, b)
    stmt = f"if {a} is not None and {b} is not None: raise"
    if st == "ok":
        res.ok(rule, f, text, "guard", loc(v.fi, n))
    elif st == "wrong":
        res.violation(rule, f, text, "guard", f"the {a}/{b} exclusion guard rejects the wrong combinations (must raise exactly when both are given)", loc(v.fi, n))
    elif st == "delegated-unknown":
        res.unknown(rule, f, stmt, "guard", f"no exclusion guard here; both filters are handed on by `{text}`, whose handling could not be decided", loc(v.fi, n))
    elif getattr(v.fi, "rewrapped", False):
        # `@_single_filter def get_edges(...)`: the call goes through a decorator of the repository first
        res.unknown(rule, f, stmt, "guard", f"no exclusion guard in the body; the function is wrapped by a repository decorator ({', '.join('@' + norm(d_) for d_ in v.fi.node.decorator_list)[:60]}), which may be what rejects the combination", loc(v.fi, v.fi.node))
    else:
        res.violation(rule, f, stmt, "guard", f"no guard rejects a call that specifies both {a} and {b}", loc(v.fi, v.fi.node))
    return True


TRUTHY_SENSITIVE = ("order", "size", "seed", "time", "s")


def check_none_tests(ctx, res: Result, dotted: str, params=TRUTHY_SENSITIVE, rule="M-NONE"):
    """Parameters for which 0 is a legitimate value are tested with `is None`, never by truthiness."""
    v = ctx.view(dotted)
    f = v.fi.short
    names = {x.arg for x in v.fi.params} | {x.arg for x in v.fi.node.args.kwonlyargs}
    watch = names & set(params)
    if not watch:
        return 0
    count = 0

    def visit_test(t, n):
        nonlocal count
        for atom, _ in _atoms(t, True):
            if isinstance(atom, ast.Name) and atom.id in watch:
                count += 1
                res.violation(rule, f, norm(n), atom.id, f"parameter `{atom.id}` is tested by truthiness: the legitimate value 0 is treated like None (filter / seed silently dropped)" if atom.id not in ("metadata", "weight", "weights") else f"parameter `{atom.id}` is tested by truthiness: an explicitly supplied empty / zero value ({{}} / 0) is treated like an omitted argument, so it does not replace what is stored", loc(v.fi, n))

    for n in walk_no_nested(v.fi.node):
        if isinstance(n, (ast.If, ast.While)):
            visit_test(n.test, n.test)
        elif isinstance(n, ast.IfExp):
            visit_test(n.test, n)
        elif isinstance(n, ast.BoolOp):
            par = v.parent.get(id(n))
            # `x or default` value idiom
            if isinstance(n.op, ast.Or) and not isinstance(par, (ast.If, ast.While, ast.BoolOp, ast.UnaryOp)) and any(isinstance(x, ast.Name) and x.id in watch for x in n.values[:-1]):
                count += 1
                res.violation(rule, f, norm(n), "or-default", "a 0-valued parameter is replaced by the default through `x or default`", loc(v.fi, n))
        elif isinstance(n, (ast.ListComp, ast.SetComp, ast.GeneratorExp, ast.DictComp)):
            for g in n.generators:
                for c in g.ifs:
                    visit_test(c, c)
    for w in sorted(watch):
        res.ok(rule, f, f"no truthiness test of `{w}`", w + ":scan", loc(v.fi, v.fi.node))
    return len(watch)


def check_window(ctx, res: Result, dotted: str, rule="M-WINDOW"):
    """A TIME value compared against a window is `lo <= t < hi` (half-open)."""
    v = ctx.view(dotted)
    f = v.fi.short
    n_found = 0
    for n in walk_no_nested(v.fi.node):
        if not isinstance(n, ast.Compare):
            continue
        if len(n.ops) == 2:
            lo, t, hi = n.left, n.comparators[0], n.comparators[1]
            if _k(v, t) != TIME:
                continue
            if not (_is_window_bound(lo) and _is_window_bound(hi)):
                continue
            n_found += 1
            ops = (type(n.ops[0]), type(n.ops[1]))
            res.check(ops == (ast.LtE, ast.Lt), rule, f, norm(n), "half-open", f"time window test is `lo {NAME.get(ops[0], '?')} t {NAME.get(ops[1], '?')} hi`; it must be `lo <= t < hi`", loc(v.fi, n))
    # two-comparison spelling: lo <= t and t < hi
    for n in walk_no_nested(v.fi.node):
        if isinstance(n, ast.BoolOp) and isinstance(n.op, ast.And):
            parts = []
            for x in n.values:
                if isinstance(x, ast.Compare) and len(x.ops) == 1:
                    l, r = x.left, x.comparators[0]
                    op = type(x.ops[0])
                    if _k(v, l) == TIME and _is_window_bound(r) and op in SWAP:
                        parts.append((SWAP[op], r))  # bound OP' t
                    elif _k(v, r) == TIME and _is_window_bound(l) and op in SWAP:
                        parts.append((op, l))
            if len(parts) == 2:
                n_found += 1
                lows = [p for p in parts if _bound_index(p[1]) == 0]
                highs = [p for p in parts if _bound_index(p[1]) == 1]
                ok = len(lows) == 1 and len(highs) == 1 and lows[0][0] is ast.LtE and highs[0][0] is ast.Gt
                res.check(ok, rule, f, norm(n), "half-open", "time window test must be `lo <= t` and `t < hi`", loc(v.fi, n))
    if n_found == 0:
        raise AnalysisError(f"{f}: no time-window comparison found (anchor of M-WINDOW vanished or idiom unrecognised)")
    return n_found


def _is_window_bound(e) -> bool:
    return isinstance(e, ast.Subscript) and isinstance(e.slice, ast.Constant) and e.slice.value in (0, 1) or isinstance(e, ast.Name)


def _bound_index(e) -> Optional[int]:
    if isinstance(e, ast.Subscript) and isinstance(e.slice, ast.Constant):
        return e.slice.value
    if isinstance(e, ast.Name):
        return 0 if ("start" in e.id or "lo" in e.id or "min" in e.id) else 1
    return None

"""Path / pairing rules for the four container classes (DESIGN 2.D): P-FRESH, P-ID, P-ADJ1, P-ACCUM, P-DEL,
P-NODE, P-CLEAR, P-ATOMIC, P-SHRINK, P-NEIGH, P-TIMEVAL, P-LAYERREG.

Every rule works on the CFG of the anchored method plus the table operations extracted through the kind
annotations.  A missing anchor is an AnalysisError (exit 2); a rule instance whose structure is found but
violated is a violation with the offending statement.
"""
from __future__ import annotations

import ast
from typing import Dict, List, Optional, Set

from . import tables as T
from .kinds import EID, Atom, Dct, Lst, Seq, St, Tup, Union, _Top
from .model import AnalysisError, is_self_attr, loc, norm, walk_no_nested
from .report import Result
from .tableops import FuncView, TOp


# ----------------------------------------------------------------------------- helpers
class _Mem:
    """A membership atom: `k in T`, `k not in T`, or `x is D` / `x is not D` with x = T.get(k[, D]) (D: None or a
    sentinel).  `test` is the (alias-inlined) test expression the atom belongs to."""

    def __init__(self, ifnode, atom, key, holds_in_when_true: bool, test=None):
        self.ifnode = ifnode
        self.atom = atom
        self.key = key
        self.in_when_true = holds_in_when_true  # the atom being True means "k in T"
        self.test = test if test is not None else ifnode.test

    def absent_branch(self):
        """label of the out-edge of the test on which `k not in T` is known"""
        return _implied_branch(self.test, self.atom, not self.in_when_true)

    def present_branch(self):
        return _implied_branch(self.test, self.atom, self.in_when_true)


def _get_lookup(v: FuncView, name_node, test_id=None):
    """(def, table expr, key expr, default text) when the value of the local `name_node` at the test comes from
    `T.get(k[, D])`: the one definition that dominates the test with no other definition in between"""
    defs = [d for d in walk_no_nested(v.fi.node) if isinstance(d, ast.Assign) and len(d.targets) == 1 and isinstance(d.targets[0], ast.Name) and d.targets[0].id == name_node.id]
    cands = []
    for d in defs:
        c = d.value
        if not (isinstance(c, ast.Call) and isinstance(c.func, ast.Attribute) and c.func.attr == "get" and 1 <= len(c.args) <= 2 and not c.keywords):
            continue
        did = _cfgid(v, d)
        if test_id is not None:
            if not v.cfg.dominates(did, test_id):
                continue
            others = [_cfgid(v, o) for o in defs if o is not d]
            if any(v.cfg.reachable(did, oid) and v.cfg.reachable(oid, test_id) and oid != test_id and not v.cfg.dominates(oid, did) for oid in others):
                continue
        elif len(defs) != 1:
            continue
        cands.append((d, c.func.value, c.args[0], norm(c.args[1]) if len(c.args) == 2 else "None"))
    return cands[0] if len(cands) == 1 else None


def _membership_atoms(v: FuncView, table: str):
    out = []
    for n in walk_no_nested(v.fi.node):
        if not isinstance(n, (ast.If, ast.While)):
            continue
        test = n.test
        # a boolean local that names a membership test: `known = k in T; if not known: ...`
        if any(isinstance(x, ast.Name) for x in ast.walk(test)):
            names = [x for x in ast.walk(test) if isinstance(x, ast.Name) and isinstance(x.ctx, ast.Load)]
            if any(isinstance(v.resolve(x), (ast.Compare, ast.BoolOp, ast.UnaryOp)) for x in names):
                test = v.inline(test, depth=2)
        for a, _ in _atoms(test, True):
            if isinstance(a, ast.Compare) and len(a.ops) == 1:
                op, l, r = a.ops[0], a.left, a.comparators[0]
                if isinstance(op, (ast.In, ast.NotIn)):
                    c = [t for t in v.tables_of(r) if t[1] == table and not t[2]]
                    if c:
                        out.append(_Mem(n, a, l, isinstance(op, ast.In), test))
                elif isinstance(op, (ast.Is, ast.IsNot)) and isinstance(l, ast.NamedExpr) and isinstance(r, (ast.Constant, ast.Name)) and isinstance(l.value, ast.Call) and isinstance(l.value.func, ast.Attribute) and l.value.func.attr == "get" and l.value.args:
                    # `(x := T.get(k, D)) is not D`: the sentinel lookup and its test in one expression
                    call = l.value
                    dflt = norm(call.args[1]) if len(call.args) > 1 else "None"
                    if norm(r) == dflt:
                        c = [t for t in v.tables_of(getattr(call.func.value, "_orig", call.func.value)) if t[1] == table and not t[2]]
                        if c:
                            out.append(_Mem(n, a, call.args[0], isinstance(op, ast.IsNot), test))
                elif isinstance(op, (ast.Is, ast.IsNot)) and isinstance(getattr(l, "_orig", l), ast.Name) and isinstance(r, (ast.Constant, ast.Name)):
                    # x = T.get(k[, D]) ... if x is D:
                    lk = _get_lookup(v, getattr(l, "_orig", l), v.cfg.by_ast[id(n.test)])
                    if lk is None:
                        continue
                    d, texpr, key, dflt = lk
                    if norm(r) != dflt:
                        continue
                    c = [t for t in v.tables_of(texpr) if t[1] == table and not t[2]]
                    if c and v.cfg.dominates(_cfgid(v, d), v.cfg.by_ast[id(n.test)]):
                        out.append(_Mem(n, a, key, isinstance(op, ast.IsNot), test))
    return out


def _membership_tests(v: FuncView, table: str):
    """(if node, key expr, positive?, atom) - kept for the callers that only need `k in T` / `k not in T` atoms"""
    return [(m.ifnode, m.key, m.in_when_true, m.atom) for m in _membership_atoms(v, table) if isinstance(m.atom.ops[0], (ast.In, ast.NotIn))]


def _fresh_guard(v: FuncView, table: str, key, sid: int):
    """the membership test that proves `key not in table` at CFG node sid, or None"""
    for m in _membership_atoms(v, table):
        if key is not None and not _same_expr(m.key, key, v):
            continue
        lab = m.absent_branch()
        if lab is None:
            continue
        tid = v.cfg.by_ast[id(m.ifnode.test)]
        if v.cfg.branch_dominated(tid, lab, sid):
            return (tid, lab, m.ifnode)
    return None


def _absent(res: Result, v: FuncView, rule, stmt, detail, why, where):
    """An operation that must exist was not found: definite only when the function's effects are fully attributed."""
    _, opaque = v.effects()
    # local closures / lambdas: their bodies are separate functions - what they do on behalf of this one is not attributed to it
    nested = any(isinstance(n, (ast.FunctionDef, ast.AsyncFunctionDef, ast.Lambda)) and n is not v.fi.node for n in ast.walk(v.fi.node))
    me = v.fi.params[0].arg if v.fi.params else None
    handed = me is not None and any(isinstance(n, ast.Call) and any(isinstance(a_, ast.Name) and a_.id == me for a_ in list(n.args) + [k.value for k in n.keywords]) for n in ast.walk(v.fi.node))
    if nested:
        res.unknown(rule, v.fi.short, stmt, detail, "not found in the function body; it defines local closures whose effects are not attributed to it", where)
    elif handed:
        res.unknown(rule, v.fi.short, stmt, detail, f"not found in the function body; it hands `{me}` itself to another callable (a policy / strategy object) that may do it", where)
    elif opaque:
        res.unknown(rule, v.fi.short, stmt, detail, "not found, but the function mutates containers the analysis cannot attribute to a table", where)
    else:
        res.violation(rule, v.fi.short, stmt, detail, why, where)


def _atoms(test, pos):
    """Yield (atomic condition, polarity) pairs of a test; polarity tracks enclosing `not`.
    For `a and b` (pos) both atoms hold on the True edge; for `a or b` both fail on the False edge - the callers
    only use atoms whose truth on a branch is implied, see `_implied`."""
    if isinstance(test, ast.UnaryOp) and isinstance(test.op, ast.Not):
        yield from _atoms(test.operand, not pos)
    elif isinstance(test, ast.BoolOp):
        for v in test.values:
            yield from _atoms(v, pos)
    elif _bitbool(test):
        # `(a < b) & (c < d)`: `&` / `|` between comparisons act as and / or
        yield from _atoms(test.left, pos)
        yield from _atoms(test.right, pos)
    else:
        yield test, pos


def _bitbool(t) -> bool:
    return isinstance(t, ast.BinOp) and isinstance(t.op, (ast.BitAnd, ast.BitOr)) and all(isinstance(x, (ast.Compare, ast.BoolOp, ast.UnaryOp)) or _bitbool(x) for x in (t.left, t.right))


def _implied_branch(test, atom, want_true: bool) -> Optional[str]:
    """On which out-edge ('T'/'F') of `test` is `atom` known to have truth value want_true? None if on neither."""

    def val(t, branch: bool):
        # truth value of `atom` implied when t evaluates to `branch`: True / False / None
        if t is atom:
            return branch
        if isinstance(t, ast.UnaryOp) and isinstance(t.op, ast.Not):
            return val(t.operand, not branch)
        if isinstance(t, ast.BoolOp) or _bitbool(t):
            is_and = isinstance(t.op, (ast.And, ast.BitAnd))
            values = t.values if isinstance(t, ast.BoolOp) else [t.left, t.right]
            if is_and and branch:
                for x in values:
                    r = val(x, True)
                    if r is not None:
                        return r
            if not is_and and not branch:
                for x in values:
                    r = val(x, False)
                    if r is not None:
                        return r
        return None

    for lab, b in (("T", True), ("F", False)):
        if val(test, b) is want_true:
            return lab
    return None


def _same_expr(a: ast.AST, b: ast.AST, v: Optional[FuncView] = None) -> bool:
    """the same expression - as written, through a walrus (`(k := f(x)) not in T` binds k), or after folding
    single-definition temporaries back in (`key = (nodes, layer)`)"""
    a0 = getattr(a, "_orig", a)
    b0 = getattr(b, "_orig", b)
    for x, y in ((a0, b0), (b0, a0)):
        if isinstance(x, ast.NamedExpr) and (norm(x.target) == norm(y) or norm(x.value) == norm(y)):
            return True
    if norm(a) == norm(b):
        return True
    if v is not None:
        try:
            return norm(v.inline(a0)) == norm(v.inline(b0))
        except Exception:
            return False
    return False


def _writes(v: FuncView, table: str, ops=("store", "aug", "setattr"), with_calls=False) -> List[TOp]:
    return [o for o in v.ops(with_calls) if o.table == table and o.op in ops and not o.elem_level]


def _cfgid(v: FuncView, node) -> int:
    i = v.cfg_id(node)
    if i is None:
        raise AnalysisError(f"{v.fi.short}: no CFG node for `{norm(node)}`")
    return i


def _where(v: FuncView, node) -> str:
    return loc(v.fi, node)


# ----------------------------------------------------------------------------- add_edge
def check_add_edge(ctx, res: Result, cls: str):
    v = ctx.view(f"{cls}.add_edge")
    f = v.fi.short
    stores = _writes(v, "_edge_list", ("store",))
    if not stores:
        via = [o for o in _writes(v, "_edge_list", ("store",), with_calls=True) if o.via]
        if via:
            res.unknown("P-FRESH", f, norm(via[0].node), "_edge_list", f"record creation is delegated to {via[0].via}; the joint-update rules are not applied across the call", _where(v, via[0].node))
            return
        raise AnalysisError(f"{f}: no store into _edge_list found (anchor of P-FRESH vanished)")
    id_tables = T.EDGE_ID_TABLES
    adj_tables = T.ADJ_TABLES[cls]

    fresh_nodes = []  # (test cfg id, label, if node) triples that delimit the fresh path
    for st in stores:
        sid = _cfgid(v, st.at)
        # ---- P-FRESH: the record-creating store is dominated by "key not in _edge_list"
        guard = _fresh_guard(v, "_edge_list", st.key, sid)
        if guard is None and _opaque_guard(v, st.node):
            # `plan = plan_insertion(self._edge_list, ...); if isinstance(plan, Insertion): self._edge_list[plan.edge] = ...`:
            # whether the key is fresh was decided by the planner that was handed the index
            res.unknown("P-FRESH", f, norm(st.node), "_edge_list", "the record is created on a branch chosen by a value another function computed from the edge index; the freshness test is not in this function", _where(v, st.node))
            continue
        res.check(
            guard is not None,
            "P-FRESH",
            f,
            norm(st.node),
            "_edge_list",
            "a new edge record is created without a dominating `key not in _edge_list` test on the same key (an existing record would be overwritten / re-keyed)",
            _where(v, st.node),
        )
        if guard is None:
            continue
        fresh_nodes.append(guard)
        tid, lab, ifn = guard
        # ---- joint update: every id-keyed table is written on every path through the creating store
        for tab in id_tables:
            w = [o for o in _writes(v, tab, ("store",), with_calls=True)]
            ids = {v.lifted(o) for o in w}
            if not w:
                _absent(res, v, "P-FRESH", norm(st.node), tab, f"creating an edge record never writes {tab} (joint update of index / reverse index / weights / metadata)", _where(v, st.node))
            else:
                res.check(v.passes_through(sid, ids), "P-FRESH", f, norm(st.node), tab, f"creating an edge record does not write {tab} on every path (joint update of index / reverse index / weights / metadata)", _where(v, st.node))
        # ---- P-ID: the id comes from the monotone counter, which is advanced on the same path
        _check_id_source(v, res, st, sid)
        # ---- P-ADJ1: adjacency appends only on the fresh path, one loop per adjacency table
        for tab in adj_tables:
            apps = [o for o in v.ops(with_calls=True) if o.table == tab and o.op == "append" and o.elem_level]
            if not apps:
                _absent(res, v, "P-ADJ1", f"{tab}[node].append(id)", tab, f"add_edge never records the new edge in {tab}", _where(v, st.node))
                continue
            res.ok("P-ADJ1", f, f"{tab}[node].append(id)", tab, _where(v, st.node))
            for a in apps:
                aid = _cfgid(v, a.at)
                dom = v.cfg.branch_dominated(tid, lab, aid)
                res.check(
                    dom,
                    "P-ADJ1",
                    f,
                    norm(a.node),
                    tab,
                    "incidence entry appended outside the `edge is new` branch: re-inserting an existing hyperedge lists it twice for its nodes",
                    _where(v, a.node),
                )
                if a.via or a.may:
                    continue  # loop shape / value are checked where the append is written down
                loop = v.enclosing(a.at, (ast.For,))
                if loop is None:
                    res.unknown("P-ADJ1", f, norm(a.node), tab + ":loop", "incidence append is not inside a loop over the hyperedge's nodes", _where(v, a.node))
                else:
                    ik = v.kind(loop.iter)
                    good = isinstance(ik, (Seq, Lst)) and isinstance(ik.elem, Atom) and ik.elem.name == "NODE"
                    res.add("P-ADJ1", f, norm(loop.iter), tab + ":loop", "ok" if good else "unknown", "" if good else f"loop iterates over {ik!r}", _where(v, loop))
                    vk = v.kind(a.value) if a.value is not None else None
                    bad = vk is not None and not isinstance(vk, (_Top, Union)) and vk != EID
                    res.add("P-ADJ1", f, norm(a.node), tab + ":value", "ok" if vk == EID else ("violation" if bad else "unknown"), "" if not bad else f"appended value has kind {vk!r}, not an edge id", _where(v, a.node))
            ids = {v.lifted(o) for o in apps}
            res.check(
                v.passes_through(sid, ids),
                "P-ADJ1",
                f,
                norm(st.node),
                tab + ":always",
                f"a path creates the edge record without recording it in {tab}",
                _where(v, st.node),
            )
    if not fresh_nodes:
        return
    # ---- P-EMETA: metadata handed to add_edge for a hyperedge that EXISTS replaces the stored metadata (all four containers):
    # some write of the `metadata` argument into _edge_metadata is reachable from the `key is present` side of the index test
    mpar = "metadata" if any(a.arg == "metadata" for a in v.fi.params) else None
    if mpar:
        mw = [o for o in v.ops(with_calls=True) if o.table == "_edge_metadata" and o.op == "store" and not o.elem_level]
        fed = [o for o in mw if any(isinstance(x, ast.Name) and x.id == mpar for x in ast.walk(o.at if o.via else (v.inline(o.value, depth=2) if o.value is not None else o.node)))]
        if fed:
            reach = False
            for tid, lab, _ifn in fresh_nodes:
                other = "F" if lab == "T" else "T"
                starts = list(v.cfg.succ(tid, other))
                for o in fed:
                    oid = _cfgid(v, o.at)
                    if any(s0 == oid or v.cfg.reachable(s0, oid) for s0 in starts):
                        reach = True
            if reach:
                res.ok("P-EMETA", f, norm(fed[0].node)[:80], "existing", _where(v, fed[0].node))
            else:
                _absent(res, v, "P-EMETA", norm(fed[0].node)[:80], "existing", f"the `{mpar}` argument reaches _edge_metadata only when the hyperedge is new: add_edge(<existing hyperedge>, metadata=...) silently keeps the old metadata (the four containers replace it)", _where(v, fed[0].node))
        else:
            res.unknown("P-EMETA", f, f"_edge_metadata[id] = {mpar}", "existing", "how the metadata argument reaches the metadata table was not established", _where(v, v.fi.node))
    # ---- P-EMETA `replace`: metadata handed over for an existing record REPLACES the stored dict.  Updating the stored dict in place
    # changes an object the container may share with whoever supplied it (the first insertion stores the caller's dict by
    # reference; MultiplexHypergraph.aggregated_hypergraph hands its own per-record dicts to Hypergraph.add_edge)
    for c_ in walk_no_nested(v.fi.node):
        hit = None
        if isinstance(c_, ast.Call) and isinstance(c_.func, ast.Attribute) and c_.func.attr in ("update", "setdefault", "pop", "clear") and isinstance(c_.func.value, ast.Subscript) and is_self_attr(c_.func.value.value, "_edge_metadata"):
            hit = c_
        if isinstance(c_, (ast.Assign, ast.AugAssign)):
            for t_ in (c_.targets if isinstance(c_, ast.Assign) else [c_.target]):
                if isinstance(t_, ast.Subscript) and isinstance(t_.value, ast.Subscript) and is_self_attr(t_.value.value, "_edge_metadata"):
                    hit = c_
        if isinstance(c_, ast.AugAssign) and isinstance(c_.op, ast.BitOr) and isinstance(c_.target, ast.Subscript) and is_self_attr(c_.target.value, "_edge_metadata"):
            hit = c_
        if hit is not None:
            res.violation("P-EMETA", f, norm(hit)[:80], "replace", f"`{norm(hit)[:50]}` changes the STORED metadata dict in place: that dict is the very object a caller handed in on the first insertion (or another container's own record, as in aggregated_hypergraph), so re-inserting a hyperedge rewrites somebody else's data; the metadata of an existing record is replaced by assignment", _where(v, hit))
    # ---- P-ACCUM: weight writes outside the fresh branch are `+= weight` under the weighted flag
    wparam = "weight"
    outside = []
    for o in [o for o in v.ops() if o.table == "_weights" and o.op in ("store", "aug") and not o.elem_level and not o.may]:
        oid = _cfgid(v, o.at)
        in_fresh = any(v.cfg.branch_dominated(tid, lab, oid) for tid, lab, _ in fresh_nodes)
        if in_fresh:
            res.check(o.op == "store", "P-ACCUM", f, norm(o.node), "fresh", "the weight of a new record is accumulated instead of set", _where(v, o.node))
            continue
        outside.append(o)
        def from_weight(e):
            """the value is the caller's weight (possibly through a local that defaults it: `1 if weight is None else weight`)"""
            e = v.inline(e) if e is not None else None
            return e is not None and any(isinstance(x, ast.Name) and x.id == wparam for x in ast.walk(e)) and not any(isinstance(x, ast.BinOp) for x in ast.walk(e))

        is_acc = o.op == "aug" and isinstance(o.node.op, ast.Add) and from_weight(o.value)
        if not is_acc and o.op == "store":
            val = o.value
            is_acc = (
                isinstance(val, ast.BinOp)
                and isinstance(val.op, ast.Add)
                and any(from_weight(x) for x in (val.left, val.right))
                and any(isinstance(v.inline(x), ast.Subscript) and any(t[1] == "_weights" for t in v.tables_of(v.inline(x).value)) for x in (val.left, val.right))
            )
        res.check(is_acc, "P-ACCUM", f, norm(o.node), "existing", "re-inserting an existing hyperedge must add the new weight to the stored one (`+= weight`)", _where(v, o.node))
        res.check(_under_flag(v, o.at, "_weighted", True), "P-ACCUM", f, norm(o.node), "weighted-only", "the weight of an existing record is changed although the hypergraph may be unweighted (re-insert must be idempotent)", _where(v, o.node))
        # the merge does not depend on whether metadata was supplied: `elif metadata is not None: <replace> elif self._weighted: += weight`
        # skips the accumulation for a re-insertion that carries metadata (remove_node(keep_edges=True) always hands metadata on)
        if is_acc:
            aid = v.cfg_id(o.at)
            dep = None
            for iff in walk_no_nested(v.fi.node):
                if not isinstance(iff, ast.If) or aid is None:
                    continue
                tid = v.cfg.by_ast.get(id(iff.test))
                if tid is None:
                    continue
                names = {x.id for x in ast.walk(iff.test) if isinstance(x, ast.Name)}
                if "metadata" in names and "weight" not in names and any(v.cfg.branch_dominated(tid, lab, aid) for lab in ("T", "F")):
                    dep = iff
            # ... nor on whether a weight was supplied: an omitted weight means 1 for a repeated insertion as it does for the first one
            # (`if self._weighted and weight is not None: += weight` with the default moved into the new-record arm makes
            # add_edges(batch) / the constructor - which hand no weight on - stop counting repeats)
            depw = None
            for iff in walk_no_nested(v.fi.node):
                if not isinstance(iff, ast.If) or aid is None:
                    continue
                tid = v.cfg.by_ast.get(id(iff.test))
                if tid is None:
                    continue
                for c_ in ast.walk(iff.test):
                    if isinstance(c_, ast.Compare) and len(c_.ops) == 1 and isinstance(c_.ops[0], (ast.Is, ast.IsNot)) and isinstance(c_.left, ast.Name) and c_.left.id == wparam and isinstance(c_.comparators[0], ast.Constant) and c_.comparators[0].value is None:
                        lab = _implied_branch(iff.test, c_, isinstance(c_.ops[0], ast.IsNot))  # the branch on which a weight WAS given
                        if lab and v.cfg.branch_dominated(tid, lab, aid):
                            depw = iff
            res.check(depw is None, "P-ACCUM", f, norm(o.node), "omitted-weight-is-1", f"the weight of an existing record is accumulated only when `{norm(depw.test)[:50] if depw is not None else ''}`: a repeated insertion without a weight (add_edges without weights, the constructor) no longer adds the default 1", _where(v, o.node))
            res.check(dep is None, "P-ACCUM", f, norm(o.node), "whatever-the-metadata", f"the weight of an existing record is accumulated only on one side of `{norm(dep.test)[:50] if dep is not None else ''}`: a re-insertion that carries metadata (or one that does not) replaces the metadata and loses the weight it should add", _where(v, o.node))
    if not outside:
        via = [o for o in v.ops(with_calls=True) if o.table == "_weights" and o.op in ("store", "aug") and o.via]
        if via:
            res.unknown("P-ACCUM", f, norm(via[0].node), "exists", f"weight accumulation may happen inside {via[0].via}", _where(v, via[0].node))
        else:
            _absent(res, v, "P-ACCUM", "self._weights[id] += weight", "exists", "no accumulation of the weight when an existing hyperedge is re-inserted", _where(v, v.fi.node))
    else:
        res.ok("P-ACCUM", f, "self._weights[id] += weight", "exists", _where(v, v.fi.node))
    # ---- metadata: stores outside the fresh branch must be conditional on metadata having been supplied
    for o in [o for o in v.ops() if o.table == "_edge_metadata" and o.op == "store" and not o.elem_level and not o.may]:
        oid = _cfgid(v, o.at)
        if any(v.cfg.branch_dominated(tid, lab, oid) for tid, lab, _ in fresh_nodes):
            continue
        guarded = _under_not_none(v, o.at, "metadata")
        res.check(guarded, "P-FRESH", f, norm(o.node), "_edge_metadata:reinsert", "metadata of an existing hyperedge is overwritten on re-insert even when no metadata was supplied", _where(v, o.node))


def _check_id_source(v: FuncView, res: Result, st: TOp, sid: int):
    f = v.fi.short
    val = st.value
    src = _resolve_alias(v, val, sid)
    is_counter = src is not None and is_self_attr(src, "_next_edge_id")
    res.check(
        is_counter,
        "P-ID",
        f,
        norm(st.node),
        "source",
        "the id of a new record is not taken from the monotone counter _next_edge_id (ids of live records could be reused)",
        _where(v, st.node),
    )
    incs = [o for o in v.ops() if o.table == "_next_edge_id" and o.op == "setattr"]

    def advances(o):
        n = o.node
        if isinstance(n, ast.AugAssign):
            return isinstance(n.op, ast.Add) and isinstance(n.value, ast.Constant) and isinstance(n.value.value, int) and n.value.value > 0
        if isinstance(n, ast.Assign) and isinstance(n.value, ast.BinOp) and isinstance(n.value.op, ast.Add):
            # self._next_edge_id = <the value just read from the counter> + c
            for a, b in ((n.value.left, n.value.right), (n.value.right, n.value.left)):
                if isinstance(b, ast.Constant) and isinstance(b.value, int) and b.value > 0:
                    srcx = _resolve_alias(v, a, _cfgid(v, o.at)) if isinstance(a, ast.Name) else a
                    if srcx is not None and is_self_attr(srcx, "_next_edge_id"):
                        return True
        return False

    good = [o for o in incs if advances(o)]
    for o in incs:
        res.check(o in good, "P-ID", f, norm(o.node), "advance", "the id counter is assigned instead of advanced by a positive constant", _where(v, o.node))
    ids = {_cfgid(v, o.at) for o in good}
    res.check(bool(good) and v.passes_through(sid, ids), "P-ID", f, norm(st.node), "advance-on-path", "a path creates a record without advancing the id counter", _where(v, st.node))


def _resolve_alias(v: FuncView, expr, at_id: int, depth=0):
    """Follow `x = <expr>` assignments (the unique dominating definition) back to a non-Name expression."""
    if not isinstance(expr, ast.Name) or depth > 4:
        return expr
    defs = []
    for n in walk_no_nested(v.fi.node):
        if isinstance(n, ast.Assign) and len(n.targets) == 1 and isinstance(n.targets[0], ast.Name) and n.targets[0].id == expr.id:
            defs.append(n)
    cands = [d for d in defs if v.cfg.dominates(_cfgid(v, d), at_id)]
    if not cands:
        return None
    # the closest dominating definition
    best = None
    for d in cands:
        if best is None or v.cfg.dominates(_cfgid(v, best), _cfgid(v, d)):
            best = d
    # no other definition may intervene on a path best -> at
    for d in defs:
        if d is best:
            continue
        did = _cfgid(v, d)
        if v.cfg.reachable(_cfgid(v, best), did) and v.cfg.reachable(did, at_id) and did != at_id:
            if not v.cfg.dominates(did, _cfgid(v, best)):
                return None
    return _resolve_alias(v, best.value, _cfgid(v, best), depth + 1)


def _under_flag(v: FuncView, node, flag: str, want: bool) -> bool:
    """node is only reached on a branch where self.<flag> is `want`."""
    nid = _cfgid(v, node)
    for n in walk_no_nested(v.fi.node):
        if isinstance(n, (ast.If,)):
            for atom, pos in _atoms(n.test, True):
                ra = v.resolve(atom) if isinstance(atom, ast.Name) else atom  # weighted = self._weighted; if weighted:
                if is_self_attr(ra, flag) or (isinstance(ra, ast.Call) and isinstance(ra.func, ast.Attribute) and ra.func.attr == "is_weighted" and flag == "_weighted"):
                    lab = _implied_branch(n.test, atom, want)
                    if lab and v.cfg.branch_dominated(v.cfg.by_ast[id(n.test)], lab, nid):
                        return True
    return False


def _under_not_none(v: FuncView, node, name: str) -> bool:
    nid = _cfgid(v, node)
    for n in walk_no_nested(v.fi.node):
        if isinstance(n, ast.If):
            for atom, pos in _atoms(n.test, True):
                if isinstance(atom, ast.Compare) and len(atom.ops) == 1 and isinstance(atom.left, ast.Name) and atom.left.id == name and isinstance(atom.comparators[0], ast.Constant) and atom.comparators[0].value is None:
                    want = isinstance(atom.ops[0], ast.IsNot)  # atom true means "not None" when IsNot
                    lab = _implied_branch(n.test, atom, True if want else False)
                    if isinstance(atom.ops[0], (ast.Is, ast.IsNot)) and lab and v.cfg.branch_dominated(v.cfg.by_ast[id(n.test)], lab, nid):
                        # make sure `name` was not defaulted before (metadata = {} when None)
                        return not _defaulted_before(v, name, n)
                elif isinstance(atom, ast.Name) and atom.id == name:
                    lab = _implied_branch(n.test, atom, True)
                    if lab and v.cfg.branch_dominated(v.cfg.by_ast[id(n.test)], lab, nid):
                        return not _defaulted_before(v, name, n)
    return False


def _defaulted_before(v: FuncView, name: str, ifnode) -> bool:
    """`if name is None: name = {...}` earlier in the function makes a later `name is not None` test vacuous."""
    tid = v.cfg.by_ast[id(ifnode.test)]
    for n in walk_no_nested(v.fi.node):
        if isinstance(n, ast.Assign) and any(isinstance(t, ast.Name) and t.id == name for t in n.targets):
            if v.cfg.reachable(_cfgid(v, n), tid) and _cfgid(v, n) != tid:
                return True
    return False


def check_record_creation_guarded(ctx, res: Result, cls: str, skip=("add_edge", "set_edge_list", "populate_from_dict", "__init__")):
    """Outside add_edge as well: a store `_edge_list[k] = id` must be dominated by `k not in _edge_list`
    (re-keying a record onto an existing key silently overwrites that record)."""
    for name, fi in ctx.methods(cls).items():
        if name in skip:
            continue
        v = ctx.view(fi)
        stores = _writes(v, "_edge_list", ("store",))
        tests = _membership_tests(v, "_edge_list") if stores else []
        for st in stores:
            sid = _cfgid(v, st.at)
            ok = False
            for ifn, keyexpr, positive, atom in tests:
                if not _same_expr(keyexpr, st.key, v):
                    continue
                is_in = isinstance(atom.ops[0], ast.In)
                lab = _implied_branch(ifn.test, atom, not is_in)
                if lab and v.cfg.branch_dominated(v.cfg.by_ast[id(ifn.test)], lab, sid):
                    ok = True
            if not ok and name.startswith("_") and not name.startswith("__"):
                # a private helper that registers the record for a key it is handed: the freshness test belongs to its callers
                pn = [a.arg for a in fi.params]
                key_from_param = st.key is not None and any(isinstance(x, ast.Name) and x.id in pn for x in ast.walk(v.inline(st.key)))
                if key_from_param:
                    callers_ok, n_calls = True, 0
                    for cname, cfi in ctx.methods(cls).items():
                        cv = ctx.view(cfi)
                        for c in walk_no_nested(cfi.node):
                            if isinstance(c, ast.Call) and fi in ctx.callees(cfi, c):
                                n_calls += 1
                                cid = _cfgid(cv, c)
                                karg = None
                                for i, a in enumerate(c.args):
                                    if i + 1 < len(pn) and isinstance(st.key, ast.Name) and pn[i + 1] == st.key.id:
                                        karg = a
                                for kw in c.keywords:
                                    if isinstance(st.key, ast.Name) and kw.arg == st.key.id:
                                        karg = kw.value
                                if karg is None or _fresh_guard(cv, "_edge_list", karg, cid) is None:
                                    callers_ok = False
                                    # a PUBLIC method hands the record-creating helper a key it never tested (and did not just
                                    # remove): an existing record under that key is overwritten with a second id
                                    public = not cname.startswith("_") and cname not in skip
                                    closed = not any(isinstance(x, (ast.FunctionDef, ast.AsyncFunctionDef, ast.Lambda)) and x is not cfi.node for x in ast.walk(cfi.node))
                                    any_test = any(_same_expr(m_.key, karg, cv) for m_ in _membership_atoms(cv, "_edge_list")) if karg is not None else True
                                    removed = karg is not None and any(
                                        (o.op in ("del", "pop") and o.table == "_edge_list" and o.key is not None and _same_expr(o.key, karg, cv)) for o in cv.ops(False)
                                    )
                                    if public and closed and karg is not None and not any_test and not removed:
                                        res.violation("P-FRESH", cfi.short, norm(c), "_edge_list:helper-call", f"{fi.short} creates a record under a fresh id for the key it is handed; this call hands it `{norm(karg)}` without a `not in _edge_list` test: an existing record under that key is overwritten (two ids, weight not merged)", _where(cv, c))
                    if n_calls and callers_ok:
                        res.ok("P-FRESH", fi.short, norm(st.node), "_edge_list", _where(v, st.node))
                    else:
                        res.unknown("P-FRESH", fi.short, norm(st.node), "_edge_list", "the record is created by a private helper for a key it is handed; the freshness test of its callers was not established", _where(v, st.node))
                    continue
                # (a may-store through a variable that ranges over several tables, a key that is not a plain parameter ...)
                res.unknown("P-FRESH", fi.short, norm(st.node), "_edge_list", "the record is created by a private helper; the freshness test of its callers was not established", _where(v, st.node))
                continue
            res.check(ok, "P-FRESH", fi.short, norm(st.node), "_edge_list", "an edge record is (re-)keyed without a dominating `key not in _edge_list` test: an existing record under that key is overwritten instead of merged", _where(v, st.node))


def _opaque_guard(v: FuncView, node) -> bool:
    """`node` stands under an `if` whose test is (a field of) a local that was assigned from a call - a verdict computed by
    another function, not a test this function spells out"""
    for iff in v.enclosing_all(node, (ast.If,)):
        for x in ast.walk(iff.test):
            r = x
            while isinstance(r, ast.Attribute):
                r = r.value
            if isinstance(r, ast.Name) and r.id != "self" and r is not x or (isinstance(x, ast.Name) and x.id != "self"):
                nm = r.id if isinstance(r, ast.Name) else None
                if nm is None:
                    continue
                d = v.resolve(ast.Name(id=nm, ctx=ast.Load()))
                defs = [a for a in walk_no_nested(v.fi.node) if isinstance(a, ast.Assign) and any(isinstance(n, ast.Name) and n.id == nm for t in a.targets for n in ([t] if isinstance(t, ast.Name) else t.elts if isinstance(t, (ast.Tuple, ast.List)) else []))]
                if defs and all(isinstance(a.value, ast.Call) and not (isinstance(a.value.func, ast.Attribute) and a.value.func.attr in ("get", "pop")) for a in defs):
                    return True
    return False


# ----------------------------------------------------------------------------- remove_edge
def check_remove_edge(ctx, res: Result, cls: str):
    v = ctx.view(f"{cls}.remove_edge")
    f = v.fi.short
    dels = [o for o in v.ops(with_calls=True) if o.table == "_edge_list" and o.op == "del" and not o.elem_level]
    if not dels:
        raise AnalysisError(f"{f}: no deletion from _edge_list found (anchor of P-DEL vanished)")
    for d in dels:
        did = _cfgid(v, d.at)
        for tab in T.EDGE_ID_TABLES:
            w = [o for o in v.ops(with_calls=True) if o.table == tab and o.op == "del" and not o.elem_level]
            ids = {v.must_id(o) for o in w}
            if not w:
                _absent(res, v, "P-DEL", norm(d.node), tab, f"removing a hyperedge never deletes its entry from {tab} (stale weight / metadata / reverse index)", _where(v, d.node))
            else:
                every = v.passes_through(did, ids)
                if not every and all(_opaque_guard(v, o.node) for o in w if not o.via):
                    # `if plan.drop_weight: del self._weights[plan.edge_id]`: the deletion hangs on a flag computed elsewhere (by a
                    # planner that was handed the tables); whether the flag is "the entry exists" is not decided here
                    res.unknown("P-DEL", f, norm(d.node), tab, f"the deletion from {tab} is conditional on a value computed by another function", _where(v, d.node))
                else:
                    res.check(every, "P-DEL", f, norm(d.node), tab, f"removing a hyperedge does not delete its entry from {tab} on every path (stale weight / metadata / reverse index)", _where(v, d.node))
            for o in w:
                if o.via or o.may or o.key is None:
                    continue
                kk = v.kind(o.key)
                from .kinds import Fn as _Fn

                # positively another quantity (a node, a key, a weight): wrong.  A value whose kind was not inferred (a field of a
                # plan record, a bound method value) is undecided
                bad = not isinstance(kk, (_Top, Union, _Fn)) and kk != EID
                res.add("P-DEL", f, norm(o.node), tab + ":key", "ok" if kk == EID else ("violation" if bad else "unknown"), "" if not bad else f"deletion key has kind {kk!r}", _where(v, o.node))
        for tab in T.ADJ_TABLES[cls]:
            rm = [o for o in v.ops(with_calls=True) if o.table == tab and o.op == "remove" and o.elem_level]
            ids = {v.lifted(o) for o in rm}
            if not rm:
                _absent(res, v, "P-DEL", norm(d.node), tab, f"removing a hyperedge never removes its id from {tab} of its nodes (stale incidence)", _where(v, d.node))
            else:
                res.check(v.passes_through(did, ids), "P-DEL", f, norm(d.node), tab, f"removing a hyperedge does not remove its id from {tab} of its nodes on every path (stale incidence)", _where(v, d.node))
            for o in rm:
                if o.via or o.may:
                    continue
                loop = v.enclosing(o.at, (ast.For,))
                if loop is None:
                    res.unknown("P-DEL", f, norm(o.node), tab + ":loop", "incidence removal is not inside a loop over the hyperedge's nodes", _where(v, o.node))
                else:
                    ik = v.kind(loop.iter)
                    good = isinstance(ik, (Seq, Lst)) and isinstance(ik.elem, Atom) and ik.elem.name == "NODE"
                    res.add("P-DEL", f, norm(loop.iter), tab + ":iter", "ok" if good else "unknown", "" if good else f"loop iterates over {ik!r}", _where(v, loop))


def check_sides_kept(ctx, res: Result, rule="K-SIDES"):
    """DirectedHypergraph.add_edge stores the source set and the target set AS GIVEN (canonicalised, nothing else): neither side is
    filtered by membership in the other.  A node may legitimately sit on both sides (the directed configuration model swaps
    sources among sources and targets among targets independently); dropping it from one side changes degrees and shapes."""
    v = ctx.view("DirectedHypergraph.add_edge")
    f = v.fi.short
    n = 0
    for c in walk_no_nested(v.fi.node):
        gens = c.generators if isinstance(c, (ast.GeneratorExp, ast.ListComp, ast.SetComp)) else []
        for g in gens:
            for cond in g.ifs:
                for cmp_ in ast.walk(cond):
                    if isinstance(cmp_, ast.Compare) and len(cmp_.ops) == 1 and isinstance(cmp_.ops[0], (ast.NotIn, ast.In)) and isinstance(cmp_.comparators[0], ast.Name) and isinstance(g.iter, ast.Name) and cmp_.comparators[0].id != g.iter.id:
                        a_, b_ = g.iter.id, cmp_.comparators[0].id
                        if {a_, b_} <= {"source", "target", "src", "tgt", "sources", "targets", "head", "tail"}:
                            n += 1
                            res.violation(rule, f, norm(c)[:100], f"{a_} vs {b_}", f"`{a_}` is filtered by membership in `{b_}`: a node listed on both sides of a hyperedge is silently dropped from one of them, so the stored hyperedge is not the one that was handed in (its shape, and the node's in- / out-degree, change)", _where(v, c))
        if isinstance(c, ast.BinOp) and isinstance(c.op, (ast.Sub, ast.BitXor)):
            names = [x.id for x in ast.walk(c) if isinstance(x, ast.Name)]
            if {"source", "target"} <= set(names) and any(isinstance(x, ast.Call) and isinstance(x.func, ast.Name) and x.func.id in ("set", "frozenset") for x in ast.walk(c)):
                n += 1
                res.violation(rule, f, norm(c)[:100], "source vs target", "one side of the hyperedge is reduced by the members of the other (set difference): a node on both sides is dropped from one of them", _where(v, c))
    if n == 0:
        res.ok(rule, f, "neither side is filtered by the other", "scan", _where(v, v.fi.node))


def _planner_guard(ctx, v: FuncView, node) -> bool:
    """`node` stands under an `if` whose test reads a local that was assigned from a call of a REPOSITORY function (a planner that
    returns a verdict / an action tag), possibly by tuple unpacking"""
    for iff in v.enclosing_all(node, (ast.If,)):
        for x in ast.walk(iff.test):
            r = x
            while isinstance(r, ast.Attribute):
                r = r.value
            if not isinstance(r, ast.Name) or r.id == "self":
                continue
            for a in walk_no_nested(v.fi.node):
                if isinstance(a, ast.Assign) and isinstance(a.value, ast.Call) and any(isinstance(n_, ast.Name) and n_.id == r.id for t in a.targets for n_ in ([t] if isinstance(t, ast.Name) else t.elts if isinstance(t, (ast.Tuple, ast.List)) else [])):
                    if ctx.callees(v.fi, a.value):
                        return True
    return False


def check_record_counters(ctx, res: Result, cls: str, rule="P-COUNT"):
    """A table of the class that some method decrements by one per removed record (`self._times[t] -= 1`) counts RECORDS.  Its
    increment in add_edge therefore stands on the branch that creates a record (the branch of the `_edge_list[key] = id` store): an
    increment that also runs when the key exists already (add_edge then only merges the weight) counts insertions, and the count
    never returns to zero after the record is removed."""
    res.rules.setdefault(rule, "a per-key record counter that is decremented per removed record is incremented in add_edge only on the branch that creates a record (never on the path that merges into an existing one)")
    ms = ctx.methods(cls)
    dec = {}
    for name_, mfi in ms.items():
        for n in ast.walk(mfi.node):
            if isinstance(n, ast.AugAssign) and isinstance(n.op, ast.Sub) and isinstance(n.value, ast.Constant) and n.value.value == 1 and isinstance(n.target, ast.Subscript) and is_self_attr(n.target.value):
                dec.setdefault(n.target.value.attr, (mfi, n))
    add = ms.get("add_edge")
    if not dec or add is None:
        res.ok(rule, cls, "no per-key record counter", "scan", loc(add, add.node) if add is not None else cls)
        return
    v = ctx.view(add)
    f = add.short
    creates = [o for o in v.ops() if o.table == "_edge_list" and o.op == "store"]
    for attr, (dfi, dn) in sorted(dec.items()):
        incs = []
        for n in walk_no_nested(add.node):
            tg = None
            if isinstance(n, ast.AugAssign) and isinstance(n.op, ast.Add) and isinstance(n.value, ast.Constant) and n.value.value == 1:
                tg = n.target
            elif isinstance(n, ast.Assign) and len(n.targets) == 1 and isinstance(n.value, ast.BinOp) and isinstance(n.value.op, ast.Add) and isinstance(n.value.right, ast.Constant) and n.value.right.value == 1:
                tg = n.targets[0]
            if isinstance(tg, ast.Subscript) and is_self_attr(tg.value) and tg.value.attr == attr:
                incs.append(n)
        if not incs:
            res.unknown(rule, f, f"self.{attr}[...] += 1", attr, f"`{attr}` is decremented in {dfi.short} but no increment was recognised in add_edge", loc(add, add.node))
            continue
        for inc in incs:
            iid = v.cfg_id(inc)
            guarded = None
            for c_ in creates:
                sid = v.cfg_id(c_.node)
                for iff in v.enclosing_all(c_.node, (ast.If,)):
                    tid = v.cfg.by_ast.get(id(iff.test))
                    if tid is None or sid is None or iid is None:
                        continue
                    for lab in ("T", "F"):
                        if v.cfg.branch_dominated(tid, lab, sid):
                            guarded = v.cfg.branch_dominated(tid, lab, iid) or bool(guarded)
            if guarded is None:
                res.unknown(rule, f, norm(inc), attr, "the branch that creates a record was not recognised", loc(add, inc))
            else:
                res.check(guarded, rule, f, norm(inc), attr, f"`{norm(inc)[:60]}` runs on every call of add_edge, also when the key exists already and only the weight is merged; {dfi.short} takes one off per removed RECORD (`{norm(dn)}`), so after a repeated insertion the count of `{attr}` never returns to zero and what is derived from its keys (min / max / membership) reports something that has no record", loc(add, inc))


def check_keyed_memo_invalidation(ctx, res: Result, cls: str, rule="E-CACHE"):
    """A table of remembered query results keyed by the query's arguments (`self._order_views[(order, up_to)] = view`).  When the value
    stored under a key is computed with an INEQUALITY against a component of the key (`len(edge) - 1 <= order`), it depends on the
    records of a whole range of orders; dropping, after an insertion / removal, only the entries whose key component EQUALS the
    changed record's order (`self._order_views.pop((order, True), None)`) leaves the entries of the larger orders stale.  Reported
    when the remembering method computes such a range-dependent value and no mutator-side invalidation clears the table as a whole."""
    ms = ctx.methods(cls)
    tabs = set(getattr(ctx.interp, "class_tables", {}).get(cls, {}) or {})
    fills = []
    for name_, mfi in ms.items():
        if name_ == "__init__":
            continue
        for a in walk_no_nested(mfi.node):
            if isinstance(a, ast.Assign) and len(a.targets) == 1 and isinstance(a.targets[0], ast.Subscript) and is_self_attr(a.targets[0].value) and a.targets[0].value.attr not in tabs:
                attr = a.targets[0].value.attr
                # filled under a "not remembered yet" test of the same table
                v = ctx.view(mfi)
                guarded = any(any(is_self_attr(x) and x.attr == attr for x in ast.walk(i_.test)) for i_ in v.enclosing_all(a, (ast.If,)))
                if guarded:
                    fills.append((attr, mfi, a))
    for attr, mfi, a in fills:
        v = ctx.view(mfi)
        key = v.inline(a.targets[0].slice, depth=2)
        knames = {x.id for x in ast.walk(key) if isinstance(x, ast.Name)}
        # every definition of the stored value in the method
        vals = [a.value] + [d.value for d in walk_no_nested(mfi.node) if isinstance(a.value, ast.Name) and isinstance(d, ast.Assign) and any(isinstance(t, ast.Name) and t.id == a.value.id for t in d.targets)]
        rng = None
        for val in vals:
            for c in ast.walk(val):
                if isinstance(c, ast.Compare) and any(isinstance(o, (ast.Lt, ast.LtE, ast.Gt, ast.GtE)) for o in c.ops) and knames & {x.id for x in ast.walk(c) if isinstance(x, ast.Name)}:
                    rng = c
        if rng is None:
            continue
        # invalidations anywhere in the class
        whole, point = [], []
        for name2, m2 in ms.items():
            for n in walk_no_nested(m2.node):
                if isinstance(n, ast.Call) and isinstance(n.func, ast.Attribute) and is_self_attr(n.func.value) and n.func.value.attr == attr:
                    if n.func.attr == "clear":
                        whole.append((m2, n))
                    elif n.func.attr == "pop":
                        point.append((m2, n))
                if isinstance(n, ast.Delete) and any(isinstance(t, ast.Subscript) and is_self_attr(t.value) and t.value.attr == attr for t in n.targets):
                    point.append((m2, n))
                if isinstance(n, ast.Assign) and any(is_self_attr(t) and t.attr == attr for t in n.targets) and name2 != "__init__":
                    whole.append((m2, n))
        # the whole-table resets that the record mutators reach (add_edge / remove_edge, directly or through a private helper)
        reach = set()
        for mname in ("add_edge", "remove_edge"):
            if mname in ms:
                reach.add(ms[mname].qualname)
                for n in ast.walk(ms[mname].node):
                    if isinstance(n, ast.Call) and isinstance(n.func, ast.Attribute) and is_self_attr(n.func):
                        for c_ in ctx.callees(ms[mname], n):
                            reach.add(c_.qualname)
        whole_r = [w for w in whole if w[0].qualname in reach]
        point_r = [p_ for p_ in point if p_[0].qualname in reach]
        if point_r and not whole_r:
            m2, n = point_r[0]
            res.violation(rule, mfi.short, norm(a)[:80], f"range-keyed:{attr}", f"the value remembered under `{norm(a.targets[0].slice)[:30]}` is computed with `{norm(rng)[:40]}` - it covers the records of a RANGE of orders - but add_edge / remove_edge only drop single entries ({m2.short}: `{norm(n)[:50]}`): after a record of a smaller order comes or goes, the entry of a larger order still lists the old records", loc(mfi, a))
        else:
            res.ok(rule, mfi.short, norm(a)[:80], f"range-keyed:{attr}", loc(mfi, a))


def check_shallow_checkpoint(ctx, res: Result, cls: str, rule="E-CHECKPOINT"):
    """A checkpoint / snapshot of the tables that is meant to be restored later (`{"_adj": dict(self._adj), ...}`) copies the incidence
    table ONE level deep: the per-node lists are the live ones, so ids appended to them afterwards survive the "rollback" and later
    point at whatever hyperedge re-uses the rewound id."""
    res.rules.setdefault(rule, "a saved copy of an incidence table that may be restored later copies the per-node lists too (never `dict(self._adj)` alone)")
    tabs = getattr(ctx.interp, "class_tables", {}).get(cls, {}) or {}
    from .kinds import Dct, Lst, St

    listy = {t for t, k in tabs.items() if isinstance(k, Dct) and isinstance(k.val, (Lst, St))}
    n = 0
    for name_, mfi in sorted(ctx.methods(cls).items()):
        if name_ in ("copy", "__deepcopy__", "__copy__"):
            continue
        for d in ast.walk(mfi.node):
            if not isinstance(d, ast.Dict):
                continue
            for k_, v_ in zip(d.keys, d.values):
                src = None
                if isinstance(v_, ast.Call) and isinstance(v_.func, ast.Name) and v_.func.id == "dict" and len(v_.args) == 1 and is_self_attr(v_.args[0]):
                    src = v_.args[0].attr
                elif isinstance(v_, ast.Call) and isinstance(v_.func, ast.Attribute) and v_.func.attr == "copy" and is_self_attr(v_.func.value) and not v_.args:
                    src = v_.func.value.attr
                if src in listy and isinstance(k_, ast.Constant) and k_.value == src:
                    # restored somewhere: setattr(self, name, value) over a mapping, or self.<src> = <mapping>[...]
                    restores = any(isinstance(c, ast.Call) and isinstance(c.func, ast.Name) and c.func.id == "setattr" and c.args and isinstance(c.args[0], ast.Name) and c.args[0].id == "self" for m2 in ctx.methods(cls).values() for c in ast.walk(m2.node))
                    if restores:
                        n += 1
                        res.violation(rule, mfi.short, norm(v_)[:60], src, f"the saved state holds `{norm(v_)}` - a one-level copy of {src}: the per-node lists are shared with the live table, so what is appended to them after the checkpoint is still there after the tables are put back (stale ids that later belong to other hyperedges)", loc(mfi, v_))
    if n == 0:
        res.ok(rule, cls, "no one-level checkpoint of an incidence table", "scan", ctx.prog.cls(cls).module.relpath)


def check_weight_accumulation_guarded(ctx, res: Result, cls: str, rule="P-ACCUM"):
    """Wherever a record's weight is ADDED to (`self._weights[id] += w`) - add_edge on an existing key, a hand-written merge in
    remove_node(keep_edges=True) - the hypergraph must be weighted: in an unweighted one every weight stays 1 (re-insertion is
    idempotent).  The accumulation stands under a test of the weightedness flag."""
    n = 0
    for name, fi in sorted(ctx.methods(cls).items()):
        v = ctx.view(fi)
        for o in [o for o in v.ops() if o.table == "_weights" and o.op == "aug" and not o.elem_level and not o.may]:
            if not isinstance(getattr(o.node, "op", None), ast.Add):
                continue
            n += 1
            oid = _cfgid(v, o.at)
            guarded = False
            for iff in walk_no_nested(fi.node):
                if not isinstance(iff, (ast.If, ast.IfExp)):
                    continue
                t_i = v.inline(iff.test, depth=2)
                about = any((isinstance(x, ast.Attribute) and x.attr in ("_weighted",)) or (isinstance(x, ast.Call) and isinstance(x.func, ast.Attribute) and x.func.attr == "is_weighted") or (isinstance(x, ast.Name) and "weighted" in x.id) for x in ast.walk(t_i))
                tid = v.cfg.by_ast.get(id(iff.test))
                if about and tid is not None and any(v.cfg.branch_dominated(tid, lab, oid) for lab in ("T", "F")):
                    guarded = True
            if guarded:
                res.ok(rule, fi.short, norm(o.node), "weighted-only:" + name, _where(v, o.node))
            elif _planner_guard(ctx, v, o.node):
                res.unknown(rule, fi.short, norm(o.node), "weighted-only:" + name, "the accumulation stands on a branch chosen by a value another function computed (a planner that was handed the weightedness flag)", _where(v, o.node))
            elif name.startswith("_") and not name.startswith("__"):
                res.unknown(rule, fi.short, norm(o.node), "weighted-only:" + name, "a private helper accumulates a weight without testing the weightedness flag itself; whether its callers do was not established", _where(v, o.node))
            else:
                res.violation(rule, fi.short, norm(o.node), "weighted-only:" + name, f"`{norm(o.node)[:50]}` adds to the weight of an existing record without a test of the weightedness flag: in an UNWEIGHTED hypergraph the merged hyperedge ends up with weight 2, 3, ... instead of 1 (add_edge, which the other paths go through, only accumulates when weighted)", _where(v, o.node))
    if n == 0:
        res.ok(rule, cls, "no hand-written weight accumulation", "weighted-only", "")


def check_id_monotone(ctx, res: Result, cls: str, rule="P-IDMONO"):
    """Edge ids are handed out by a counter that only grows: records keep their id for life, and tables keyed by id (weights,
    metadata, reverse index, incidence lists) rely on an id never being given to a second hyperedge while the first is alive.
    Outside the constructors / loaders / clear(), every write of `_next_edge_id` is an increment."""
    resets = {"__init__", "clear", "populate_from_dict", "set_edge_list", "set_adj_dict", "__setstate__"}
    # private helpers that only the constructors / loaders call (`_init_tables`, `_create_tables`) reset too
    callers = {}
    for m_ in ctx.methods(cls).values():
        for c_ in walk_no_nested(m_.node):
            if isinstance(c_, ast.Call):
                for g_ in ctx.callees(m_, c_):
                    callers.setdefault(g_.name, set()).add(m_.name)
    grew = True
    while grew:
        grew = False
        for nm_, cs_ in callers.items():
            if nm_ not in resets and cs_ and cs_ <= resets:
                resets.add(nm_)
                grew = True
    n = 0
    for name, fi in sorted(ctx.methods(cls).items()):
        if name in resets:
            continue
        v = ctx.view(fi)
        for st in walk_no_nested(fi.node):
            tg = None
            if isinstance(st, ast.AugAssign) and is_self_attr(st.target, "_next_edge_id"):
                n += 1
                ok = isinstance(st.op, ast.Add) and not (isinstance(st.value, ast.UnaryOp) and isinstance(st.value.op, ast.USub)) and not (isinstance(st.value, ast.Constant) and isinstance(st.value.value, (int, float)) and st.value.value < 0)
                res.check(ok, rule, fi.short, norm(st), "increment", "the edge-id counter is decreased: an id that a live hyperedge still holds can be handed out again (its weight / metadata / reverse-index entry is overwritten)", _where(v, st))
            elif isinstance(st, ast.Assign) and any(is_self_attr(t, "_next_edge_id") for t in st.targets):
                n += 1
                val = v.inline(st.value, depth=2)

                def is_counter(x):
                    if is_self_attr(x, "_next_edge_id"):
                        return True
                    if isinstance(x, ast.Name):
                        r = v.reaching(x)
                        if r is None:
                            r2 = v.resolve(x)
                            r = r2 if r2 is not x else None
                        return r is not None and is_self_attr(r, "_next_edge_id")
                    return False

                raw = st.value
                inc = any(isinstance(e_, ast.BinOp) and isinstance(e_.op, ast.Add) and any(is_counter(x) for x in (e_.left, e_.right)) and any(isinstance(x, ast.Constant) and isinstance(x.value, int) and x.value > 0 for x in (e_.left, e_.right)) for e_ in (val, raw))
                grows = isinstance(val, ast.Call) and isinstance(val.func, ast.Name) and val.func.id == "max" and any(is_self_attr(a_, "_next_edge_id") or any(is_self_attr(y, "_next_edge_id") for y in ast.walk(a_)) for a_ in val.args)
                # positively wrong: the counter is set from a COUNT of records, or inside a removal from the id that was removed
                from_count = any(isinstance(x, ast.Call) and isinstance(x.func, ast.Name) and x.func.id == "len" for x in ast.walk(val))
                in_removal = fi.name.startswith(("remove", "_remove", "discard", "_discard", "pop", "_drop", "drop"))
                if inc or grows:
                    res.ok(rule, fi.short, norm(st), "increment", _where(v, st))
                elif not (from_count or in_removal):
                    res.unknown(rule, fi.short, norm(st)[:100], "increment", "the new value of the id counter was not recognised as `counter + 1`", _where(v, st))
                else:
                    res.violation(rule, fi.short, norm(st)[:100], "increment", f"`{fi.name}` sets the edge-id counter to `{norm(st.value)[:40]}` instead of advancing it: after removals the live ids are not 0..m-1, so a value derived from a removed id or from the number of hyperedges can be an id that is still alive - the next insertion overwrites that record's weight, metadata and reverse-index entry", _where(v, st))
    if n == 0:
        res.unknown(rule, cls, "self._next_edge_id += 1", "increment", "no write of the id counter found outside the constructors", "")


def check_record_deletion_joint(ctx, res: Result, cls: str):
    """P-DELJOINT: a method other than remove_edge that deletes a record's entry from an id-keyed table with its own hands
    (not by calling remove_edge) has the duties of remove_edge on that path: the other id-keyed tables, the key table and the
    incidence lists of the record's nodes lose the id too.  (A re-keying `del _edge_list[k]; _edge_list[k2] = id` is not a
    deletion of the record and is not an anchor.)"""
    n = 0
    for name, fi in sorted(ctx.methods(cls).items()):
        if name in ("remove_edge", "clear", "__init__", "populate_from_dict", "set_edge_list", "set_adj_dict"):
            continue
        if name.startswith("_") and not name.startswith("__"):
            continue  # private helpers (the pieces remove_edge is made of) are judged through the public methods that call them
        v = ctx.view(fi)
        f = fi.short
        allops = v.ops(with_calls=True)
        # deletions done by the method itself or by a private helper it calls - not those reached through remove_edge(s)
        direct = [o for o in allops if o.table in T.EDGE_ID_TABLES and o.op == "del" and not o.elem_level and not o.may and o.cls == cls and (o.via is None or (o.via.split(".")[-1].startswith("_") and not o.via.split(".")[-1].startswith("__")))]
        if not direct:
            continue
        for d in direct:
            n += 1
            did = _cfgid(v, d.at)
            for tab in tuple(T.EDGE_ID_TABLES) + ("_edge_list",):
                if tab == d.table:
                    continue
                w = [o for o in allops if o.table == tab and o.op == "del" and not o.elem_level]
                if not w:
                    _absent(res, v, "P-DELJOINT", norm(d.node), tab, f"{f} deletes a record from {d.table} but never from {tab}: the tables disagree about which hyperedges exist (stale entry)", _where(v, d.node))
                else:
                    res.check(v.passes_through(did, {v.must_id(o) for o in w}), "P-DELJOINT", f, norm(d.node), tab, f"{f} deletes a record from {d.table} on a path that does not delete it from {tab}: the tables disagree about which hyperedges exist (stale entry)", _where(v, d.node))
            for tab in T.ADJ_TABLES[cls]:
                rm = [o for o in allops if o.table == tab and ((o.op == "remove" and o.elem_level) or (o.op == "del" and not o.elem_level))]
                if not rm:
                    _absent(res, v, "P-DELJOINT", norm(d.node), tab, f"{f} deletes a record from {d.table} but never removes its id from the incidence lists in {tab}: nodes keep a stale incidence (degrees, neighbours and components are computed from them)", _where(v, d.node))
                else:
                    ids = {v.lifted(o) if o.elem_level else v.must_id(o) for o in rm}
                    # the incidence list of the node being removed is dropped wholesale (`del _adj[node]`): that covers this
                    # node only - the record's OTHER nodes need an element-level removal
                    elem = [o for o in rm if o.elem_level]
                    if not elem:
                        _absent(res, v, "P-DELJOINT", norm(d.node), tab, f"{f} deletes a record from {d.table} but only drops one node's incidence list: the record's other nodes keep the stale id in {tab} (degrees, neighbours and components are computed from them)", _where(v, d.node))
                    else:
                        res.check(v.passes_through(did, {v.lifted(o) for o in elem}), "P-DELJOINT", f, norm(d.node), tab, f"{f} deletes a record from {d.table} on a path that leaves its id in the incidence lists of {tab}", _where(v, d.node))
    if not n:
        res.ok("P-DELJOINT", cls, "no record deletion outside remove_edge", "scan", "")


def check_batch_insert(ctx, res: Result, cls: str):
    """P-BATCH: add_edges is add_edge repeated - the per-item call is not skipped because the record already exists (a
    re-insertion still accumulates the weight and replaces the metadata), and every item of the batch reaches it."""
    if "add_edges" not in ctx.methods(cls) or "add_edge" not in ctx.methods(cls):
        return
    v = ctx.view(f"{cls}.add_edges")
    f = v.fi.short
    calls = [n for n in walk_no_nested(v.fi.node) if isinstance(n, ast.Call) and isinstance(n.func, ast.Attribute) and is_self_attr(n.func) and n.func.attr == "add_edge"]
    if not calls:
        res.unknown("P-BATCH", f, "self.add_edge(...)", "per-item", "the batch insertion does not call add_edge itself", loc(v.fi, v.fi.node))
        return
    for c in calls:
        lps = v.enclosing_all(c, (ast.For, ast.While))
        if not lps:
            res.unknown("P-BATCH", f, norm(c)[:100], "per-item", "add_edge is not called in a loop over the batch", _where(v, c))
            continue
        lp = lps[0]
        deciders = [i for i in v.enclosing_all(c, (ast.If,)) if any(i is x for x in ast.walk(lp))]
        for i_ in ast.walk(lp):
            if isinstance(i_, ast.If) and i_ not in deciders and i_.lineno < c.lineno and any(isinstance(y, (ast.Continue, ast.Break)) for b_ in i_.body + i_.orelse for y in ast.walk(b_)):
                deciders.append(i_)
        bad = None
        for i_ in deciders:
            t = v.inline(i_.test)
            for x in ast.walk(t):
                if isinstance(x, ast.Compare) and any(isinstance(o, (ast.In, ast.NotIn)) for o in x.ops):
                    for cmp_ in x.comparators:
                        if any(tb in ("_edge_list", "_reverse_edge_list", "_weights", "_edge_metadata") for _, tb, _ in v.tables_of(getattr(cmp_, "_orig", cmp_))):
                            bad = i_
                if isinstance(x, ast.Call) and isinstance(x.func, ast.Attribute) and x.func.attr == "check_edge":
                    bad = i_
        # ... nor collapsed beforehand: a dict keyed by the (canonical) hyperedge that is built from the batch - `staged[tuple(sorted(edge))]
        # = ...`, `dict(zip(map(canon, edge_list), weights))` - holds ONE entry per hyperedge.  Feeding add_edge from its items, or
        # looking the per-item weight / metadata up in it, makes a hyperedge that is listed twice count once (or with its last weight twice)
        def _edge_keyed_dicts():
            out = {}
            for a_ in walk_no_nested(v.fi.node):
                if isinstance(a_, ast.Assign) and len(a_.targets) == 1 and isinstance(a_.targets[0], ast.Subscript) and isinstance(a_.targets[0].value, ast.Name) and v.enclosing(a_, (ast.For, ast.While)) is not None and not v.tables_of(a_.targets[0].value):
                    k_ = v.inline(a_.targets[0].slice, depth=2)
                    if any(isinstance(x, ast.Call) and norm(x.func).split(".")[-1] in ("sorted", "_canon_edge", "_canonical_edge", "_canonical", "tuple") for x in ast.walk(k_)):
                        out[a_.targets[0].value.id] = a_
                if isinstance(a_, ast.Assign) and len(a_.targets) == 1 and isinstance(a_.targets[0], ast.Name) and isinstance(a_.value, ast.Call):
                    vals = [a_.value] + [r_.value for cal in ctx.callees(v.fi, a_.value) for r_ in ast.walk(cal.node) if isinstance(r_, ast.Return) and r_.value is not None]
                    for val in vals:
                        if isinstance(val, ast.DictComp) or (isinstance(val, ast.Call) and isinstance(val.func, ast.Name) and val.func.id == "dict" and val.args and isinstance(val.args[0], ast.Call) and isinstance(val.args[0].func, ast.Name) and val.args[0].func.id == "zip"):
                            ktxt = norm(val.key) if isinstance(val, ast.DictComp) else norm(val.args[0].args[0]) if val.args[0].args else ""
                            if "edge" in ktxt or "canon" in ktxt:
                                out[a_.targets[0].id] = a_
            return out

        dd = _edge_keyed_dicts()
        collapsed = None
        if dd:
            it_names = {x.id for x in ast.walk(lp.iter) if isinstance(x, ast.Name)} if isinstance(lp, ast.For) else set()
            if it_names & set(dd):
                collapsed = (norm(lp.iter)[:50], sorted(it_names & set(dd))[0])
            for a_ in list(c.args) + [k.value for k in c.keywords]:
                for x in ast.walk(a_):
                    if (isinstance(x, ast.Subscript) and isinstance(x.value, ast.Name) and x.value.id in dd) or (isinstance(x, ast.Call) and isinstance(x.func, ast.Attribute) and x.func.attr == "get" and isinstance(x.func.value, ast.Name) and x.func.value.id in dd):
                        collapsed = collapsed or (norm(x)[:50], x.value.id if isinstance(x, ast.Subscript) else x.func.value.id)
        if collapsed is not None:
            res.violation("P-BATCH", f, norm(c)[:100], "per-item:not-collapsed", f"add_edge is fed from `{collapsed[0]}`, and `{collapsed[1]}` is a dict keyed by the hyperedge that is built from the batch: a hyperedge listed twice in one batch (in any node order) has ONE entry there, so its weights are not summed as two add_edge calls would", _where(v, c))
        if bad is not None:
            res.violation("P-BATCH", f, norm(bad.test)[:120], "per-item", "the batch skips (or treats differently) an item whose record already exists: repeating add_edge would still accumulate its weight and replace its metadata, so add_edges no longer agrees with add_edge", _where(v, bad))
        else:
            res.ok("P-BATCH", f, norm(c)[:100], "per-item", _where(v, c))


# ----------------------------------------------------------------------------- nodes
def check_add_node(ctx, res: Result, cls: str):
    v = ctx.view(f"{cls}.add_node")
    f = v.fi.short
    node_tables = T.NODE_TABLES[cls]
    # the "node is new" guard: `node not in <some node table>`
    guards = []
    for tab in node_tables:
        for m in _membership_atoms(v, tab):
            lab = m.absent_branch()
            if lab:
                guards.append((v.cfg.by_ast[id(m.ifnode.test)], lab, m.ifnode))
    if not guards:
        raise AnalysisError(f"{f}: no `node not in <node table>` guard found (anchor of P-NODE vanished)")
    for tab in node_tables:
        w = [o for o in v.ops(with_calls=True) if o.table == tab and o.op == "store" and not o.elem_level]
        in_guard = [o for o in w if any(v.cfg.branch_dominated(t, l, _cfgid(v, o.at)) for t, l, _ in guards)]
        if not in_guard:
            _absent(res, v, "P-NODE", f"{tab}[node] = ...", tab + ":init", f"a new node gets no entry in {tab}", _where(v, v.fi.node))
        else:
            res.ok("P-NODE", f, f"{tab}[node] = ...", tab + ":init", _where(v, v.fi.node))
        for o in w:
            if o in in_guard or o.via or o.may:
                continue
            # a store outside the `is new` branch may only fill in EMPTY metadata: `if T[node] == {}`
            ok = tab == "_node_metadata" and _under_empty_test(v, o)
            res.check(
                ok,
                "P-NODE",
                f,
                norm(o.node),
                tab + ":overwrite",
                "an existing node's entry is overwritten by add_node (node metadata must survive hyperedge insertions)" if tab == "_node_metadata" else "an existing node's adjacency entry is reset by add_node",
                _where(v, o.node),
            )
    # ---- the metadata argument is not confined to the creation branch: a node that exists with empty metadata (it was
    # introduced by a hyperedge) receives the metadata of a later add_node(node, metadata) - all four containers agree on it
    args = v.fi.node.args.args
    mpar = args[2].arg if len(args) > 2 else None
    if mpar:
        allw = [o for o in v.ops(with_calls=True) if o.table == "_node_metadata" and o.op in ("store", "aug", "call", "setattr") and not o.elem_level]

        def from_param(o):
            val = o.value if o.value is not None else o.node
            return any(isinstance(x, ast.Name) and x.id == mpar for x in ast.walk(v.inline(val, depth=3)))

        fed = [o for o in allw if o.op == "store" and not o.via and o.value is not None and from_param(o)]
        outside = [o for o in allw if not any(v.cfg.branch_dominated(t, l, _cfgid(v, o.at)) for t, l, _ in guards)]
        if fed and not outside:
            _absent(res, v, "P-NODE", norm(fed[0].node), "_node_metadata:existing", f"the `{mpar}` argument of add_node is stored only on the `node is new` branch: a node that already exists with empty metadata (created by a hyperedge insertion) silently loses the metadata handed to add_node", _where(v, fed[0].node))
        elif fed and outside:
            res.ok("P-NODE", f, norm(outside[0].node), "_node_metadata:existing", _where(v, outside[0].node))
        else:
            res.unknown("P-NODE", f, f"_node_metadata[node] = {mpar}", "_node_metadata:existing", "how the metadata argument reaches the node table was not established", _where(v, v.fi.node))


def _under_empty_test(v: FuncView, o: TOp) -> bool:
    oid = _cfgid(v, o.at)
    for n in walk_no_nested(v.fi.node):
        if isinstance(n, ast.If):
            test = n.test
            # `is_empty = stored == {}; if is_empty:` - a boolean local naming the test
            if isinstance(test, ast.Name) or (isinstance(test, ast.UnaryOp) and isinstance(test.operand, ast.Name)):
                nm = test if isinstance(test, ast.Name) else test.operand
                if isinstance(v.resolve(nm), (ast.Compare, ast.BoolOp, ast.UnaryOp)):
                    test = v.inline(test, depth=1)
            for atom, pos in _atoms(test, True):
                if isinstance(atom, ast.Compare) and len(atom.ops) == 1 and isinstance(atom.ops[0], ast.Eq):
                    l, r = atom.left, atom.comparators[0]
                    for a, b in ((l, r), (r, l)):
                        if isinstance(a, ast.Name) and isinstance(b, ast.Dict) and not b.keys and _mirrors_entry(v, a.id, o):
                            lab = _implied_branch(test, atom, True)
                            if lab and v.cfg.branch_dominated(v.cfg.by_ast[id(n.test)], lab, oid):
                                return True
                        a = v.inline(a, depth=1) if isinstance(a, ast.Name) else a  # stored = T[node]; if stored == {}:
                        if isinstance(a, ast.Subscript) and (v.table_of(getattr(a.value, "_orig", a.value)) or (None, None))[1] == o.table and isinstance(b, ast.Dict) and not b.keys and o.key is not None and _same_expr(a.slice, o.key, v):
                            lab = _implied_branch(test, atom, True)
                            if lab and v.cfg.branch_dominated(v.cfg.by_ast[id(n.test)], lab, oid):
                                return True
    return False


def _mirrors_entry(v: FuncView, name: str, o: TOp) -> bool:
    """every definition of the local `name` makes it equal to the table entry `o.table[o.key]`: it is read from the
    entry, or it is the very object that is stored into the entry right there"""
    defs = [d for d in walk_no_nested(v.fi.node) if isinstance(d, ast.Assign) and len(d.targets) == 1 and isinstance(d.targets[0], ast.Name) and d.targets[0].id == name]
    if not defs or o.key is None:
        return False
    for d in defs:
        val = d.value
        if isinstance(val, ast.Subscript) and (v.table_of(val.value) or (None, None))[1] == o.table and _same_expr(val.slice, o.key, v):
            continue
        if isinstance(val, ast.Call) and isinstance(val.func, ast.Attribute) and val.func.attr == "get" and val.args and (v.table_of(val.func.value) or (None, None))[1] == o.table and _same_expr(val.args[0], o.key, v):
            continue  # T.get(key[, sentinel]): the entry when there is one
        blk = v.parent.get(id(d))
        stored = [x for x in v.ops() if x.table == o.table and x.op == "store" and not x.elem_level and isinstance(x.value, ast.Name) and x.value.id == name and x.key is not None and _same_expr(x.key, o.key, v) and v.parent.get(id(x.at)) is blk]
        if not stored:
            return False
    return True


def check_remove_node(ctx, res: Result, cls: str):
    v = ctx.view(f"{cls}.remove_node")
    f = v.fi.short
    for tab in T.NODE_TABLES[cls]:
        dels = [o for o in v.ops(with_calls=True) if o.table == tab and o.op == "del" and not o.elem_level]
        ids = {v.must_id(o) for o in dels}
        # every normal path entry -> EXIT deletes the node's entry
        if not dels:
            _absent(res, v, "P-NODE", f"del {tab}[node]", tab + ":remove", f"remove_node never deletes the node's entry from {tab} (the node stays visible in listings / hashing)", _where(v, v.fi.node))
        else:
            ok = not v.cfg.reaches_without(v.cfg.entry, v.cfg.exit, ids)
            res.check(ok, "P-NODE", f, f"del {tab}[node]", tab + ":remove", f"remove_node leaves the node's entry in {tab} on some path (the node stays visible in listings / hashing)", _where(v, v.fi.node))
        for o in dels:
            if o.via or o.may:
                continue
            kk = v.kind(o.key) if o.key is not None else None
            good = isinstance(kk, Atom) and kk.name == "NODE"
            res.add("P-NODE", f, norm(o.node), tab + ":key", "ok" if good else "unknown", "", _where(v, o.node))
    # incident records go through remove_edge / remove_edges (never by hand-editing one table)
    calls = [n for n in walk_no_nested(v.fi.node) if isinstance(n, ast.Call) and isinstance(n.func, ast.Attribute) and is_self_attr(n.func) and n.func.attr in ("remove_edge", "remove_edges")]
    edge_dels = [o for o in v.ops(with_calls=True) if o.table == "_edge_list" and o.op == "del"]
    if calls or edge_dels:
        res.ok("P-NODE", f, "incident records are removed", "incident", _where(v, v.fi.node))
    else:
        _absent(res, v, "P-NODE", "self.remove_edge(...)", "incident", "remove_node never removes the incident hyperedges", _where(v, v.fi.node))
    # every incident record is removed: in a loop that removes (or schedules for removal) the records of the node, no iteration
    # gets back to the loop head without having passed a removal - a `continue` in front of it leaves a hyperedge that still
    # contains the removed node
    for lp in [n for n in walk_no_nested(v.fi.node) if isinstance(n, ast.For)]:
        hid = v.cfg.by_ast.get(id(lp))
        if hid is None:
            continue
        inside = lambda x: any(x is y for st_ in lp.body for y in ast.walk(st_))
        events = [c for c in calls if inside(c)]
        # scheduling: `to_remove.append(edge)` for a list later handed to remove_edges / looped over with remove_edge
        sched = set()
        for c in calls:
            for a_ in c.args[:1]:
                if isinstance(a_, ast.Name):
                    sched.add(a_.id)
            l2 = v.enclosing(c, (ast.For,))
            if l2 is not None and isinstance(l2.iter, ast.Name):
                sched.add(l2.iter.id)
        for n in walk_no_nested(v.fi.node):
            if isinstance(n, ast.Call) and isinstance(n.func, ast.Attribute) and n.func.attr in ("append", "add") and isinstance(n.func.value, ast.Name) and n.func.value.id in sched and inside(n):
                events.append(n)
        events += [o.node for o in v.ops() if o.table == "_edge_list" and o.op == "del" and inside(o.node)]
        ev_ids = {v.cfg_id(e) for e in events} - {None}
        if not ev_ids:
            continue
        # does the loop run over the node's records?  (its iterable mentions the incidence table or a copy of it)
        it_ = v.inline(lp.iter)
        if not any((v.table_of(x) or (None, None))[1] in T.ADJ_TABLES[cls] for x in ast.walk(it_) if isinstance(x, (ast.Subscript, ast.Attribute))):
            continue
        starts = v.cfg.succ(hid, "iter")
        skipped = any(s_ not in ev_ids and v.cfg.reaches_without(s_, hid, ev_ids) for s_ in starts)
        res.check(not skipped, "P-NODE", f, norm(lp.iter), "every-incident", "an iteration of the loop over the node's hyperedges can end without removing (or scheduling the removal of) the hyperedge: it stays in the hypergraph and still contains the removed node", _where(v, lp))
    # P-SHRINK: id-keyed reads of the record must not follow its removal within the same loop iteration
    readers = []
    for n in walk_no_nested(v.fi.node):
        if isinstance(n, ast.Call) and isinstance(n.func, ast.Attribute) and is_self_attr(n.func) and n.func.attr in ("get_weight", "get_edge_metadata"):
            readers.append(n)
    for o in v.ops():
        if o.table in T.EDGE_ID_TABLES and o.op in ("read",) and not o.elem_level:
            readers.append(o.node)
    for c in calls:
        cid = _cfgid(v, c)
        loops = v.enclosing_all(v.stmt_of(c), (ast.For, ast.While))
        heads = {v.cfg.by_ast[id(l)] if isinstance(l, ast.For) else v.cfg.by_ast[id(l.test)] for l in loops}
        for r in readers:
            rid = _cfgid(v, r)
            if rid == cid:
                # same statement: arguments are evaluated before the call - only a problem if the read is not an argument
                continue
            same_iter = loops and all(v.enclosing_all(v.stmt_of(r), (ast.For, ast.While)).count(l) for l in loops[:1])
            if not same_iter:
                continue
            bad = v.cfg.reaches_without(cid, rid, heads)
            res.check(
                not bad,
                "P-SHRINK",
                f,
                norm(r),
                norm(c),
                "weight / metadata of a record is read after the record has been removed (the shrunken hyperedge loses its weight and metadata)",
                _where(v, r),
            )
    # P-REINSERT: the shrunken hyperedge is re-inserted whether or not a record with its key exists already - add_edge is what
    # merges the weight into an existing record; skipping it when the key exists drops the weight of the removed record
    for c in [n for n in walk_no_nested(v.fi.node) if isinstance(n, ast.Call) and isinstance(n.func, ast.Attribute) and is_self_attr(n.func) and n.func.attr == "add_edge" and n.args]:
        cid = _cfgid(v, c)
        # (Hypergraph.remove_node re-inserts first and removes the collected records after the loop)
        if not any(v.cfg.reachable(_cfgid(v, r), cid) or v.cfg.reachable(cid, _cfgid(v, r)) for r in calls):
            continue
        verdict, why = "ok", ""
        for iff in walk_no_nested(v.fi.node):
            if not isinstance(iff, ast.If):
                continue
            tid = v.cfg.by_ast.get(id(iff.test))
            if tid is None or tid == cid:
                continue
            for atom, _pos in _atoms(iff.test, True):
                exists_test = None  # the key expression whose presence the atom tests
                if isinstance(atom, ast.Call) and isinstance(atom.func, ast.Attribute) and is_self_attr(atom.func) and atom.func.attr == "check_edge" and atom.args:
                    exists_test = atom.args[0]
                    is_in = True
                elif isinstance(atom, ast.Compare) and len(atom.ops) == 1 and isinstance(atom.ops[0], (ast.In, ast.NotIn)) and (v.table_of(atom.comparators[0]) or (None, None))[1] == "_edge_list":
                    exists_test = atom.left
                    is_in = isinstance(atom.ops[0], ast.In)
                if exists_test is None:
                    continue
                mentioned = {x.id for x in ast.walk(v.inline(exists_test)) if isinstance(x, ast.Name)}
                arg_names = {x.id for x in ast.walk(v.inline(c.args[0])) if isinstance(x, ast.Name)}
                if not (norm(exists_test) == norm(c.args[0]) or (arg_names and arg_names <= mentioned)):
                    continue
                lab = _implied_branch(iff.test, atom, not is_in)  # the branch on which the key is ABSENT
                if lab and v.cfg.branch_dominated(tid, lab, cid):
                    # merged by hand on the other branch?
                    merges = [o for o in v.ops() if o.table == "_weights" and o.op in ("aug", "store")] + [n for n in walk_no_nested(v.fi.node) if isinstance(n, ast.Call) and isinstance(n.func, ast.Attribute) and is_self_attr(n.func) and n.func.attr == "set_weight"]
                    verdict, why = ("unknown", "the re-insertion is skipped when the key exists; a hand-written merge was found but not checked") if merges else ("violation", f"the shrunken hyperedge is re-inserted only when `{norm(exists_test)}` is not yet a record: when it is, add_edge - which adds the weight to the existing record - is skipped and the weight of the removed record is lost")
        res.add("P-REINSERT", f, norm(c), "always", verdict, why, _where(v, c))
        # the re-inserted record carries the metadata of the removed one; where the argument is made conditional on "a record
        # with that key exists already", the test has to be about the WHOLE key (node set and time / layer): a test on the node
        # set alone withholds the metadata whenever the same node set is recorded at another time / in another layer
        marg = next((kw.value for kw in c.keywords if kw.arg == "metadata"), None)
        if marg is not None:
            mi = v.inline(marg, depth=2)
            if isinstance(mi, ast.IfExp) and any(isinstance(a_, ast.Constant) and a_.value is None or (isinstance(a_, ast.Dict) and not a_.keys) for a_ in (mi.body, mi.orelse)):
                test_i = v.inline(mi.test, depth=3)
                tnames = {x.id for x in ast.walk(test_i) if isinstance(x, ast.Name)} | {x.id for x in ast.walk(mi.test) if isinstance(x, ast.Name)}
                keyargs = [a_ for a_ in c.args] + [kw.value for kw in c.keywords if kw.arg in ("time", "layer", "edge")]
                keyargs = [a_ for a_ in keyargs if not (isinstance(a_, ast.Name) and a_.id in ("weight", "metadata"))]
                missing = [a_ for a_ in keyargs if {x.id for x in ast.walk(a_) if isinstance(x, ast.Name)} and not ({x.id for x in ast.walk(a_) if isinstance(x, ast.Name)} & tnames) and not ({x.id for x in ast.walk(v.inline(a_, depth=1)) if isinstance(x, ast.Name)} & tnames)]
                if missing and len(keyargs) >= 2:
                    res.violation("P-REINSERT", f, norm(marg)[:80], "metadata-carried", f"the metadata of the removed record is withheld when `{norm(test_i)[:60]}`, a test that does not involve `{norm(missing[0])}`: a record of the same node set under ANOTHER {norm(missing[0])} makes the shrunken hyperedge lose its metadata although nothing is merged", _where(v, c))
                else:
                    res.unknown("P-REINSERT", f, norm(marg)[:80], "metadata-carried", "the metadata handed to the re-insertion is conditional; the condition was not decided", _where(v, c))
            else:
                res.ok("P-REINSERT", f, norm(marg)[:80], "metadata-carried", _where(v, c))
    # P-LOOPVAR: key components used after the loop that bound them (stale time / layer / edge)
    for ob in stale_loop_vars(v):
        res.violation("P-LOOPVAR", f, ob[0], ob[1], "a loop variable is used after its loop ended: the re-inserted record takes the key component (time / layer) of the last processed record", ob[2])
    res.ok("P-LOOPVAR", f, "loop variables confined to their loops", "scan", _where(v, v.fi.node))


def stale_loop_vars(v: FuncView):
    """Uses of a `for` target (or of a name assigned only inside a loop body from it) after that loop."""
    out = []
    for loop in [n for n in walk_no_nested(v.fi.node) if isinstance(n, ast.For)]:
        bound = {n.id for n in ast.walk(loop.target) if isinstance(n, ast.Name)}
        # names assigned inside the body (unpacking of the per-iteration record)
        for n in ast.walk(loop):
            if isinstance(n, ast.Assign):
                for t in n.targets:
                    for x in ast.walk(t):
                        if isinstance(x, ast.Name):
                            bound.add(x.id)
        # names defined before the loop are not "loop variables"
        pre = set()
        for n in walk_no_nested(v.fi.node):
            if isinstance(n, (ast.Assign, ast.AugAssign)) and n.lineno < loop.lineno:
                tg = n.targets if isinstance(n, ast.Assign) else [n.target]
                for t in tg:
                    for x in ast.walk(t):
                        if isinstance(x, ast.Name):
                            pre.add(x.id)
        pre |= {a.arg for a in v.fi.params}
        bound -= pre
        inside = {id(x) for x in ast.walk(loop)}
        end = loop.end_lineno
        for n in walk_no_nested(v.fi.node):
            if isinstance(n, ast.Name) and isinstance(n.ctx, ast.Load) and n.id in bound and id(n) not in inside and n.lineno > end:
                # re-bound after the loop before this use?
                rebound = False
                # the element expression of a comprehension that binds the name itself (the comprehension's own scope), whatever
                # the line layout
                for comp in v.enclosing_all(n, (ast.ListComp, ast.SetComp, ast.DictComp, ast.GeneratorExp)):
                    if any(isinstance(x, ast.Name) and x.id == n.id for g_ in comp.generators for x in ast.walk(g_.target)):
                        rebound = True
                for m in walk_no_nested(v.fi.node):
                    if isinstance(m, ast.Name) and isinstance(m.ctx, ast.Store) and m.id == n.id and id(m) not in inside and end < m.lineno <= n.lineno:
                        # comprehension / for target or assignment after the loop re-binds the name
                        if m.lineno < n.lineno or m.col_offset < n.col_offset or isinstance(v.parent.get(id(m)), (ast.comprehension,)):
                            rebound = True
                if not rebound:
                    st = v.stmt_of(n)
                    out.append((norm(st) if st is not None else n.id, n.id, loc(v.fi, n)))
    return out


def check_clear(ctx, res: Result, cls: str, exempt=()):
    if "clear" not in ctx.methods(cls):
        return
    v = ctx.view(f"{cls}.clear")
    f = v.fi.short
    tabs = ctx.interp.class_tables[cls]
    for tab, k in tabs.items():
        if not isinstance(k, (Dct, St)) and tab != "_hypergraph_metadata":
            continue
        if tab in exempt:
            continue
        ops = [o for o in v.ops(with_calls=True) if o.table == tab and (o.op == "clear" or (o.op == "setattr" and (o.via or isinstance(o.value, (ast.Dict, ast.Call, ast.Set))))) and not o.elem_level]
        if ops:
            res.ok("P-CLEAR", f, f"self.{tab}.clear()", tab, _where(v, v.fi.node))
        else:
            _absent(res, v, "P-CLEAR", f"self.{tab}.clear()", tab, f"clear() leaves {tab} populated", _where(v, v.fi.node))


def check_live_iteration(ctx, res: Result, cls: str):
    """E-LIVEITER: a loop that iterates directly over an internal table (or over the list stored in it) must not, in
    its body, write that same table - directly or through a `self.<method>()` call.  (Iterating a copy - list(...),
    a comprehension, a value returned by a getter that builds a new list - is the accepted idiom.)"""
    for name, fi in ctx.methods(cls).items():
        v = ctx.view(fi)
        for lp in [n for n in walk_no_nested(fi.node) if isinstance(n, ast.For)]:
            t = v.table_of(lp.iter)
            if t is None:
                continue
            _, tab, elem = t
            body_nodes = {id(x) for b in lp.body for x in ast.walk(b)}
            # what disturbs the iteration: shrinking the iterated list (remove / del at element level) when a stored list is
            # iterated; inserting / deleting keys when the table itself is iterated.  Appends to the lists of OTHER keys
            # (add_edge of a shrunken hyperedge) do not.
            if elem:
                kinds = ("remove", "del", "clear")
                writers = [o for o in v.ops(with_calls=True) if o.table == tab and o.op in kinds and (o.elem_level or o.op == "clear") and id(o.node) in body_nodes]
                writers = [o for o in writers if o.via or o.key is None or not (isinstance(lp.iter, ast.Subscript) and isinstance(o.node, ast.Call) and isinstance(o.node.func, ast.Attribute) and isinstance(o.node.func.value, ast.Subscript) and norm(o.node.func.value.slice) != norm(lp.iter.slice))]
            else:
                writers = [o for o in v.ops(with_calls=True) if o.table == tab and o.op in ("store", "del", "clear", "setattr") and not o.elem_level and id(o.node) in body_nodes]
            for o in writers:
                via = f" (through {o.via})" if o.via else ""
                res.violation("E-LIVEITER", fi.short, norm(o.node), f"{tab}:{norm(lp.iter)}", f"`{norm(lp.iter)}` is iterated while the loop body modifies {tab}{via}: elements are skipped (every other incident hyperedge survives)", _where(v, o.node))
            if not writers:
                res.ok("E-LIVEITER", fi.short, norm(lp.iter), tab, _where(v, lp))


# ----------------------------------------------------------------------------- atomic rejection
def check_atomic(ctx, res: Result, cls: str, methods):
    for m in methods:
        if m not in ctx.methods(cls):
            continue
        v = ctx.view(f"{cls}.{m}")
        f = v.fi.short
        raises = [n for n in walk_no_nested(v.fi.node) if isinstance(n, ast.Raise)]
        writes = [o for o in v.ops() if o.is_write]
        bad = []
        for r in raises:
            # a raise inside an except handler that re-raises a caught error of a callee is not an own rejection
            if v.enclosing(r, (ast.ExceptHandler,)) is not None:
                continue
            rid = _cfgid(v, r)
            for o in writes:
                oid = _cfgid(v, o.at)
                if oid != rid and v.cfg.reachable(oid, rid):
                    bad.append((o, r))
        for o, r in bad:
            res.violation(
                "P-ATOMIC",
                f,
                norm(o.node),
                norm(r),
                "state is modified before an explicit rejection (`raise`) on some path: a rejected operation does not leave the observable state unchanged",
                _where(v, o.node),
            )
        if not bad:
            res.ok("P-ATOMIC", f, f"{len(writes)} writes / {len(raises)} raises", "scan", _where(v, v.fi.node))


# ----------------------------------------------------------------------------- neighbours
def _self_removal_points(v: FuncView, node_name: str):
    """CFG ids of the constructs that take the queried node out of the neighbour set"""
    removal = set()
    for n in walk_no_nested(v.fi.node):
        if isinstance(n, ast.Call) and isinstance(n.func, ast.Attribute) and n.func.attr in ("remove", "discard") and n.args and isinstance(n.args[0], ast.Name) and n.args[0].id == node_name:
            st = v.stmt_of(n)
            par = v.parent.get(id(st))
            # guarded form `if node in neigh: neigh.remove(node)` is represented by its test
            if isinstance(par, ast.If) and len(par.body) == 1 and par.body[0] is st and not par.orelse:
                removal.add(v.cfg.by_ast[id(par.test)])
            else:
                removal.add(_cfgid(v, st))
        if isinstance(n, ast.BinOp) and isinstance(n.op, ast.Sub) and isinstance(n.right, ast.Set) and len(n.right.elts) == 1 and isinstance(n.right.elts[0], ast.Name) and n.right.elts[0].id == node_name:
            removal.add(_cfgid(v, n))
        if isinstance(n, ast.Call) and isinstance(n.func, ast.Attribute) and n.func.attr in ("difference", "difference_update") and n.args and any(isinstance(x, ast.Name) and x.id == node_name for x in ast.walk(n.args[0])):
            removal.add(_cfgid(v, n))
        if isinstance(n, (ast.SetComp, ast.ListComp, ast.GeneratorExp)):
            for g in n.generators:
                for c in g.ifs:
                    if isinstance(c, ast.Compare) and len(c.ops) == 1 and isinstance(c.ops[0], ast.NotEq) and {norm(c.left), norm(c.comparators[0])} >= {node_name}:
                        removal.add(_cfgid(v, n))
    return removal


def _excludes_self(ctx, v: FuncView, node_name: str, depth: int = 0):
    """per return statement: 'ok' / 'violation' / 'unknown' - is the queried node out of the returned set?"""
    out = []
    removal = _self_removal_points(v, node_name)
    rets = [n for n in walk_no_nested(v.fi.node) if isinstance(n, ast.Return) and n.value is not None]
    for r in rets:
        rid = _cfgid(v, r)
        if rid in removal or (removal and not v.cfg.reaches_without(v.cfg.entry, rid, removal)):
            out.append((r, "ok"))
            continue
        # the set may come out of a memo kept on the object: then it is what an earlier call stored there - fine when every
        # store into that memo (in this function) happens after the node was taken out
        memo_reads = []
        for x in walk_no_nested(v.fi.node):
            base = None
            if isinstance(x, ast.Call) and isinstance(x.func, ast.Attribute) and x.func.attr in ("get", "pop", "setdefault"):
                base = x.func.value
            elif isinstance(x, ast.Subscript) and isinstance(x.ctx, ast.Load):
                base = x.value
            if isinstance(base, ast.Attribute) and is_self_attr(base) and base.attr.startswith("_") and v.table_of(base) is None:
                memo_reads.append(base.attr)
        if memo_reads:
            stores = [x for x in walk_no_nested(v.fi.node) if isinstance(x, ast.Assign) and any(isinstance(t, ast.Subscript) and isinstance(t.value, ast.Attribute) and is_self_attr(t.value) and t.value.attr in memo_reads for t in x.targets)]
            if stores and removal and all(not v.cfg.reaches_without(v.cfg.entry, _cfgid(v, st_), removal) for st_ in stores):
                out.append((r, "ok"))
                continue
            out.append((r, "unknown"))
            continue
        # the set may be finished by a helper that is handed the node
        status = "violation"
        for c in [x for x in ast.walk(r.value) if isinstance(x, ast.Call)] + [d.value for d in walk_no_nested(v.fi.node) if isinstance(d, ast.Assign) and isinstance(d.value, ast.Call) and isinstance(r.value, ast.Name) and any(isinstance(t, ast.Name) and t.id == r.value.id for t in d.targets)]:
            for callee in ctx.callees(v.fi, c):
                if depth >= 2:
                    status = "unknown"
                    continue
                pn = [a.arg for a in callee.params]
                if callee.cls is not None and not callee.is_static and isinstance(c.func, ast.Attribute):
                    pn = pn[1:]
                mapped = None
                for i, a in enumerate(c.args):
                    if isinstance(a, ast.Name) and a.id == node_name and i < len(pn):
                        mapped = pn[i]
                for kw in c.keywords:
                    if kw.arg and isinstance(kw.value, ast.Name) and kw.value.id == node_name:
                        mapped = kw.arg
                if mapped is None:
                    continue
                sub = _excludes_self(ctx, ctx.view(callee), mapped, depth + 1)
                if sub and all(s_ == "ok" for _, s_ in sub):
                    status = "ok"
                elif status != "ok":
                    status = "unknown"
        out.append((r, status))
    return out


def check_neighbors(ctx, res: Result, cls: str):
    if "get_neighbors" not in ctx.methods(cls):
        return
    v = ctx.view(f"{cls}.get_neighbors")
    f = v.fi.short
    node_name = v.fi.params[1].arg if len(v.fi.params) > 1 else "node"
    verdicts = _excludes_self(ctx, v, node_name)
    if not verdicts:
        raise AnalysisError(f"{f}: no return statement")
    for r, st in verdicts:
        res.add("P-NEIGH", f, norm(r), "self-excluded", st, "" if st == "ok" else "a path returns the neighbour set without removing the queried node from it (a node would be its own neighbour)", _where(v, r))
    # the set is filled from node components only: handled by K-MEM (set.update with a composite)


def _emptiness_tests(v: FuncView):
    """[(test node, measured expression)] for `len(E) == 0`, `len(E) < 1`, `not E`, `E == set()/[]`, `len(E) > 0`, `if E`"""
    out = []
    for n in walk_no_nested(v.fi.node):
        if isinstance(n, ast.Compare) and len(n.ops) == 1:
            l, r = n.left, n.comparators[0]
            for a, b in ((l, r), (r, l)):
                if isinstance(a, ast.Call) and norm(a.func) == "len" and a.args and isinstance(b, ast.Constant) and b.value in (0, 1) and not isinstance(b.value, bool):
                    e = a.args[0]
                    while isinstance(e, ast.Call) and norm(e.func) in ("list", "set", "tuple", "sorted") and e.args:
                        e = e.args[0]
                    out.append((n, e))
                if isinstance(b, (ast.List, ast.Set, ast.Tuple)) and not b.elts or (isinstance(b, ast.Call) and norm(b.func) in ("set", "list", "tuple") and not b.args):
                    if not isinstance(a, ast.Constant):
                        out.append((n, a))
        if isinstance(n, ast.UnaryOp) and isinstance(n.op, ast.Not):
            out.append((n, n.operand))
    return out


def check_isolation(ctx, res: Result, cls: str = None, targets=None):
    """Q-ISO: a node is isolated when it has no NEIGHBOUR.  A node whose only hyperedges are singletons has incident
    hyperedges and no neighbour, so isolation decided from the incidence lists / a degree is a different predicate."""
    if targets is None:
        targets = [f"{cls}.{m}" for m in ("isolated_nodes", "is_isolated") if m in ctx.methods(cls)]
    seen = set()
    work = [(ctx.require(d), 0) for d in targets]
    while work:
        fi, depth = work.pop()
        if fi.qualname in seen:
            continue
        seen.add(fi.qualname)
        v = ctx.view(fi)
        f = fi.short
        decided = False
        for t, e in _emptiness_tests(v):
            ei = v.inline(e)
            txt = norm(ei)
            tabs = [(c, tb, lvl) for x in ast.walk(ei) if isinstance(x, (ast.Subscript, ast.Attribute, ast.Name)) for (c, tb, lvl) in v.tables_of(getattr(x, "_orig", x)) if tb in T.ADJ_TABLES.get(c, ())]
            calls = [norm(x.func).split(".")[-1] for x in ast.walk(ei) if isinstance(x, ast.Call)]
            if "get_neighbors" in calls:
                res.ok("Q-ISO", f, norm(t), "by-neighbours", _where(v, t))
                decided = True
            elif tabs or any(c in ("degree", "get_incident_edges", "degree_sequence", "degree_distribution") for c in calls):
                res.violation("Q-ISO", f, norm(t), "by-neighbours", f"isolation is decided from `{txt[:80]}` (incident hyperedges), not from the neighbour set: a node whose hyperedges are all singletons has incident hyperedges but no neighbour", _where(v, t))
                decided = True
        # `[node for node, deg in hg.degree_sequence(...).items() if deg == 0]`: a zero test on a degree
        for n in ast.walk(fi.node):
            if isinstance(n, ast.Compare) and len(n.ops) == 1 and isinstance(n.ops[0], (ast.Eq, ast.NotEq, ast.Gt, ast.Lt)) and any(isinstance(x, ast.Constant) and x.value == 0 and not isinstance(x.value, bool) for x in (n.left, n.comparators[0])):
                other = n.comparators[0] if isinstance(n.left, ast.Constant) else n.left
                src = None
                if isinstance(other, ast.Name):
                    # bound by a loop / comprehension over <degrees>.items() / .values(), or assigned from a degree call
                    for g in ast.walk(fi.node):
                        if isinstance(g, (ast.For, ast.comprehension)) and any(isinstance(x, ast.Name) and x.id == other.id for x in ast.walk(g.target)):
                            src = v.inline(g.iter)
                    if src is None:
                        src = v.inline(other)
                else:
                    src = v.inline(other)
                if src is not None and any(isinstance(x, ast.Call) and isinstance(x.func, (ast.Attribute, ast.Name)) and norm(x.func).split(".")[-1] in ("degree", "degree_sequence", "degree_distribution") for x in ast.walk(src)):
                    res.violation("Q-ISO", f, norm(n), "by-neighbours", "isolation is decided from a degree (the number of incident hyperedges), not from the neighbour set: a node whose hyperedges are all singletons has positive degree and no neighbour", _where(v, n))
                    decided = True
        if depth < 2:
            for n in walk_no_nested(fi.node):
                if isinstance(n, ast.Call):
                    for callee in ctx.callees(fi, n):
                        if callee.name in ("isolated_nodes", "is_isolated"):
                            res.ok("Q-ISO", f, norm(n), "delegates", _where(v, n))
                            decided = True
                            work.append((callee, depth + 1))
                        elif not decided and callee.name.startswith("_") and callee.cls is None and callee.module is fi.module:
                            # a private predicate of the same module used as the test: `if _has_no_incidences(hg, node, ...)`
                            par = v.parent.get(id(n))
                            while isinstance(par, (ast.UnaryOp, ast.BoolOp)):
                                par = v.parent.get(id(par))
                            if isinstance(par, (ast.If, ast.IfExp, ast.comprehension, ast.Return, ast.While)):
                                work.append((callee, depth + 1))
                                decided = True
        if not decided:
            res.unknown("Q-ISO", f, f"def {fi.name}", "by-neighbours", "how isolation is decided was not recognised", loc(fi, fi.node))


# ----------------------------------------------------------------------------- temporal time validation
def _time_guards(ctx, v: FuncView, aliases, depth: int = 0):
    """Raising guards on a time value.  Returns (type_guards, neg_guards, opaque) where a guard is (cfg id, label):
    an `if <test>: raise` of this function (label "F": the store must sit on the branch where the test failed) or a
    call of a repo helper that performs such a test on the value it is handed (label None: the call must dominate).
    `opaque`: the value is handed to something whose checks could not be read."""
    aliases = set(aliases)
    for n in walk_no_nested(v.fi.node):
        if isinstance(n, ast.Assign) and len(n.targets) == 1 and isinstance(n.targets[0], ast.Name) and isinstance(n.value, ast.Name) and n.value.id in aliases:
            aliases.add(n.targets[0].id)
    type_guards, neg_guards, opaque = [], [], False
    for n in walk_no_nested(v.fi.node):
        if not isinstance(n, ast.If) or not n.body or not all(isinstance(b, ast.Raise) for b in n.body):
            continue
        t = n.test
        tid = v.cfg.by_ast.get(id(t))
        if tid is None:
            continue
        # not isinstance(time, int)
        if isinstance(t, ast.UnaryOp) and isinstance(t.op, ast.Not) and isinstance(t.operand, ast.Call) and isinstance(t.operand.func, ast.Name) and t.operand.func.id == "isinstance":
            a = t.operand.args
            if len(a) == 2 and isinstance(a[0], ast.Name) and a[0].id in aliases and norm(a[1]) in ("int", "(int,)", "numbers.Integral", "(int, np.integer)"):
                type_guards.append((tid, "F"))
        if isinstance(t, ast.Compare) and len(t.ops) == 1:
            l, op, r = t.left, t.ops[0], t.comparators[0]
            if isinstance(l, ast.Name) and l.id in aliases and isinstance(op, ast.Lt) and isinstance(r, ast.Constant) and r.value == 0:
                neg_guards.append((tid, "F"))
            if isinstance(r, ast.Name) and r.id in aliases and isinstance(op, ast.Gt) and isinstance(l, ast.Constant) and l.value == 0:
                neg_guards.append((tid, "F"))
            if isinstance(l, ast.Name) and l.id in aliases and isinstance(op, ast.LtE) and isinstance(r, ast.UnaryOp) and isinstance(r.op, ast.USub) and isinstance(r.operand, ast.Constant) and r.operand.value == 1:
                neg_guards.append((tid, "F"))
    # helpers that are handed the value
    for n in walk_no_nested(v.fi.node):
        if not isinstance(n, ast.Call):
            continue
        passed = [(i, x) for i, x in enumerate(n.args) if isinstance(x, ast.Name) and x.id in aliases] + [(kw.arg, kw.value) for kw in n.keywords if kw.arg and isinstance(kw.value, ast.Name) and kw.value.id in aliases]
        if not passed:
            continue
        callees = ctx.callees(v.fi, n)
        cid = v.cfg_id(n)
        if not callees or cid is None or depth >= 2:
            if isinstance(n.func, ast.Name) and n.func.id in ("isinstance", "int", "len", "str", "repr", "print", "tuple", "sorted", "list", "format"):
                continue
            if not callees:
                opaque = True
            continue
        for callee in callees:
            names = [x.arg for x in callee.params]
            if callee.cls is not None and names and names[0] in ("self", "cls") and isinstance(n.func, ast.Attribute):
                names = names[1:]
            for pos, _ in passed:
                pname = names[pos] if isinstance(pos, int) and pos < len(names) else pos
                if not isinstance(pname, str):
                    continue
                cv = ctx.view(callee)
                tg, ng, op2 = _time_guards(ctx, cv, {pname}, depth + 1)
                # the helper's own guard must be unconditional in the helper: its test dominates the helper's exit on "F"
                if any(not cv.cfg.reaches_without(cv.cfg.entry, cv.cfg.exit, {g}) for g, _ in tg):
                    type_guards.append((cid, None))
                if any(not cv.cfg.reaches_without(cv.cfg.entry, cv.cfg.exit, {g}) for g, _ in ng):
                    neg_guards.append((cid, None))
                opaque = opaque or op2
                if any(isinstance(x, ast.Raise) for x in ast.walk(callee.node)) and not (tg or ng):
                    opaque = True
    return type_guards, neg_guards, opaque


def check_time_validation(ctx, res: Result):
    v = ctx.view("TemporalHypergraph.add_edge")
    f = v.fi.short
    stores = _writes(v, "_edge_list", ("store",))
    if not stores:
        raise AnalysisError(f"{f}: no store into _edge_list")
    type_guards, neg_guards, opaque = _time_guards(ctx, v, {"time"})
    for st in stores:
        sid = _cfgid(v, st.at)
        for name, gs, why in (("int", type_guards, "a non-integer time is not rejected before the record is created"), ("nonneg", neg_guards, "a negative time is not rejected before the record is created")):
            ok = any((v.cfg.branch_dominated(g, lab, sid) if lab else (v.cfg.dominates(g, sid) and g != sid)) for g, lab in gs)
            if ok:
                res.ok("P-TIMEVAL", f, norm(st.node), name, _where(v, st.node))
            elif opaque:
                res.unknown("P-TIMEVAL", f, norm(st.node), name, "no recognised check of the time value; it is handed to code whose checks could not be read", _where(v, st.node))
            else:
                res.violation("P-TIMEVAL", f, norm(st.node), name, why, _where(v, st.node))
    # the time component of the key is the validated value
    for st in stores:
        kk = v.kind(st.key)
        good = isinstance(kk, Tup) and len(kk.items) == 2 and isinstance(kk.items[0], Atom) and kk.items[0].name == "TIME"
        res.add("P-TIMEVAL", f, norm(st.node), "key", "ok" if good else "unknown", "" if good else f"key kind {kk!r}", _where(v, st.node))


def check_layer_registry(ctx, res: Result):
    v = ctx.view("MultiplexHypergraph.add_edge")
    f = v.fi.short
    adds = [o for o in v.ops() if o.table == "_existing_layers" and o.op == "add"]
    stores = _writes(v, "_edge_list", ("store",))
    for st in stores:
        sid = _cfgid(v, st.at)
        ids = {_cfgid(v, o.at) for o in adds}
        res.check(bool(adds) and v.passes_through(sid, ids), "P-LAYERREG", f, norm(st.node), "_existing_layers", "a record is created without registering its layer (edge_overlap iterates the registered layers)", _where(v, st.node))


# ----------------------------------------------------------------------------- keyed memos on the object
def check_memo_keys(ctx, res: Result, cls: str, rule="K-MEMOKEY"):
    """A private dict attribute that is none of the declared tables and is filled by queries (`self._cache[key] = value`) is
    a keyed memo.  All accesses address it in the same units: a component filed as an ORDER is not looked up / dropped as a
    SIZE (the entry that should be invalidated would stay)."""
    from .kinds import Atom, Tup, Union, strip_none, unrole, _Top

    res.rules.setdefault(rule, "a keyed cache kept on the object is addressed in the same units everywhere (the key filed by the query and the key dropped by the mutators agree component by component)")
    methods = ctx.methods(cls)
    sites = {}  # attr -> [(fi, node, key expr, 'store' | 'access')]
    for fi in methods.values():
        v = ctx.view(fi)
        for n in walk_no_nested(fi.node):
            base, key, how = None, None, None
            if isinstance(n, ast.Subscript) and isinstance(n.value, ast.Attribute):
                base, key, how = n.value, n.slice, ("store" if isinstance(n.ctx, ast.Store) else "access")
            elif isinstance(n, ast.Call) and isinstance(n.func, ast.Attribute) and n.func.attr in ("get", "pop", "setdefault") and isinstance(n.func.value, ast.Attribute) and n.args:
                base, key, how = n.func.value, n.args[0], "access"
            elif isinstance(n, ast.Compare) and len(n.ops) == 1 and isinstance(n.ops[0], (ast.In, ast.NotIn)) and isinstance(n.comparators[0], ast.Attribute):
                base, key, how = n.comparators[0], n.left, "access"
            if base is None or not is_self_attr(base) or not base.attr.startswith("_") or base.attr.startswith("__") or v.table_of(base) is not None:
                continue
            sites.setdefault(base.attr, []).append((fi, n, key, how))
    n_checked = 0
    for attr, ss in sorted(sites.items()):
        stores = [s_ for s_ in ss if s_[3] == "store" and s_[0].name != "__init__"]
        if not stores:
            continue

        def comps(fi, key):
            k = strip_none(ctx.view(fi).kind(key))
            return list(k.items) if isinstance(k, Tup) else [k]

        def atoms(k):
            k = strip_none(k)
            if isinstance(k, Union):
                return {unrole(m).name for m in k.members if isinstance(unrole(m), Atom)}
            k = unrole(k)
            return {k.name} if isinstance(k, Atom) else set()

        ref = None
        for fi, n, key, _ in stores:
            c = comps(fi, key)
            ref = c if ref is None else ([a for a in ref] if len(ref) == len(c) else ref)
        ref_atoms = [set() for _ in ref]
        for fi, n, key, _ in stores:
            c = comps(fi, key)
            if len(c) == len(ref):
                for i, k in enumerate(c):
                    ref_atoms[i] |= atoms(k)
        for fi, n, key, how in ss:
            if how == "store" and fi.name != "__init__":
                continue
            c = comps(fi, key)
            if len(c) != len(ref):
                continue
            n_checked += 1
            bad = None
            for i, k in enumerate(c):
                a = atoms(k) - {"NONE"}
                r_ = ref_atoms[i] - {"NONE"}
                if a and r_ and (a - r_) and ({"ORDER", "SIZE", "TIME", "LAYER", "NODE", "EID", "WEIGHT"} & (a - r_)):
                    bad = (i, sorted(a - r_), sorted(r_))
            v = ctx.view(fi)
            if bad:
                res.violation(rule, fi.short, norm(n)[:120], f"{attr}:component{bad[0]}", f"self.{attr} is filled under keys whose component {bad[0]} is {'/'.join(bad[2])}; here it is addressed with {'/'.join(bad[1])}: the entry meant is another one (a stale entry stays, or a lookup never hits)", loc(fi, n))
            else:
                res.ok(rule, fi.short, norm(n)[:120], f"{attr}:units", loc(fi, n))
    # ---- a memo keyed by `order` is consulted only AFTER `size` has been folded into `order`: before `order = size - 1` a call
    # with size=k still has order None, i.e. the key under which the UNFILTERED answer is filed
    for fi in methods.values():
        pn = {a.arg for a in fi.params} | {a.arg for a in fi.node.args.kwonlyargs}
        if not {"order", "size"} <= pn:
            continue
        v = ctx.view(fi)
        convs = [a for a in walk_no_nested(fi.node) if isinstance(a, ast.Assign) and any(isinstance(t, ast.Name) and t.id == "order" for t in a.targets) and any(isinstance(x, ast.Name) and x.id == "size" for x in ast.walk(a.value))]
        if not convs:
            continue

        def memo_container(e):
            """a private non-table dict attribute of self, or a local taken out of one (`cached = self._memo.setdefault(node, {})`)"""
            if is_self_attr(e) and e.attr.startswith("_") and v.table_of(e) is None:
                return e.attr
            if isinstance(e, ast.Name):
                ds = [a.value for a in walk_no_nested(fi.node) if isinstance(a, ast.Assign) and len(a.targets) == 1 and isinstance(a.targets[0], ast.Name) and a.targets[0].id == e.id]
                r = ds[0] if len(ds) == 1 else None
                if isinstance(r, ast.Call) and isinstance(r.func, ast.Attribute) and r.func.attr in ("setdefault", "get") and is_self_attr(r.func.value) and r.func.value.attr.startswith("_") and v.table_of(r.func.value) is None:
                    return r.func.value.attr
                if isinstance(r, ast.Subscript) and is_self_attr(r.value) and r.value.attr.startswith("_") and v.table_of(r.value) is None:
                    return r.value.attr
            return None

        for n in walk_no_nested(fi.node):
            cont = key = None
            if isinstance(n, ast.Compare) and len(n.ops) == 1 and isinstance(n.ops[0], (ast.In, ast.NotIn)):
                cont, key = n.comparators[0], n.left
            elif isinstance(n, ast.Subscript) and isinstance(n.ctx, ast.Load):
                cont, key = n.value, n.slice
            elif isinstance(n, ast.Call) and isinstance(n.func, ast.Attribute) and n.func.attr == "get" and n.args:
                cont, key = n.func.value, n.args[0]
            if cont is None:
                continue
            knames = {x.id for x in ast.walk(key) if isinstance(x, ast.Name)}
            if "order" not in knames or "size" in knames:
                continue
            attr = memo_container(cont)
            if attr is None:
                continue
            nid = v.cfg_id(n)
            early = [c_ for c_ in convs if nid is not None and v.cfg_id(c_) is not None and v.cfg.reachable(nid, v.cfg_id(c_)) and not v.cfg.dominates(v.cfg_id(c_), nid)]
            if early:
                n_checked += 1
                res.violation(rule, fi.short, norm(n)[:100], f"{attr}:before-normalisation", f"self.{attr} is consulted under the key `{norm(key)}` BEFORE `{norm(early[0])}` has folded the size filter into the order: a call with size=k looks up order None - the entry of the unfiltered query - and returns the unfiltered answer", loc(fi, n))
    if n_checked == 0:
        res.ok(rule, cls, "no keyed cache on the object", "scan", ctx.prog.cls(cls).module.relpath)


# ----------------------------------------------------------------------------- canonical order of a hyperedge's nodes
def check_canon_key(ctx, res: Result, cls: str, rule="K-CANONORD"):
    """The canonical key of a hyperedge is its nodes in their NATURAL order (`tuple(sorted(nodes))`): equal labels compare equal
    whatever their type (1, 1.0, numpy.int64(1)), so the key is a function of the node set.  An ordering by a derived key
    (type name, str / repr, hash) separates equal labels of different type: one node set gets two keys."""
    res.rules.setdefault(rule, "hyperedges are canonicalised by the natural order of their nodes: no sort key derived from type / str / repr / hash of a label")
    ci = ctx.prog.cls(cls)
    mod = ci.module
    # the canonicalisation helpers of the class's module (and what they call), and the methods that build record keys
    seeds = [fi for fi in ctx.prog.functions.values() if fi.module is mod and fi.cls is None and fi.parent is None and ("canon" in fi.name or "sort" in fi.name or "key" in fi.name)]
    seeds += [m for n_, m in ctx.methods(cls).items() if n_ in ("add_edge", "add_edges", "check_edge", "remove_edge", "get_weight", "set_weight", "get_edge_metadata", "set_edge_metadata")]
    seen, todo = {}, list(seeds)
    while todo:
        fi = todo.pop()
        if fi.qualname in seen:
            continue
        seen[fi.qualname] = fi
        for n in walk_no_nested(fi.node):
            if isinstance(n, ast.Call):
                for c in ctx.callees(fi, n):
                    if c.module is mod and c.cls is None and c.qualname not in seen:
                        todo.append(c)
    n_sorts = 0
    for fi in seen.values():
        for n in ast.walk(fi.node):
            is_sort = isinstance(n, ast.Call) and ((isinstance(n.func, ast.Name) and n.func.id == "sorted") or (isinstance(n.func, ast.Attribute) and n.func.attr == "sort"))
            if not is_sort:
                continue
            n_sorts += 1
            key = next((k.value for k in n.keywords if k.arg == "key"), None)
            if key is None:
                res.ok(rule, fi.short, norm(n)[:100], "natural-order", loc(fi, n))
                continue
            txt = norm(key)
            derived = any(isinstance(x, ast.Call) and isinstance(x.func, ast.Name) and x.func.id in ("type", "str", "repr", "hash", "id") for x in ast.walk(key)) or (isinstance(key, ast.Name) and key.id in ("str", "repr", "hash", "id", "type")) or "__name__" in txt or "__class__" in txt
            res.add(rule, fi.short, norm(n)[:100], "natural-order", "violation" if derived else "unknown", f"the nodes of a hyperedge are ordered by `{txt[:60]}`, not by the labels themselves: equal labels of different type (1 and numpy.int64(1)) are placed differently, so the same node set gets two canonical keys (two records, weights not merged)" if derived else "sorted with a custom key", loc(fi, n))
    if n_sorts == 0:
        res.unknown(rule, cls, "tuple(sorted(edge))", "natural-order", "no sorting call found in the canonicalisation code of the class", mod.relpath)


def check_merge_key(ctx, res: Result, cls: str, rule="P-MERGEKEY"):
    """Where a method has just established that a key K IS a record (`K in _edge_list`, the non-fresh arm of the membership
    test), the weight / metadata it merges there goes to the record of K: an update addressed through `_edge_list[K2]` with
    another key K2 writes into a different record (typically the one that is being removed)."""
    res.rules.setdefault(rule, "on the arm where a key was found in the edge index, merged weight / metadata is addressed through that same key")
    n_sites = 0
    for name, fi in sorted(ctx.methods(cls).items()):
        v = ctx.view(fi)
        mems = _membership_atoms(v, "_edge_list")
        if not mems:
            continue
        for m in mems:
            ab = m.absent_branch()
            if ab is None:
                continue
            present = "F" if ab == "T" else "T"
            tid = v.cfg.by_ast.get(id(m.ifnode.test))
            if tid is None:
                continue
            for n in walk_no_nested(fi.node):
                if not isinstance(n, (ast.Assign, ast.AugAssign)):
                    continue
                tg = n.targets if isinstance(n, ast.Assign) else [n.target]
                for t in tg:
                    if not (isinstance(t, ast.Subscript) and (v.table_of(t.value) or (None, None))[1] in ("_weights", "_edge_metadata")):
                        continue
                    # the id is looked up through the edge index: T[ self._edge_list[K2] ]
                    idx = t.slice
                    if isinstance(idx, ast.Name) and isinstance(n, ast.AugAssign) and (v.table_of(t.value) or (None, None))[1] == "_weights":
                        # ids held in locals: `target_id = self._edge_list[key]` is the found record; `self._weights[edge_id] +=
                        # self._weights[target_id]` adds the found record's weight INTO the other record (the one being removed)
                        found_ids = {a_.targets[0].id for a_ in walk_no_nested(fi.node) if isinstance(a_, ast.Assign) and len(a_.targets) == 1 and isinstance(a_.targets[0], ast.Name) and isinstance(a_.value, ast.Subscript) and (v.table_of(a_.value.value) or (None, None))[1] == "_edge_list" and _same_expr(a_.value.slice, m.key, v)}
                        nid_ = v.cfg_id(n)
                        if found_ids and nid_ is not None and v.cfg.branch_dominated(tid, present, nid_):
                            reads_found = any(isinstance(x, ast.Subscript) and (v.table_of(x.value) or (None, None))[1] == "_weights" and isinstance(x.slice, ast.Name) and x.slice.id in found_ids for x in ast.walk(n.value))
                            if idx.id in found_ids:
                                n_sites += 1
                                res.ok(rule, fi.short, norm(n)[:110], "same-key", _where(v, n))
                            elif reads_found:
                                n_sites += 1
                                res.violation(rule, fi.short, norm(n)[:110], "same-key", f"`{norm(m.key)}` was found in the edge index (its record is `{sorted(found_ids)[0]}`), but the merged weight is stored in the record `{idx.id}` - the one that is removed afterwards: the surviving record keeps its old weight", _where(v, n))
                        continue
                    if not (isinstance(idx, ast.Subscript) and (v.table_of(idx.value) or (None, None))[1] == "_edge_list"):
                        continue
                    nid = v.cfg_id(n)
                    if nid is None or not v.cfg.branch_dominated(tid, present, nid):
                        continue
                    n_sites += 1
                    same = _same_expr(idx.slice, m.key, v)
                    res.add(rule, fi.short, norm(n)[:110], "same-key", "ok" if same else "violation", "" if same else f"`{norm(m.key)}` was found in the edge index, but the update goes to the record of `{norm(idx.slice)}`: the existing record keeps its old weight / metadata (and what was written is lost if that other record is removed)", _where(v, n))
    if n_sites == 0:
        res.ok(rule, cls, "no merge addressed through the edge index on a found-key arm", "scan", ctx.prog.cls(cls).module.relpath)

"""Frozen rule slots: table kinds, parameter kinds, anchors.  Every entry was read off the repository
(see DESIGN 2.B) and is cross-checked against what the run infers from `__init__` / `add_edge` / `add_node`
(`infer.py`); drift is an ANALYSIS-ERROR, never a silent pass.
"""
from __future__ import annotations

from .kinds import (
    BOOL,
    EID,
    IDX,
    LAYER,
    META,
    NODE,
    NODE_S,
    NODE_T,
    NUM,
    ORDER,
    SIZE,
    STR,
    TIME,
    TOP,
    WEIGHT,
    Dct,
    Lst,
    Obj,
    Seq,
    St,
    Tup,
    opt,
    union,
)

CONTAINERS = ("Hypergraph", "DirectedHypergraph", "TemporalHypergraph", "MultiplexHypergraph")
CORE_FILES = {
    "Hypergraph": "hypergraphx/core/hypergraph.py",
    "DirectedHypergraph": "hypergraphx/core/directed_hypergraph.py",
    "TemporalHypergraph": "hypergraphx/core/temporal_hypergraph.py",
    "MultiplexHypergraph": "hypergraphx/core/multiplex_hypergraph.py",
}

# ---- key shapes -------------------------------------------------------------------------------------
SEQ_R = Seq(NODE, False)
SEQ_C = Seq(NODE, True)
DEDGE_R = Tup((Seq(NODE_S, False), Seq(NODE_T, False)))
DEDGE_C = Tup((Seq(NODE_S, True), Seq(NODE_T, True)))
TKEY_C = Tup((TIME, SEQ_C))
TKEY_R = Tup((TIME, SEQ_R))
MKEY_C = Tup((SEQ_C, LAYER))
MKEY_R = Tup((SEQ_R, LAYER))

KEY_C = {"Hypergraph": SEQ_C, "DirectedHypergraph": DEDGE_C, "TemporalHypergraph": TKEY_C, "MultiplexHypergraph": MKEY_C}
# what a caller passes as `edge` (the node part only; time / layer travel separately)
EDGE_R = {"Hypergraph": SEQ_R, "DirectedHypergraph": DEDGE_R, "TemporalHypergraph": SEQ_R, "MultiplexHypergraph": SEQ_R}


def class_tables(cls: str) -> dict:
    """attribute name -> kind, for the tables of container class `cls` (one line of reason each)."""
    key = KEY_C[cls]
    t = {
        "_edge_list": Dct(key, EID),  # add_edge: self._edge_list[<canonical key>] = <fresh id>
        "_reverse_edge_list": Dct(EID, key),  # add_edge: inverse of the above, same statement group
        "_weights": Dct(EID, WEIGHT),  # add_edge: self._weights[id] = weight
        "_edge_metadata": Dct(EID, META),  # add_edge / set_edge_metadata: keyed by id
        "_node_metadata": Dct(NODE, META),  # add_node: self._node_metadata[node] = metadata
        "_hypergraph_metadata": META,  # plain attribute dict
        "_incidences_metadata": Dct(Tup((key, NODE)), META),  # set_incidence_metadata: [(edge-key, node)]
        "_next_edge_id": EID,  # the id counter
        "_weighted": BOOL,
    }
    if cls == "DirectedHypergraph":
        t["_adj_source"] = Dct(NODE_S, Lst(EID))  # add_edge: for node in source: _adj_source[node].append(id)
        t["_adj_target"] = Dct(NODE_T, Lst(EID))
    else:
        t["_adj"] = Dct(NODE, Lst(EID))  # add_edge: for node in edge: _adj[node].append(id)
    if cls == "Hypergraph":
        t["_empty_edges"] = Dct(TOP, META)  # add_empty_edge(name, metadata): keyed by an arbitrary name
        # Hypergraph.set_incidence_metadata stores the *raw* edge: not canonical, outside every property clause
        t["_incidences_metadata"] = Dct(TOP, META)
    if cls == "MultiplexHypergraph":
        t["_existing_layers"] = St(LAYER)
        del t["_incidences_metadata"]
    return {k: _tag(v, f"{cls}.{k}") for k, v in t.items()}


def _tag(k, tag):
    if isinstance(k, Dct):
        val = k.val
        if isinstance(val, Lst):
            val = Lst(val.elem, val.sorted, tag=tag + "[]")
        return Dct(k.key, val, tag=tag)
    if isinstance(k, St):
        return St(k.elem, tag=tag)
    return k


# which tables are keyed by what (used by the pairing rules)
EDGE_ID_TABLES = ("_reverse_edge_list", "_weights", "_edge_metadata")
EDGE_KEY_TABLE = "_edge_list"
ADJ_TABLES = {
    "Hypergraph": ("_adj",),
    "DirectedHypergraph": ("_adj_source", "_adj_target"),
    "TemporalHypergraph": ("_adj",),
    "MultiplexHypergraph": ("_adj",),
}
NODE_TABLES = {
    "Hypergraph": ("_adj", "_node_metadata"),
    "DirectedHypergraph": ("_adj_source", "_adj_target", "_node_metadata"),
    "TemporalHypergraph": ("_adj", "_node_metadata"),
    "MultiplexHypergraph": ("_adj", "_node_metadata"),
}

# ---- parameter kinds ------------------------------------------------------------------------------
# default by parameter name inside the four container classes
PARAM_BY_NAME = {
    "node": NODE,
    "time": TIME,
    "layer": LAYER,
    "weight": opt(WEIGHT),
    "metadata": opt(META),
    "order": opt(ORDER),
    "size": opt(SIZE),
    "up_to": BOOL,
    "keep_edges": BOOL,
    "keep_isolated_nodes": BOOL,
    "subhypergraph": BOOL,
    "asdict": BOOL,
    "weighted": BOOL,
    "field": STR,
    "value": TOP,
    "node_list": Lst(NODE),
    "nodes": Lst(NODE),
    "weights": opt(Lst(WEIGHT)),
    "time_list": Lst(TIME),
    "edge_layer": Lst(LAYER),
    "return_mapping": BOOL,
    "hypergraph_metadata": opt(META),
    "node_metadata": opt(Dct(NODE, META)),
    "edge_metadata": opt(Lst(META)),
    "orders": opt(Lst(ORDER)),
    "sizes": opt(Lst(SIZE)),
    "keep_nodes": BOOL,
    "time_window": TOP,
    "add_all_nodes": BOOL,
    "layer_name": LAYER,
}

# (Class, method, param) overrides, each confirmed from the docstring and the internal call sites
PARAM_OVERRIDE = {
    # remove_edge of the multiplex container takes the composite ((nodes...), layer) key  [docstring]
    ("MultiplexHypergraph", "remove_edge", "edge"): MKEY_R,
    # batch inserts: metadata is a list parallel to edge_list
    ("*", "add_edges", "metadata"): opt(Lst(META)),
    # add_nodes(node_list, metadata): dict node -> metadata
    ("*", "add_nodes", "metadata"): opt(Dct(NODE, META)),
    ("MultiplexHypergraph", "add_nodes", "node_metadata"): opt(Dct(NODE, META)),
    # boolean "metadata" flag of the listing methods
    ("*", "get_nodes", "metadata"): BOOL,
    ("*", "get_edges", "metadata"): BOOL,
    # raw setters take whole tables
    ("*", "set_hypergraph_metadata", "metadata"): META,
    ("*", "set_node_metadata", "metadata"): META,
    ("*", "set_edge_metadata", "metadata"): META,
    ("*", "set_incidence_metadata", "metadata"): META,
    ("MultiplexHypergraph", "set_dataset_metadata", "metadata"): META,
    ("MultiplexHypergraph", "set_layer_metadata", "metadata"): META,
    ("Hypergraph", "add_empty_edge", "metadata"): META,
    # TemporalHypergraph.remove_edges takes (time, edge) records, the form get_edges() returns
    ("TemporalHypergraph", "remove_edges", "edge_list"): Lst(TKEY_R),
    # constructors of the temporal / multiplex containers accept embedded (time, edge) / (edge, layer) records
    ("TemporalHypergraph", "__init__", "edge_list"): TOP,
    ("MultiplexHypergraph", "__init__", "edge_list"): TOP,
    # aggregate(time_window): window width
    ("TemporalHypergraph", "aggregate", "time_window"): NUM,
    # Hypergraph.subhypergraph(nodes)
    ("Hypergraph", "subhypergraph", "nodes"): Lst(NODE),
}


def edge_list_kind(cls: str):
    return Lst(EDGE_R[cls])


def param_kind(cls: str, method: str, pname: str):
    for key in ((cls, method, pname), ("*", method, pname)):
        if key in PARAM_OVERRIDE:
            return PARAM_OVERRIDE[key]
    if pname == "edge":
        return EDGE_R[cls]
    if pname == "edge_list":
        return edge_list_kind(cls)
    return PARAM_BY_NAME.get(pname)


# ---- module-level helper signatures (canonicalisers and size helpers) -----------------------------
# `_canon_edge` takes a node sequence (or a pair of node sequences): never a composite key.
HELPER_PARAMS = {
    "_canon_edge": {"edge": union(SEQ_R, DEDGE_R)},
    "_get_size": {"edge": union(SEQ_R, DEDGE_R)},
    "_get_order": {"edge": union(SEQ_R, DEDGE_R)},
    "_get_nodes": {"edge": union(SEQ_R, DEDGE_R)},
    "_get_edge_size": {"edge": DEDGE_R},
    # linalg: the incidence builder takes hyperedges already relabelled to row indices
    "hye_list_to_binary_incidence": {"hye_list": Lst(Seq(IDX, False))},
}

# un-annotated receivers in client modules: these parameter names denote a plain Hypergraph unless the
# function is listed in POLYMORPHIC (the functions the properties declare to work on every container)
# private container methods of the pinned tree whose parameter names do follow the public naming (kept declared)
PRIVATE_DECLARED = {"_restructure_query_edge", "_canon_edge", "_normalize_edge"}

DUCK_NAMES = {"hypergraph", "hg", "h", "H", "HG"}
ALL_CONTAINERS = union(*[Obj(c) for c in CONTAINERS])
POLYMORPHIC = {
    # (module tail, function, parameter) -> candidate classes
    ("metadata_filters", "filter_hypergraph", "hypergraph"): ALL_CONTAINERS,  # C19 "for every container type"
    ("save", "save_hypergraph", "hypergraph"): ALL_CONTAINERS,  # C06 "for every type and format"
    ("save", "_save_pickle", "obj"): ALL_CONTAINERS,
    ("hashing", "hash_hypergraph", "hypergraph"): ALL_CONTAINERS,  # C07 "all four container types"
    ("degree", "degree", "hg"): ALL_CONTAINERS,  # C08 "degrees also for Directed, Temporal and Multiplex"
    ("degree", "degree_sequence", "hg"): ALL_CONTAINERS,
    ("degree", "degree_distribution", "hg"): union(Obj("Hypergraph"), Obj("DirectedHypergraph"), Obj("TemporalHypergraph")),
    # line graphs: the threshold `s` bounds an intersection SIZE (a number of shared nodes) from below  [docstring]
    ("projections", "line_graph", "s"): SIZE,
    ("projections", "directed_line_graph", "s"): SIZE,
}

# assumption A1 (DESIGN 2.B): node labels are not tuples; `isinstance(<NODE>, tuple)` folds to False.

# client modules: parameters called `order` / `size` denote a hyperedge order / size, except where the word means
# something else (motif order = number of nodes, numpy `size=` sample counts, EM model sizes)
# (`max_hyperedge_size`: the size bound of the directed measures - "sizes 2..6, all bounds max_hyperedge_size >= 2", C12)
CLIENT_PARAM_BY_NAME = {"order": opt(ORDER), "size": opt(SIZE), "max_hyperedge_size": opt(SIZE)}
CLIENT_NAME_EXCLUDED_PREFIXES = (
    "hypergraphx.motifs",
    "hypergraphx.communities",
    "hypergraphx.generation.hy_mmsbm_sampling",
    "hypergraphx.filters.statistical_filters",
    "hypergraphx.viz",
    "hypergraphx.dynamics.synch",
)


# ---- documented result kinds of the queries (K-RET) -------------------------------------------------------
def query_results(cls: str) -> dict:
    """method name -> tuple of admissible result kinds (one of them per return path), read off the docstrings of the
    container classes: what a caller is promised to get back.  Only kinds, never values."""
    key = KEY_C[cls]
    node = NODE
    r = {
        "check_node": (BOOL,),
        "check_edge": (BOOL,),
        "is_weighted": (BOOL,),
        "is_uniform": (BOOL,),
        "is_isolated": (BOOL,),
        "get_weight": (WEIGHT,),
        "get_weights": (Lst(WEIGHT), Dct(key, WEIGHT)),
        "max_order": (ORDER,),
        "max_size": (SIZE,),
        "get_sizes": (Lst(SIZE),),
        "get_orders": (Lst(ORDER),),
        "distribution_sizes": (Dct(SIZE, NUM),),
        "num_nodes": (NUM,),
        "num_edges": (NUM,),
        "get_nodes": (Lst(node), Dct(node, META)),
        "get_edges": (Lst(key), Dct(key, META), Obj(cls)),
        "get_incident_edges": (Lst(key),),
        "get_neighbors": (St(node), Lst(node)),
        "isolated_nodes": (Lst(node),),
        "get_node_metadata": (META,),
        "get_edge_metadata": (META,),
        "get_hypergraph_metadata": (META,),
        "get_incidence_metadata": (META,),
    }
    if cls == "DirectedHypergraph":
        r["get_sources"] = (Lst(Seq(NODE_S, True)),)
        r["get_targets"] = (Lst(Seq(NODE_T, True)),)
        r["get_source_edges"] = (Lst(key),)
        r["get_target_edges"] = (Lst(key),)
    if cls == "TemporalHypergraph":
        r["get_times_for_edge"] = (Lst(TIME),)
        r["min_time"] = (TIME,)
        r["max_time"] = (TIME,)
        r["subhypergraph"] = (Dct(TIME, Obj("Hypergraph")),)
    if cls == "MultiplexHypergraph":
        r["get_existing_layers"] = (St(LAYER), Lst(LAYER))
        r["aggregated_hypergraph"] = (Obj("Hypergraph"),)
    return r

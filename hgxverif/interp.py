"""Kind inference: a flow-sensitive abstract interpreter over the AST (DESIGN 2.B).

Modular for the container classes (each method is analysed against its declared parameter kinds and every
call to it is checked against them, with literal-flag specialisation of the return kind) and
context-sensitive (analysed under the actual argument kinds, memoised, depth-bounded) for helpers,
closures and client-module functions.  Nothing is executed: only `ast` nodes are walked.
"""
from __future__ import annotations

import ast
from dataclasses import dataclass, field
from typing import Dict, List, Optional, Tuple

from . import tables as T
from .kinds import (
    KW_NAMES,
    Kw,
    kw_of,
    BOOL,
    EID,
    POS,
    EMPTY,
    IDX,
    LAYER,
    META,
    NODE,
    NONE,
    NUM,
    OK,
    ORDER,
    SIZE,
    STR,
    TIME,
    TOP,
    UNKNOWN,
    VID,
    WEIGHT,
    Atom,
    Const,
    Dct,
    Fn,
    K,
    Lst,
    Mismatch,
    Obj,
    Seq,
    St,
    Tup,
    TypeNameOf,
    Union,
    _Top,
    deconst,
    elem_of,
    fits,
    is_known,
    join,
    join_all,
    may_be_none,
    only_none,
    opt,
    strip_none,
    union,
    unrole,
)
from .model import AnalysisError, ClassInfo, FunctionInfo, ModuleInfo, Program, loc, norm

MAX_DEPTH = 4
LOOP_ITERS = 3


@dataclass
class Site:
    rule: str  # K-KEY, K-VAL, K-ARG, K-SIZE, K-LEN, K-VID, K-MEM, C-SIG ...
    func: str  # FunctionInfo.short
    qual: str
    where: str  # file:line
    stmt: str  # normalised text of the expression / statement
    detail: str  # table / parameter / operands
    verdict: str  # ok | unknown | mismatch
    reason: str = ""
    ctx: str = ""
    node_id: int = 0

    def key(self):
        return (self.rule, self.func, self.stmt, self.detail)


@dataclass
class CallFact:
    caller: FunctionInfo
    node: ast.Call
    callee: FunctionInfo
    bound: Dict[str, K]
    env: Dict[str, K]
    ctx: str


class Closure:
    def __init__(self, fi, env):
        self.fi = fi
        self.env = env


class _SoftFrame:
    """wrapper marking a call whose receiver class is only guessed from a parameter name: mismatches are not definite"""

    def __init__(self, inner):
        self.inner = inner

    def __getattr__(self, name):
        return getattr(self.inner, name)


class Frame:
    def __init__(self, fi: FunctionInfo, depth: int, ctx: str, record: bool):
        self.fi = fi
        self.depth = depth
        self.ctx = ctx
        self.record = record
        self.returns: List[K] = []
        self.yields: List[K] = []
        self.loop_breaks: List[List[dict]] = []
        self.loop_conts: List[List[dict]] = []


def _copy(env):
    return dict(env) if env is not None else None


def join_env(a, b):
    if a is None:
        return _copy(b)
    if b is None:
        return _copy(a)
    out = {}
    for k in set(a) | set(b):
        if k in a and k in b:
            out[k] = join(a[k], b[k])
        else:
            # defined on one path only: keep what is known (possibly-undefined is not our rule)
            out[k] = a.get(k, b.get(k))
    return out


BUILTIN_NAMES = {
    "tuple", "list", "set", "frozenset", "sorted", "len", "range", "enumerate", "zip", "dict", "max", "min",
    "sum", "abs", "round", "int", "float", "str", "bool", "isinstance", "print", "iter", "next", "map",
    "filter", "any", "all", "type", "hasattr", "getattr", "reversed", "repr", "ValueError", "TypeError",
    "KeyError", "Exception", "RuntimeError", "AttributeError", "NotImplementedError", "IndexError",
    "StopIteration", "open", "super", "id", "callable", "divmod", "pow", "format", "UserWarning",
}


class Interp:
    def __init__(self, prog: Program):
        self.prog = prog
        self.sites: Dict[Tuple, Site] = {}
        self.ann: Dict[Tuple[str, int], K] = {}
        self.ann_entry: Dict[Tuple[str, int], K] = {}
        self.ann_call: Dict[Tuple[str, int], K] = {}
        self._memo: Dict[Tuple, K] = {}
        self._in_progress: set = set()
        self.closures: Dict[str, Closure] = {}
        self.lambdas: Dict[int, Tuple[ast.Lambda, dict, FunctionInfo]] = {}
        self.class_tables = {c: T.class_tables(c) for c in T.CONTAINERS}
        self.container_cls = {c: prog.cls(c) for c in T.CONTAINERS}
        self.analysed_functions = 0
        self.callfacts: List[CallFact] = []
        self.call_stats = {"resolved": 0, "duck": 0, "extern": 0, "unresolved": 0}

    # ================================================================ declared signatures
    def declared_param(self, fi: FunctionInfo, pname: str) -> Optional[K]:
        if fi.cls is not None and fi.cls.name in T.CONTAINERS and fi.parent is None:
            if fi.name.startswith("_") and not fi.name.startswith("__") and fi.name not in T.PRIVATE_DECLARED:
                # a private helper: its parameter names carry no documented meaning (a `node_metadata` argument may be a
                # list of pairs); it is analysed with the kinds of the actual arguments of its callers
                return None
            return T.param_kind(fi.cls.name, fi.name, pname)
        if fi.cls is None and fi.parent is None and fi.name in T.HELPER_PARAMS:
            return T.HELPER_PARAMS[fi.name].get(pname)
        return None

    def is_declared(self, fi: FunctionInfo) -> bool:
        if fi.parent is not None:
            return False
        if fi.cls is not None and fi.cls.name in T.CONTAINERS:
            return True
        return fi.cls is None and fi.name in T.HELPER_PARAMS

    def annotation_kind(self, fi: FunctionInfo, arg: ast.arg) -> K:
        """Kind from a parameter annotation / duck name (client modules)."""
        pk = T.POLYMORPHIC.get((fi.module.name.split(".")[-1], fi.name, arg.arg))
        if pk is not None and fi.parent is None:
            return pk
        ann = arg.annotation
        if ann is not None:
            k = self._ann_to_kind(fi.module, ann)
            if not isinstance(k, _Top):
                return k
        if arg.arg in T.DUCK_NAMES:
            # a guess from the parameter's name: calls on it are resolved against Hypergraph, but a call that does
            # not fit Hypergraph's signature is `unknown`, not a mismatch (the object may be another container)
            return Obj("Hypergraph", ("DUCK",))
        if arg.arg in T.CLIENT_PARAM_BY_NAME and fi.cls is None and not fi.module.name.startswith(T.CLIENT_NAME_EXCLUDED_PREFIXES):
            return T.CLIENT_PARAM_BY_NAME[arg.arg]
        return TOP

    def _ann_to_kind(self, m: ModuleInfo, ann: ast.AST) -> K:
        if isinstance(ann, ast.Constant) and isinstance(ann.value, str):
            try:
                ann = ast.parse(ann.value, mode="eval").body
            except SyntaxError:
                return TOP
        if isinstance(ann, ast.BinOp) and isinstance(ann.op, ast.BitOr):
            parts = [self._ann_to_kind(m, ann.left), self._ann_to_kind(m, ann.right)]
            if any(isinstance(p, _Top) for p in parts):
                return TOP
            return union(*parts)
        if isinstance(ann, ast.Name):
            r = self.prog.resolve_name(m, ann.id)
            if isinstance(r, ClassInfo):
                return Obj(r.name)
            if ann.id == "LabelEncoder":
                return Obj("LabelEncoder")
        return TOP

    def entry_bindings(self, fi: FunctionInfo) -> Dict[str, K]:
        out = {}
        params = fi.params
        for i, a in enumerate(params):
            if i == 0 and fi.cls is not None and not fi.is_static and fi.parent is None:
                out[a.arg] = Obj(fi.cls.name)
                continue
            if fi.rewrapped:
                # a repository decorator may have validated / converted / canonicalised the argument before the body runs
                out[a.arg] = TOP
                continue
            dk = self.declared_param(fi, a.arg)
            out[a.arg] = dk if dk is not None else self.annotation_kind(fi, a)
        for a in fi.node.args.kwonlyargs:
            dk = self.declared_param(fi, a.arg)
            out[a.arg] = TOP if fi.rewrapped else (dk if dk is not None else self.annotation_kind(fi, a))
        # a parameter that DEFAULTS to a module / class / function of the program (`_nx=nx`, `_factory=Hypergraph`, `_search=_bfs`:
        # a testability seam) stands for that object when nothing else is known about it
        if not fi.rewrapped:
            for pname, d in fi.defaults().items():
                if pname in out and isinstance(out[pname], _Top) and isinstance(d, (ast.Name, ast.Attribute)):
                    k = self.global_name(fi.module, d.id) if isinstance(d, ast.Name) else TOP
                    if isinstance(d, ast.Attribute):
                        r = self.prog.resolve_attr_chain(fi.module, d)
                        if isinstance(r, FunctionInfo):
                            k = Fn(r.qualname)
                        elif isinstance(r, ClassInfo):
                            k = Fn("class:" + r.qualname)
                        elif isinstance(r, tuple):
                            k = Fn(("module:" if r[0] == "module" else "extern:") + r[1])
                    if isinstance(k, Fn):
                        out[pname] = k
        if fi.node.args.vararg:
            out[fi.node.args.vararg.arg] = TOP
        if fi.node.args.kwarg:
            out[fi.node.args.kwarg.arg] = TOP
        return out

    # ================================================================ driver
    def analyse_all(self):
        for q, fi in sorted(self.prog.functions.items()):
            if fi.parent is not None:
                continue
            self.analyse_entry(fi)

    def analyse_entry(self, fi: FunctionInfo) -> K:
        b = self.entry_bindings(fi)
        return self.analyse(fi, b, ctx="entry", depth=0, record=True)

    def analyse(self, fi: FunctionInfo, bindings: Dict[str, K], ctx: str, depth: int, record: bool, closure_env=None) -> K:
        key = (fi.qualname, tuple(sorted((k, v) for k, v in bindings.items())), id(closure_env) if closure_env is not None else 0)
        if key in self._memo:
            return self._memo[key]
        if key in self._in_progress or depth > MAX_DEPTH:
            return TOP
        self._in_progress.add(key)
        try:
            fr = Frame(fi, depth, ctx, record)
            env = dict(closure_env) if closure_env else {}
            env.update(bindings)
            # parameters that were not bound take their default
            for name, d in fi.defaults().items():
                if name not in bindings:
                    env[name] = self._const_of(d)
            self.analysed_functions += 1
            body = fi.node.body
            if isinstance(fi.node, ast.Lambda):
                r = self.ev(body, env, fr)
                fr.returns.append(r)
            else:
                out = self.block(body, env, fr)
                if out is not None:
                    fr.returns.append(NONE)
            ret = join_all(fr.returns) if fr.returns else NONE
            if fr.yields:
                ret = Lst(join_all(fr.yields))
            self._memo[key] = ret
            return ret
        finally:
            self._in_progress.discard(key)

    @staticmethod
    def _const_of(d: ast.AST) -> K:
        if isinstance(d, ast.Constant) and (d.value is None or isinstance(d.value, (bool, int, float, str))):
            return Const(d.value)
        return TOP

    # ================================================================ sites
    def site(self, fr: Frame, rule: str, node: ast.AST, detail: str, verdict, expr_text: Optional[str] = None):
        if isinstance(fr, _SoftFrame):
            if isinstance(verdict, Mismatch):
                verdict = UNKNOWN
            fr = fr.inner
        if not fr.record:
            return
        v = "ok" if verdict is OK else ("unknown" if verdict is UNKNOWN else "mismatch")
        s = Site(
            rule=rule,
            func=fr.fi.short,
            qual=fr.fi.qualname,
            where=loc(fr.fi, node),
            stmt=expr_text or norm(node),
            detail=detail,
            verdict=v,
            reason=getattr(verdict, "reason", ""),
            ctx=fr.ctx,
            node_id=id(node),
        )
        k = (rule, fr.fi.qualname, id(node), detail)
        old = self.sites.get(k)
        rank = {"mismatch": 2, "ok": 1, "unknown": 0}
        # a site visited in several contexts / loop iterations: a definite mismatch wins, then ok, then unknown
        if old is None or rank[v] > rank[old.verdict]:
            self.sites[k] = s

    def annotate(self, fr: Frame, node: ast.AST, k: K):
        key = (fr.fi.qualname, id(node))
        old = self.ann.get(key)
        self.ann[key] = k if old is None else join(old, k)
        if fr.ctx == "entry":
            old = self.ann_entry.get(key)
            self.ann_entry[key] = k if old is None else join(old, k)
        elif fr.record:
            old = self.ann_call.get(key)
            self.ann_call[key] = k if old is None else join(old, k)

    def kind_at(self, fi: FunctionInfo, node: ast.AST) -> K:
        """Kind of an expression: in the declared (entry) context when there is one, else joined over contexts."""
        key = (fi.qualname, id(node))
        k = self.ann_entry.get(key)
        if k is None:
            return self.ann.get(key, TOP)
        if "?" in repr(k):
            # the declared context leaves it (partly) unknown - e.g. an un-annotated `mapping` parameter - while the
            # call contexts determine it
            j = self.ann_call.get(key)
            if j is not None and "?" not in repr(j):
                return j
        return k

    # ================================================================ statements
    def block(self, stmts, env, fr: Frame):
        for st in stmts:
            if env is None:
                return None
            env = self.stmt(st, env, fr)
        return env

    def stmt(self, st, env, fr: Frame):
        m = getattr(self, "st_" + type(st).__name__, None)
        if m is None:
            raise AnalysisError(f"interp: unsupported statement {type(st).__name__} at {loc(fr.fi, st)}")
        return m(st, env, fr)

    def st_Pass(self, st, env, fr):
        return env

    st_Global = st_Nonlocal = st_Import = st_ImportFrom = st_Pass

    def st_Expr(self, st, env, fr):
        self.ev(st.value, env, fr)
        return env

    def st_Assign(self, st, env, fr):
        k = self.ev(st.value, env, fr)
        for t in st.targets:
            self.assign(t, k, env, fr, st.value)
        return env

    def st_AnnAssign(self, st, env, fr):
        if st.value is not None:
            k = self.ev(st.value, env, fr)
            self.assign(st.target, k, env, fr, st.value)
        return env

    def st_AugAssign(self, st, env, fr):
        cur = self.ev(_as_load(st.target), env, fr)
        val = self.ev(st.value, env, fr)
        res = self.binop_kind(st.op, cur, val, st, env, fr)
        if isinstance(st.target, ast.Subscript):
            # table[k] += v : value stored must fit the table's value kind
            base = self.ev(st.target.value, env, fr)
            if isinstance(base, Dct) and base.tag and not isinstance(base.val, _Top):
                self.site(fr, "K-VAL", st, base.tag, fits(val, base.val), norm(st))
        else:
            self.assign(st.target, res, env, fr, st.value)
        return env

    def st_Return(self, st, env, fr):
        k = self.ev(st.value, env, fr) if st.value is not None else NONE
        fr.returns.append(k)
        return None

    def st_Raise(self, st, env, fr):
        if st.exc is not None:
            self.ev(st.exc, env, fr)
        return None

    def st_Assert(self, st, env, fr):
        self.ev(st.test, env, fr)
        return self.narrow(st.test, env, True, fr)

    def st_Delete(self, st, env, fr):
        for t in st.targets:
            if isinstance(t, ast.Subscript):
                self.ev(_as_load(t), env, fr)
            elif isinstance(t, ast.Name):
                env.pop(t.id, None)
        return env

    def st_Match(self, st, env, fr):
        """a match statement that the canonicalisation did not lower: every case body runs from the environment before the
        match (captured names are of unknown kind), the results are joined"""
        self.ev(st.subject, env, fr)
        out = None
        irrefutable = False
        for case in st.cases:
            e = _copy(env)
            for x in ast.walk(case.pattern):
                nm = getattr(x, "name", None)
                if isinstance(x, (ast.MatchAs, ast.MatchStar)) and nm:
                    e[nm] = TOP
                if isinstance(x, ast.MatchMapping) and x.rest:
                    e[x.rest] = TOP
            if case.guard is not None:
                self.ev(case.guard, e, fr)
            out = join_env(out, self.block(case.body, e, fr))
            if case.guard is None and isinstance(case.pattern, ast.MatchAs) and case.pattern.pattern is None:
                irrefutable = True
        return out if irrefutable else join_env(out, _copy(env))

    def st_If(self, st, env, fr):
        self.ev(st.test, env, fr)
        tv = self.truth(st.test, env, fr)
        e_true = e_false = None
        if tv is not False:
            e_true = self.block(st.body, self.narrow(st.test, _copy(env), True, fr), fr)
        if tv is not True:
            e2 = self.narrow(st.test, _copy(env), False, fr)
            e_false = self.block(st.orelse, e2, fr) if st.orelse else e2
        return join_env(e_true, e_false)

    def _loop(self, st, env, fr, bind):
        fr.loop_breaks.append([])
        fr.loop_conts.append([])
        cur = _copy(env)
        out_env = None
        for _ in range(LOOP_ITERS):
            body_env = _copy(cur)
            bind(body_env)
            after = self.block(st.body, body_env, fr)
            for c in fr.loop_conts[-1]:
                after = join_env(after, c)
            fr.loop_conts[-1].clear()
            new = join_env(cur, after)
            if new == cur:
                break
            cur = new
        out_env = cur
        for b in fr.loop_breaks[-1]:
            out_env = join_env(out_env, b)
        fr.loop_breaks.pop()
        fr.loop_conts.pop()
        if st.orelse:
            out_env = self.block(st.orelse, out_env, fr)
        return out_env

    def st_For(self, st, env, fr):
        it = self.ev(st.iter, env, fr)
        ek = elem_of(it)

        def bind(e):
            self.assign(st.target, ek, e, fr, None)

        return self._loop(st, env, fr, bind)

    def st_While(self, st, env, fr):
        def bind(e):
            self.ev(st.test, e, fr)

        out = self._loop(st, env, fr, bind)
        if isinstance(st.test, ast.Constant) and st.test.value is True and not any(
            isinstance(n, ast.Break) for n in ast.walk(st)
        ):
            return None
        return out

    def st_Break(self, st, env, fr):
        if fr.loop_breaks:
            fr.loop_breaks[-1].append(_copy(env))
        return None

    def st_Continue(self, st, env, fr):
        if fr.loop_conts:
            fr.loop_conts[-1].append(_copy(env))
        return None

    def st_With(self, st, env, fr):
        for item in st.items:
            self.ev(item.context_expr, env, fr)
            if item.optional_vars is not None:
                self.assign(item.optional_vars, TOP, env, fr, None)
        return self.block(st.body, env, fr)

    def st_Try(self, st, env, fr):
        before = _copy(env)
        after_body = self.block(st.body, _copy(env), fr)
        outs = []
        if st.orelse and after_body is not None:
            after_body = self.block(st.orelse, after_body, fr)
        outs.append(after_body)
        for h in st.handlers:
            henv = join_env(before, after_body)
            if henv is None:
                henv = _copy(before)
            # `except TypeError` after `X = tuple(...(X))`: X failed to iterate, it is a scalar of its element kind
            if _handler_is(h, "TypeError"):
                for name in _names_iterated_in(st.body):
                    if name in before and isinstance(before[name], (Seq, Lst, St)):
                        henv[name] = before[name].elem
            if h.name:
                henv[h.name] = TOP
            outs.append(self.block(h.body, henv, fr))
        res = None
        for o in outs:
            res = join_env(res, o) if o is not None else res
        if st.finalbody:
            res = self.block(st.finalbody, res if res is not None else _copy(before), fr)
        return res

    def st_FunctionDef(self, st, env, fr):
        nf = fr.fi.nested.get(st.name)
        if nf is None:
            return env
        self.closures[nf.qualname] = Closure(nf, env)  # live reference: later assignments are visible
        env[st.name] = Fn(nf.qualname)
        # analyse once at definition with unknown parameters so that every nested body is covered
        b = {a.arg: self.annotation_kind(nf, a) for a in nf.params}
        self.analyse(nf, b, ctx="closure-def", depth=fr.depth + 1, record=fr.record, closure_env=env)
        return env

    st_AsyncFunctionDef = st_FunctionDef

    def st_ClassDef(self, st, env, fr):
        return env

    # ================================================================ assignment
    def assign(self, target, k: K, env, fr: Frame, value_node):
        if isinstance(target, ast.Name):
            env[target.id] = k
            self.annotate(fr, target, k)
        elif isinstance(target, (ast.Tuple, ast.List)):
            n = len(target.elts)
            kk = strip_none(k) if isinstance(k, Union) else k
            if isinstance(kk, Tup) and len(kk.items) == n and not any(isinstance(e, ast.Starred) for e in target.elts):
                for t, ik in zip(target.elts, kk.items):
                    self.assign(t, ik, env, fr, None)
            elif isinstance(kk, Union) and all(isinstance(m, Tup) and len(m.items) == n for m in kk.members):
                for i, t in enumerate(target.elts):
                    self.assign(t, join_all([m.items[i] for m in kk.members]), env, fr, None)
            else:
                ek = elem_of(kk)
                for t in target.elts:
                    self.assign(t.value if isinstance(t, ast.Starred) else t, ek, env, fr, None)
        elif isinstance(target, ast.Subscript):
            base = self.ev(target.value, env, fr)
            idx = self.ev_index(target.slice, env, fr)
            self._check_key(fr, target, base, idx, store=True)
            if isinstance(target.value, ast.Name) and isinstance(target.slice, ast.Constant) and target.slice.value in KW_NAMES and (isinstance(base, Kw) or (isinstance(base, Dct) and base.key == EMPTY and not base.tag)):
                # kwargs["order"] = order on a local dict of keyword arguments
                d = dict(base.fields) if isinstance(base, Kw) else {}
                d[target.slice.value] = k
                env[target.value.id] = kw_of(d)
            elif isinstance(base, Dct):
                if base.tag and not isinstance(base.val, _Top):
                    self.site(fr, "K-VAL", target, base.tag, fits(k, base.val), norm(target) + " = " + (norm(value_node) if value_node is not None else "<value>"))
                elif not base.tag and isinstance(target.value, ast.Name):
                    # local dict literal being filled: refine its kind
                    nk = Dct(join(base.key, deconst(idx)) if base.key != EMPTY else deconst(idx), join(base.val, deconst(k)) if base.val != EMPTY else deconst(k))
                    env[target.value.id] = nk
            elif isinstance(base, Lst) and isinstance(target.value, ast.Name) and not base.tag:
                env[target.value.id] = Lst(join(base.elem, deconst(k)))
        elif isinstance(target, ast.Attribute):
            self.ev(target.value, env, fr)
            # self.<field> = value : checked for declared scalar fields only
            recv = self.ev(target.value, env, fr)
            if isinstance(recv, Obj) and recv.cls in self.class_tables:
                decl = self.class_tables[recv.cls].get(target.attr)
                if decl is not None and isinstance(decl, Atom) and decl.name in ("EID",):
                    self.site(fr, "K-VAL", target, f"{recv.cls}.{target.attr}", fits(k, decl), norm(target) + " = " + (norm(value_node) if value_node is not None else "<value>"))
        elif isinstance(target, ast.Starred):
            self.assign(target.value, Lst(elem_of(k)), env, fr, None)

    # ================================================================ expressions
    def ev(self, node, env, fr: Frame) -> K:
        if node is None:
            return NONE
        m = getattr(self, "ex_" + type(node).__name__, None)
        if m is None:
            k = TOP
            for ch in ast.iter_child_nodes(node):
                if isinstance(ch, ast.expr):
                    self.ev(ch, env, fr)
        else:
            k = m(node, env, fr)
        self.annotate(fr, node, k)
        return k

    def ev_index(self, sl, env, fr) -> K:
        if isinstance(sl, ast.Slice):
            for p in (sl.lower, sl.upper, sl.step):
                if p is not None:
                    self.ev(p, env, fr)
            return Atom("SLICE")
        return self.ev(sl, env, fr)

    def ex_Constant(self, node, env, fr):
        v = node.value
        if v is None or isinstance(v, (bool, int, float, str)):
            return Const(v)
        return TOP

    def ex_Name(self, node, env, fr):
        if node.id in env:
            return env[node.id]
        return self.global_name(fr.fi.module, node.id)

    def global_name(self, m: ModuleInfo, name: str) -> K:
        r = self.prog.resolve_name(m, name)
        if isinstance(r, FunctionInfo):
            return Fn(r.qualname)
        if isinstance(r, ClassInfo):
            return Fn("class:" + r.qualname)
        if isinstance(r, tuple):
            if r[0] == "module":
                return Fn("module:" + r[1])
            return Fn("extern:" + r[1])
        if name in BUILTIN_NAMES:
            return Fn("builtin:" + name)
        if name in ("True", "False", "None"):
            return Const({"True": True, "False": False, "None": None}[name])
        return TOP

    def ex_JoinedStr(self, node, env, fr):
        for v in node.values:
            if isinstance(v, ast.FormattedValue):
                self.ev(v.value, env, fr)
        return STR

    def ex_Tuple(self, node, env, fr):
        items = []
        for e in node.elts:
            if isinstance(e, ast.Starred):
                k = self.ev(e.value, env, fr)
                return Seq(join_all([deconst(i) for i in items] + [elem_of(k)]))
            items.append(self.ev(e, env, fr))
        return Tup(tuple(deconst(i) if not isinstance(i, Const) else i for i in items))

    def ex_List(self, node, env, fr):
        if not node.elts:
            return Lst(EMPTY)
        ks = []
        for e in node.elts:
            if isinstance(e, ast.Starred):
                ks.append(elem_of(self.ev(e.value, env, fr)))
            else:
                ks.append(deconst(self.ev(e, env, fr)))
        return Lst(join_all(ks))

    def ex_Set(self, node, env, fr):
        return St(join_all([deconst(self.ev(e, env, fr)) for e in node.elts]))

    def ex_Dict(self, node, env, fr):
        if not node.keys:
            return Dct(EMPTY, EMPTY)
        if all(isinstance(k, ast.Constant) and k.value in KW_NAMES for k in node.keys):
            # a dict of keyword arguments (`{"order": order}`), to be handed on with **
            return kw_of({k.value: self.ev(v, env, fr) for k, v in zip(node.keys, node.values)})
        ks, vs = [], []
        for k, v in zip(node.keys, node.values):
            if k is None:
                d = self.ev(v, env, fr)
                if isinstance(d, Dct):
                    ks.append(d.key)
                    vs.append(d.val)
                else:
                    ks.append(TOP)
                    vs.append(TOP)
                continue
            ks.append(deconst(self.ev(k, env, fr)))
            vs.append(deconst(self.ev(v, env, fr)))
        # dict literals with string keys are records: keep them opaque (META-like) but evaluated
        if all(x == STR for x in ks):
            return Dct(STR, join_all(vs) if len(set(vs)) == 1 else TOP)
        return Dct(join_all(ks), join_all(vs))

    def ex_IfExp(self, node, env, fr):
        self.ev(node.test, env, fr)
        tv = self.truth(node.test, env, fr)
        if tv is True:
            return self.ev(node.body, self.narrow(node.test, _copy(env), True, fr), fr)
        if tv is False:
            return self.ev(node.orelse, self.narrow(node.test, _copy(env), False, fr), fr)
        a = self.ev(node.body, self.narrow(node.test, _copy(env), True, fr), fr)
        b = self.ev(node.orelse, self.narrow(node.test, _copy(env), False, fr), fr)
        return join(a, b)

    def ex_BoolOp(self, node, env, fr):
        ks = []
        cur = _copy(env)
        for i, v in enumerate(node.values):
            k = self.ev(v, cur, fr)
            ks.append(k)
            # short-circuit narrowing for the following operands
            cur = self.narrow(v, cur, isinstance(node.op, ast.And), fr)
        if isinstance(node.op, ast.Or):
            # a or b: a's falsy alternatives (None / empty) are replaced by b
            parts = [strip_none(k) if i < len(ks) - 1 else k for i, k in enumerate(ks)]
            parts = [p for p in parts if not only_none(p)] or [ks[-1]]
            if all(_is_boolish(p) for p in parts):
                return BOOL
            return join_all(parts)
        if all(_is_boolish(k) for k in ks):
            return BOOL
        return join_all(ks)

    def ex_UnaryOp(self, node, env, fr):
        k = self.ev(node.operand, env, fr)
        if isinstance(node.op, ast.Not):
            return BOOL
        if isinstance(node.op, ast.USub):
            return deconst(k) if not isinstance(k, Const) else (Const(-k.value) if isinstance(k.value, (int, float)) and not isinstance(k.value, bool) else NUM)
        return deconst(k)

    def ex_BinOp(self, node, env, fr):
        a = self.ev(node.left, env, fr)
        b = self.ev(node.right, env, fr)
        return self.binop_kind(node.op, a, b, node, env, fr)

    def binop_kind(self, op, a: K, b: K, node, env, fr) -> K:
        a0, b0 = deconst(strip_none(a)), deconst(strip_none(b))
        one = lambda k: isinstance(k, Const) and k.value == 1 and not isinstance(k.value, bool)
        if isinstance(op, ast.Sub):
            if a0 == SIZE and one(b):
                return ORDER
            if a0 == SIZE and b0 == SIZE:
                return NUM
            if isinstance(a0, St):
                return a0
            if a0 in (SIZE, ORDER) or b0 in (SIZE, ORDER):
                return TOP
            return _num_join(a0, b0)
        if isinstance(op, ast.Add):
            if a0 == ORDER and one(b):
                return SIZE
            if one(a) and b0 == ORDER:
                return SIZE
            if a0 == SIZE and b0 == SIZE:
                return SIZE  # len(source) + len(target)
            if isinstance(a0, Lst) and isinstance(b0, (Lst, Seq)):
                return Lst(join(a0.elem, b0.elem))
            if isinstance(a0, Seq) and isinstance(b0, Seq):
                return Seq(join(a0.elem, b0.elem), False)
            if isinstance(a0, Tup) and isinstance(b0, Tup):
                return Tup(a0.items + b0.items)
            if isinstance(a0, Tup) and isinstance(b0, Seq):
                return Seq(join_all(list(a0.items) + [b0.elem]), False)
            if isinstance(a0, Seq) and isinstance(b0, Tup):
                return Seq(join_all(list(b0.items) + [a0.elem]), False)
            if a0 == STR or b0 == STR:
                return STR
            if a0 in (SIZE, ORDER) or b0 in (SIZE, ORDER):
                return TOP
            return _num_join(a0, b0)
        if isinstance(op, ast.Mult):
            if isinstance(a0, Lst):
                return a0
            if isinstance(b0, Lst):
                return b0
            return _num_join(a0, b0)
        if isinstance(op, ast.Mod) and a0 == STR:
            return STR
        if isinstance(op, (ast.BitOr, ast.BitAnd, ast.BitXor)):
            if isinstance(a0, St) or isinstance(b0, St):
                return St(join(elem_of(a0), elem_of(b0)))
            if _is_boolish(a0) and _is_boolish(b0):
                return BOOL
            return TOP
        if isinstance(op, (ast.Div, ast.FloorDiv, ast.Pow, ast.Mod)):
            return _num_join(a0, b0) if a0 not in (SIZE, ORDER) and b0 not in (SIZE, ORDER) else NUM
        return TOP

    def ex_Compare(self, node, env, fr):
        left = self.ev(node.left, env, fr)
        for op, comp in zip(node.ops, node.comparators):
            right = self.ev(comp, env, fr)
            self._check_compare(fr, node, op, left, right, node.left, comp, env)
            left = right
        return BOOL

    def _check_compare(self, fr, node, op, a: K, b: K, anode, bnode, env):
        if isinstance(op, (ast.In, ast.NotIn)):
            # membership: key kind against container
            cont = strip_none(b)
            if isinstance(cont, Dct):
                self._check_key(fr, node, cont, a, store=False, membership=True)
            elif isinstance(cont, (Lst, St, Seq)):
                if not isinstance(cont.elem, _Top) and cont.elem != EMPTY:
                    self.site(fr, "K-MEM", node, repr(cont), fits(unrole(deconst(a)), unrole(cont.elem)))
            elif isinstance(cont, Atom) and cont.name in ("NODE", "EID", "TIME", "LAYER", "IDX") and isinstance(a, Const) and isinstance(a.value, str):
                # "E" in <node label>: a vertex-id test applied to something that is not a vertex id
                self.site(fr, "K-VID", node, f"{a!r} in {cont!r}", Mismatch(f"string-membership test on a {cont!r} value (vertex-id test applied to a non-id)"))
            elif isinstance(a, Const) and isinstance(a.value, str) and isinstance(cont, Union) and all((isinstance(m, Atom) and m.name in ("NODE", "EID", "TIME", "LAYER", "IDX")) or isinstance(m, (Seq, Tup)) for m in cont.members):
                self.site(fr, "K-VID", node, f"{a!r} in {cont!r}", Mismatch(f"string-membership test on a {cont!r} value (vertex-id test applied to a translated object, not to an id)"))
            elif (cont == VID or cont == STR) and isinstance(a, Const) and isinstance(a.value, str):
                self.site(fr, "K-VID", node, f"{a!r} in id", OK)
            return
        a0, b0 = deconst(strip_none(a)), deconst(strip_none(b))
        # a value that is a SIZE on one path and a plain number on another (`s if cond else 0`) is compared as a SIZE
        for side in ("a", "b"):
            k = a0 if side == "a" else b0
            if isinstance(k, Union):
                strong = {m for m in k.members if m in (SIZE, ORDER)}
                if len(strong) == 1 and all(m in (SIZE, ORDER, NUM) or isinstance(m, Const) for m in k.members):
                    if side == "a":
                        a0 = next(iter(strong))
                    else:
                        b0 = next(iter(strong))
        if a0 in (SIZE, ORDER) and b0 in (SIZE, ORDER):
            v = OK if a0 == b0 else Mismatch(f"{a0!r} compared with {b0!r} (size/order off by one)")
            self.site(fr, "K-SIZE", node, f"{a0!r} {type(op).__name__} {b0!r}", v)
        elif (a0 in (SIZE, ORDER) or b0 in (SIZE, ORDER)) and isinstance(op, (ast.Eq, ast.NotEq, ast.Lt, ast.LtE, ast.Gt, ast.GtE)):
            other = b0 if a0 in (SIZE, ORDER) else a0
            if isinstance(other, _Top) or other == NUM:
                self.site(fr, "K-SIZE", node, f"{a0!r} {type(op).__name__} {b0!r}", UNKNOWN if isinstance(other, _Top) else OK)

    def ex_Subscript(self, node, env, fr):
        tn = typename_subscript_var(node)
        if tn is not None and tn in env:
            self.ev(node.value, env, fr)
            return TypeNameOf(tn)
        base = self.ev(node.value, env, fr)
        idx = self.ev_index(node.slice, env, fr)
        return self.subscript_kind(fr, node, base, idx)

    def subscript_kind(self, fr, node, base: K, idx: K) -> K:
        if isinstance(base, Union):
            return join_all([self.subscript_kind(fr, node, m, idx) for m in base.members if not only_none(m)])
        is_slice = idx == Atom("SLICE")
        if isinstance(base, Dct):
            self._check_key(fr, node, base, idx, store=False)
            return base.val if base.val != EMPTY else TOP
        if isinstance(base, Seq):
            return base if is_slice else base.elem
        if isinstance(base, Lst):
            if idx == EID and not is_slice:
                # a list is addressed by POSITION; edge ids are positions only while no hyperedge was ever removed (K-POS)
                self.site(fr, "K-POS", node, "list[EID]", Mismatch(f"a list ({base!r}) is indexed by an edge id: ids equal list positions only as long as no hyperedge has been removed - afterwards the entry of a different hyperedge is read (or an IndexError is raised)"))
            return Lst(base.elem, base.sorted) if is_slice else base.elem
        if isinstance(base, Tup):
            if isinstance(idx, Const) and isinstance(idx.value, int) and not isinstance(idx.value, bool):
                i = idx.value
                if -len(base.items) <= i < len(base.items):
                    return base.items[i]
                self.site(fr, "K-KEY", node, "tuple-index", Mismatch(f"index {i} out of range for {base!r}"))
                return TOP
            if is_slice:
                sl = node.slice
                lo = sl.lower.value if isinstance(sl.lower, ast.Constant) else (None if sl.lower is None else "?")
                hi = sl.upper.value if isinstance(sl.upper, ast.Constant) else (None if sl.upper is None else "?")
                if lo != "?" and hi != "?" and sl.step is None:
                    return Tup(base.items[lo:hi])
                return TOP
            return join_all(base.items) if base.items else TOP
        if base == STR or (isinstance(base, Const) and isinstance(base.value, str)):
            return STR
        if base == META:
            return TOP
        return TOP

    def _check_key(self, fr, node, base: K, idx: K, store: bool, membership: bool = False):
        if not isinstance(base, Dct):
            return
        if isinstance(base.key, _Top) or base.key == EMPTY:
            return
        if idx == Atom("SLICE"):
            return
        if base.tag:
            self.site(fr, "K-KEY", node, base.tag, fits(deconst(idx) if not isinstance(idx, Tup) else idx, base.key))
        elif not store:
            v = fits(unrole(deconst(idx) if not isinstance(idx, Tup) else idx), unrole(base.key))
            self.site(fr, "K-KEY-LOCAL", node, repr(base), v)

    def ex_Attribute(self, node, env, fr):
        # dotted module access first (np.random.rand, nx.Graph ...)
        if isinstance(node.value, (ast.Name, ast.Attribute)) and _root_name(node) not in env:
            r = self.prog.resolve_attr_chain(fr.fi.module, node)
            if isinstance(r, FunctionInfo):
                return Fn(r.qualname)
            if isinstance(r, ClassInfo):
                return Fn("class:" + r.qualname)
            if isinstance(r, tuple):
                return Fn(("module:" if r[0] == "module" else "extern:") + r[1])
        recv = self.ev(node.value, env, fr)
        return self.attr_kind(recv, node.attr, fr)

    def attr_kind(self, recv: K, attr: str, fr) -> K:
        if isinstance(recv, Union):
            parts = [self.attr_kind(m, attr, fr) for m in recv.members if not only_none(m)]
            if parts and all(isinstance(p, Fn) for p in parts):
                return union(*parts)
            return join_all(parts)
        if isinstance(recv, Obj):
            if recv.cls in self.class_tables:
                tab = self.class_tables[recv.cls].get(attr)
                if tab is not None:
                    return tab
                ci = self.container_cls[recv.cls]
                if attr in ci.methods:
                    return Fn(ci.methods[attr].qualname, recv)
                return Fn("missing:" + recv.cls + "." + attr, recv) if attr not in ci.all_self_attrs() else TOP
            if recv.cls == "LabelEncoder" and attr == "classes_":
                return Lst(NODE, sorted=True)  # sorted labels == row order of the encoder
            try:
                ci = self.prog.cls(recv.cls)
            except AnalysisError:
                ci = None
            if ci is not None:
                # a repo class: methods are callable values, data attributes are unknown (possibly None)
                if attr in ci.methods:
                    m = ci.methods[attr]
                    return TOP if m.is_property else Fn(m.qualname, recv)
                return TOP
            return Fn("method:" + attr, recv)
        if isinstance(recv, Fn) and recv.target.startswith(("extern:", "module:")):
            return Fn(recv.target.split(":", 1)[0] + ":" + recv.target.split(":", 1)[1] + "." + attr)
        if isinstance(recv, (Dct, Lst, St, Seq, Tup)) or recv in (STR, META) or isinstance(recv, Const):
            return Fn("method:" + attr, recv)
        if isinstance(recv, Atom):
            return Fn("method:" + attr, recv)
        return Fn("method:" + attr, recv) if not isinstance(recv, _Top) else Fn("method:" + attr, TOP)

    def ex_Lambda(self, node, env, fr):
        self.lambdas[id(node)] = (node, env, fr.fi)
        return Fn(f"lambda:{id(node)}")

    def _comp(self, node, env, fr, elt_fn):
        e = _copy(env)
        for g in node.generators:
            it = self.ev(g.iter, e, fr)
            self.assign(g.target, elem_of(it), e, fr, None)
            for cond in g.ifs:
                self.ev(cond, e, fr)
                e = self.narrow(cond, e, True, fr)
        return elt_fn(e)

    def ex_ListComp(self, node, env, fr):
        k = self._comp(node, env, fr, lambda e: deconst(self.ev(node.elt, e, fr)))
        # a comprehension that only filters a sorted / canonical source keeps its order
        srt = False
        if len(node.generators) == 1 and isinstance(node.elt, ast.Name) and isinstance(node.generators[0].target, ast.Name) and node.elt.id == node.generators[0].target.id:
            src = self.kind_at(fr.fi, node.generators[0].iter)
            srt = (isinstance(src, Lst) and src.sorted) or (isinstance(src, Seq) and src.canon)
        return Lst(k, srt)

    def ex_GeneratorExp(self, node, env, fr):
        return self.ex_ListComp(node, env, fr)

    def ex_SetComp(self, node, env, fr):
        return St(self._comp(node, env, fr, lambda e: deconst(self.ev(node.elt, e, fr))))

    def ex_DictComp(self, node, env, fr):
        def f(e):
            return Dct(deconst(self.ev(node.key, e, fr)), deconst(self.ev(node.value, e, fr)))

        return self._comp(node, env, fr, f)

    def ex_Starred(self, node, env, fr):
        return elem_of(self.ev(node.value, env, fr))

    def ex_Yield(self, node, env, fr):
        k = self.ev(node.value, env, fr) if node.value is not None else NONE
        fr.yields.append(k)
        return TOP

    def ex_NamedExpr(self, node, env, fr):
        # a test is evaluated more than once (for the value, then for narrowing each branch): a walrus that re-binds one of its
        # own operands (`(edge := canon(edge)) not in T`) must not be applied to its own result
        cache = getattr(fr, "walrus", None)
        if cache is None:
            cache = fr.walrus = {}
        tgt = node.target.id if isinstance(node.target, ast.Name) else None
        uses_target = tgt is not None and any(isinstance(x, ast.Name) and x.id == tgt for x in ast.walk(node.value))
        if uses_target and id(node) in cache and env.get(tgt) == cache[id(node)]:
            return cache[id(node)]
        k = self.ev(node.value, env, fr)
        self.assign(node.target, k, env, fr, node.value)
        if uses_target:
            cache[id(node)] = k
        return k

    # ================================================================ calls
    def ex_Call(self, node, env, fr):
        f = self.ev(node.func, env, fr)
        args = []
        for a in node.args:
            if isinstance(a, ast.Starred):
                self.ev(a.value, env, fr)
                args.append(("*", TOP))
            else:
                args.append((None, self.ev(a, env, fr)))
        kwargs = {}
        star_kw = False
        for kw in node.keywords:
            k = self.ev(kw.value, env, fr)
            if kw.arg is None:
                sk = strip_none(k)
                if isinstance(sk, Kw) and not isinstance(star_kw, bool) or (isinstance(sk, Kw) and star_kw is False):
                    star_kw = (star_kw or []) + [sk]
                elif isinstance(sk, Dct) and sk.key == EMPTY and not sk.tag and star_kw is False:
                    star_kw = []  # `**{}`: nothing is passed
                    star_kw = [kw_of({})]
                else:
                    star_kw = True
            else:
                kwargs[kw.arg] = k
        return self.call(f, node, args, kwargs, star_kw, env, fr)

    def call(self, f: K, node, args, kwargs, star_kw, env, fr) -> K:
        if isinstance(f, Union):
            fns = [m for m in f.members if isinstance(m, Fn)]
            if fns and len(fns) == len(f.members):
                self.call_stats["duck"] += 1
                return join_all([self.call(m, node, args, kwargs, star_kw, env, fr) for m in fns])
            return TOP
        if not isinstance(f, Fn):
            self.call_stats["unresolved"] += 1
            return TOP
        t = f.target
        if t.startswith("builtin:"):
            self.call_stats["resolved"] += 1
            return self.call_builtin(t[8:], node, [a for _, a in args], kwargs, env, fr)
        if t.startswith("method:"):
            self.call_stats["resolved" if f.recv is not None and not isinstance(f.recv, _Top) else "unresolved"] += 1
            return self.call_method(f.recv, t[7:], node, [a for _, a in args], kwargs, env, fr)
        if t.startswith("class:"):
            self.call_stats["resolved"] += 1
            ci = self.prog.classes[t[6:]]
            init = ci.methods.get("__init__")
            if init is not None:
                self.call_repo(init, node, [(None, Obj(ci.name))] + args, kwargs, star_kw, env, fr, recv=Obj(ci.name), is_ctor=True)
            return Obj(ci.name)
        if t.startswith("lambda:"):
            self.call_stats["resolved"] += 1
            lam, lenv, lfi = self.lambdas[int(t[7:])]
            e = _copy(lenv)
            for p, (_, a) in zip(lam.args.args, args):
                e[p.arg] = a
            for p in lam.args.args[len(args):]:
                e.setdefault(p.arg, kwargs.get(p.arg, TOP))
            return self.ev(lam.body, e, fr)
        if t.startswith("extern:") or t.startswith("module:"):
            self.call_stats["extern"] += 1
            return self.call_extern(t.split(":", 1)[1], node, [a for _, a in args], kwargs, env, fr)
        if t.startswith("missing:"):
            self.call_stats["unresolved"] += 1
            return TOP
        fi = self.prog.functions.get(t)
        if fi is None:
            self.call_stats["unresolved"] += 1
            return TOP
        self.call_stats["resolved"] += 1
        if fi.cls is not None and not fi.is_static and fi.parent is None:
            recv = f.recv if f.recv is not None else Obj(fi.cls.name)
            args = [(None, recv)] + args
        return self.call_repo(fi, node, args, kwargs, star_kw, env, fr, recv=f.recv)

    # ---- binding
    def bind(self, fi: FunctionInfo, node, args, kwargs, star_kw, fr) -> Optional[Dict[str, K]]:
        a = fi.node.args
        pos = [p.arg for p in list(a.posonlyargs) + list(a.args)]
        kwonly = [p.arg for p in a.kwonlyargs]
        defaults = fi.defaults()
        bound: Dict[str, K] = {}
        has_star = any(tag == "*" for tag, _ in args)
        plain = [k for tag, k in args if tag is None]
        problem = None
        if len(plain) > len(pos) and a.vararg is None:
            problem = f"{len(plain) - (1 if fi.cls and not fi.is_static and fi.parent is None else 0)} positional argument(s) for {fi.short}{_sig(fi)}"
        for name, k in zip(pos, plain):
            bound[name] = k
        for name, k in kwargs.items():
            if name in bound:
                problem = problem or f"multiple values for parameter '{name}' of {fi.short}"
            elif name in pos or name in kwonly:
                bound[name] = k
            elif a.kwarg is None:
                problem = problem or f"unexpected keyword '{name}' for {fi.short}{_sig(fi)}"
        if isinstance(star_kw, list):
            # keyword dicts with known fields: each field is passed like a keyword (a field that may be absent carries NONE)
            for kwk in star_kw:
                for name, k in kwk.fields:
                    if name in bound:
                        problem = problem or f"multiple values for parameter '{name}' of {fi.short}"
                    elif name in pos or name in kwonly:
                        bound[name] = k
                    elif a.kwarg is None:
                        problem = problem or f"unexpected keyword '{name}' for {fi.short}{_sig(fi)}"
        if not has_star and (not star_kw or isinstance(star_kw, list)):
            for name in pos + kwonly:
                if name not in bound and name not in defaults:
                    problem = problem or f"missing required argument '{name}' of {fi.short}{_sig(fi)}"
        if problem and fi.rewrapped:
            # the callee is wrapped by a repository decorator: the wrapper, not this signature, receives the call
            self.site(fr, "C-SIG", node, fi.short, UNKNOWN)
            return None
        if problem:
            self.site(fr, "C-SIG", node, fi.short, Mismatch(problem))
            return None
        self.site(fr, "C-SIG", node, fi.short, OK)
        return bound

    def call_repo(self, fi: FunctionInfo, node, args, kwargs, star_kw, env, fr, recv=None, is_ctor=False) -> K:
        k = self._call_repo(fi, node, args, kwargs, star_kw, env, fr, recv, is_ctor)
        if fi.cls is not None and fi.name == "get_nodes" and fi.cls.name in T.CONTAINERS:
            # the node universe of a directed hypergraph is listed from one of the two role tables (both hold every node):
            # as the result of the public query the nodes have no role
            k = unrole(k)
        return k

    def _call_repo(self, fi: FunctionInfo, node, args, kwargs, star_kw, env, fr, recv=None, is_ctor=False) -> K:
        guessed = isinstance(recv, Obj) and recv.extra == ("DUCK",) and not is_ctor
        if guessed:
            fr = _SoftFrame(fr)
        bound = self.bind(fi, node, args, kwargs, star_kw, fr)
        if guessed:
            fr = fr.inner
        if bound is None:
            return TOP
        if fr.record:
            self.callfacts.append(CallFact(fr.fi, node, fi, dict(bound), dict(env), fr.ctx))
        defaults = fi.defaults()
        if self.is_declared(fi) and fi.cls is None:
            # module-level helper (canonicaliser / size helper): arguments are checked against the declared
            # kinds, the result is computed for the actual argument kinds
            for name, ak in bound.items():
                dk = self.declared_param(fi, name)
                if dk is not None:
                    self.site(fr, "K-ARG", node, f"{fi.short}({name}=)", fits(ak, dk), norm(node))
        elif self.is_declared(fi):
            consts = {}
            for name in [p.arg for p in fi.params] + [p.arg for p in fi.node.args.kwonlyargs]:
                if name in ("self",):
                    continue
                dk = self.declared_param(fi, name)
                if name in bound:
                    ak = bound[name]
                    if dk is not None and not isinstance(dk, _Top) and not fi.rewrapped:
                        v = fits(ak, dk)
                        if only_none(deconst(ak)) and name in defaults:
                            v = OK
                        self.site(_SoftFrame(fr) if guessed else fr, "K-ARG", node, f"{fi.short}({name}=)", v, norm(node))
                    if isinstance(ak, Const) and (ak.value is None or isinstance(ak.value, bool)):
                        consts[name] = ak
                elif name in defaults:
                    c = self._const_of(defaults[name])
                    if isinstance(c, Const) and (c.value is None or isinstance(c.value, bool)):
                        consts[name] = c
            b = self.entry_bindings(fi)
            b.update(consts)
            # parameters without a declared kind (private helpers: `table`, `key`, `idx`, ...) take the kind of the
            # actual argument: the helper is then analysed for this call context
            actual = []
            for name, ak in bound.items():
                if name in b and isinstance(b[name], _Top) and is_known(ak) and not fi.rewrapped:
                    b[name] = ak
                    actual.append(name)
            if actual:
                return self.analyse(fi, b, ctx="call", depth=fr.depth + 1, record=fr.record)
            if recv is not None and fi.params and not fi.is_static:
                b[fi.params[0].arg] = recv if isinstance(recv, Obj) else b[fi.params[0].arg]
            return self.analyse(fi, b, ctx="flags:" + ",".join(f"{k}={v.value}" for k, v in sorted(consts.items())), depth=fr.depth + 1, record=fr.record)
        # context-sensitive
        b = {}
        for p in list(fi.params) + list(fi.node.args.kwonlyargs):
            if p.arg in bound and fi.rewrapped and not (fi.cls is not None and p is fi.params[0] and not fi.is_static):
                b[p.arg] = TOP  # a repository decorator stands between the call and the body
            elif p.arg in bound:
                ak = bound[p.arg]
                if isinstance(ak, _Top):
                    ak2 = self.annotation_kind(fi, p)
                    ak = ak2 if not isinstance(ak2, _Top) else ak
                b[p.arg] = ak
            elif p.arg not in defaults:
                b[p.arg] = self.annotation_kind(fi, p)
        closure = self.closures.get(fi.qualname)
        known = all(is_known(v) for v in b.values())
        return self.analyse(
            fi,
            b,
            ctx="call",
            depth=fr.depth + 1,
            record=fr.record and known,
            closure_env=closure.env if closure else None,
        )

    # ---- builtins
    def call_builtin(self, name, node, args: List[K], kwargs, env, fr) -> K:
        a0 = args[0] if args else None
        if name == "tuple":
            if a0 is None:
                return Tup(())
            return self._to_tuple(a0)
        if name == "sorted":
            if a0 is None:
                return TOP
            plain = not kwargs
            return Lst(_sort_elem(a0), sorted=plain)
        if name == "list":
            if a0 is None:
                return Lst(EMPTY)
            a = strip_none(a0)
            if isinstance(a, Lst):
                return Lst(a.elem, a.sorted)
            if isinstance(a, Seq):
                return Lst(a.elem, a.canon)
            if isinstance(a, _Top):
                return TOP
            return Lst(elem_of(a))
        if name in ("set", "frozenset"):
            if a0 is None:
                return St(EMPTY)
            if isinstance(strip_none(a0), _Top):
                return St(TOP)
            return St(elem_of(a0))
        if name == "dict":
            if a0 is None:
                return Dct(EMPTY, EMPTY) if not kwargs else Dct(STR, TOP)
            a = strip_none(a0)
            if isinstance(a, Dct):
                return Dct(a.key, a.val)
            if a == META:
                return META
            e = elem_of(a)
            if isinstance(e, Tup) and len(e.items) == 2:
                return Dct(e.items[0], e.items[1])
            return Dct(TOP, TOP)
        if name == "len":
            return self._len(a0, node, fr)
        if name == "range":
            return Lst(NUM, sorted=True)
        if name == "enumerate":
            return Lst(Tup((POS, elem_of(a0)))) if a0 is not None else TOP
        if name == "zip":
            return Lst(Tup(tuple(elem_of(a) for a in args)))
        if name in ("max", "min"):
            if len(args) == 1:
                return elem_of(args[0])
            return join_all([deconst(a) for a in args])
        if name == "sum":
            e = elem_of(a0) if a0 is not None else TOP
            return e if e in (WEIGHT, NUM, SIZE) else (NUM if e in (BOOL,) else TOP)
        if name in ("abs", "round", "int", "float"):
            k = deconst(strip_none(a0)) if a0 is not None else NUM
            return k if isinstance(k, Atom) and k.name in ("WEIGHT", "TIME", "SIZE", "ORDER", "IDX", "EID", "NUM") else NUM
        if name in ("str", "repr", "format"):
            return STR
        if name in ("bool", "isinstance", "any", "all", "hasattr", "callable"):
            return BOOL
        if name == "print":
            return NONE
        if name in ("iter", "reversed"):
            return Lst(elem_of(a0)) if a0 is not None else TOP
        if name == "next":
            return elem_of(a0) if a0 is not None else TOP
        if name == "map":
            if len(args) >= 2:
                f = args[0]
                if isinstance(f, Fn):
                    # map(f, xs, ys): f is called with one element of EVERY iterable
                    r = self.call(f, node, [(None, elem_of(a_)) for a_ in args[1:]], {}, False, env, fr)
                    return Lst(r)
            return Lst(TOP)
        if name == "filter":
            return Lst(elem_of(args[1])) if len(args) >= 2 else TOP
        return TOP

    def _to_tuple(self, a: K) -> K:
        a = strip_none(a)
        if isinstance(a, Union):
            return join_all([self._to_tuple(m) for m in a.members])
        if isinstance(a, Seq):
            return a
        if isinstance(a, Lst):
            return Seq(a.elem, a.sorted)
        if isinstance(a, Tup):
            return a
        if isinstance(a, St):
            return Seq(a.elem, False)
        if isinstance(a, Dct):
            return Seq(a.key, False)
        if isinstance(a, _Top):
            return Seq(TOP, False)
        return Seq(TOP, False)

    def _len(self, a: Optional[K], node, fr) -> K:
        if a is None:
            return NUM
        a = strip_none(a)
        if isinstance(a, Union):
            return join_all([self._len(m, node, fr) for m in a.members])
        if isinstance(a, Seq):
            if isinstance(a.elem, Atom) and a.elem.name == "NODE":
                return SIZE
            return NUM if not isinstance(a.elem, _Top) else TOP
        if isinstance(a, Tup):
            if any(i in (TIME, LAYER, EID) for i in a.items):
                self.site(fr, "K-LEN", node, repr(a), Mismatch(f"len() of composite {a!r}: its length is not a hyperedge size"))
                return NUM
            if a.items and all(isinstance(i, Atom) and i.name == "NODE" for i in a.items):
                return SIZE
            return Const(len(a.items))
        if isinstance(a, _Top):
            return TOP
        return NUM

    # ---- methods on kinds
    def call_method(self, recv: Optional[K], name, node, args: List[K], kwargs, env, fr) -> K:
        if recv is None:
            return TOP
        if isinstance(recv, Union):
            return join_all([self.call_method(m, name, node, args, kwargs, env, fr) for m in recv.members if not only_none(m)])
        a0 = args[0] if args else None
        recv_name = node.func.value.id if isinstance(node.func, ast.Attribute) and isinstance(node.func.value, ast.Name) else None
        if isinstance(recv, _Top) and name == "sort" and recv_name and not args and not kwargs:
            # `x.sort()` on a local of unknown kind: whatever it held, it is a sorted list afterwards
            env[recv_name] = Lst(TOP, True)
            return NONE
        if isinstance(recv, Dct):
            if name == "keys":
                return Lst(recv.key if recv.key != EMPTY else TOP)
            if name == "values":
                return Lst(recv.val if recv.val != EMPTY else TOP)
            if name == "items":
                return Lst(Tup((recv.key if recv.key != EMPTY else TOP, recv.val if recv.val != EMPTY else TOP)))
            if name in ("get", "pop", "setdefault"):
                if a0 is not None:
                    self._check_key(fr, node, recv, a0, store=False)
                val = recv.val if recv.val != EMPTY else TOP
                if len(args) > 1:
                    return join(val, deconst(args[1]))
                return opt(val) if name == "get" else val
            if name == "copy":
                return Dct(recv.key, recv.val)
            if name == "update":
                if recv_name and not recv.tag and a0 is not None and isinstance(strip_none(a0), Dct):
                    o = strip_none(a0)
                    env[recv_name] = Dct(join(recv.key, o.key), join(recv.val, o.val))
                return NONE
            if name in ("clear", "popitem"):
                return NONE
            return TOP
        if recv == META:
            if name in ("get", "pop"):
                return TOP
            if name in ("items",):
                return Lst(Tup((STR, TOP)))
            if name in ("keys",):
                return Lst(STR)
            if name == "copy":
                return META
            return TOP
        if isinstance(recv, Lst):
            if name in ("append", "add"):
                if a0 is not None:
                    if recv.tag and not isinstance(recv.elem, _Top):
                        self.site(fr, "K-VAL", node, recv.tag, fits(deconst(a0), recv.elem))
                    elif recv_name and not recv.tag:
                        env[recv_name] = Lst(join(recv.elem, deconst(a0)))
                return NONE
            if name == "extend":
                if a0 is not None and recv_name and not recv.tag:
                    env[recv_name] = Lst(join(recv.elem, elem_of(a0)))
                return NONE
            if name in ("remove", "index", "count"):
                if a0 is not None and not isinstance(recv.elem, _Top) and recv.elem != EMPTY:
                    self.site(fr, "K-MEM", node, recv.tag or repr(recv), fits(unrole(deconst(a0)), unrole(recv.elem)))
                return NUM if name != "remove" else NONE
            if name == "pop":
                return recv.elem
            if name == "copy":
                return Lst(recv.elem, recv.sorted)
            if name == "sort":
                # in-place sort of a local list: from here on it is a sorted list (tuple(x) is then canonical)
                if recv_name and not recv.tag and not kwargs and not args:
                    env[recv_name] = Lst(recv.elem, True)
                return NONE
            if name in ("reverse", "insert"):
                if recv_name and not recv.tag and recv.sorted:
                    env[recv_name] = Lst(recv.elem, False)
                return NONE
            if name in ("clear",):
                return NONE
            return TOP
        if isinstance(recv, St):
            if name == "add":
                if a0 is not None and recv.tag and not isinstance(recv.elem, _Top):
                    self.site(fr, "K-VAL", node, recv.tag, fits(deconst(a0), recv.elem))
                elif a0 is not None and recv_name:
                    env[recv_name] = St(join(recv.elem, deconst(a0)))
                return NONE
            if name == "update":
                if a0 is not None:
                    ek = elem_of(a0)
                    # a set of X updated with a composite: the composite's components end up in it
                    if not isinstance(recv.elem, _Top) and recv.elem != EMPTY and not isinstance(ek, _Top):
                        self.site(fr, "K-MEM", node, repr(recv), fits(unrole(ek), unrole(recv.elem)))
                    if recv_name:
                        env[recv_name] = St(join(recv.elem, ek))
                return NONE
            if name in ("remove", "discard"):
                return NONE
            if name in ("union", "intersection", "difference", "symmetric_difference"):
                return St(join_all([recv.elem] + [elem_of(a) for a in args]))
            if name in ("issubset", "issuperset", "isdisjoint"):
                return BOOL
            if name == "copy":
                return recv
            if name == "pop":
                return recv.elem
            return TOP
        if isinstance(recv, (Seq, Tup)):
            if name in ("index", "count"):
                return NUM
            return TOP
        if recv == STR or (isinstance(recv, Const) and isinstance(recv.value, str)):
            if name in ("split", "rsplit", "splitlines"):
                return Lst(STR)
            if name in ("join", "format", "strip", "lower", "upper", "replace", "lstrip", "rstrip"):
                return STR
            if name in ("startswith", "endswith", "isdigit"):
                return BOOL
            return TOP
        if isinstance(recv, Obj):
            return self.call_obj_method(recv, name, node, args, kwargs, env, fr)
        return TOP

    def call_obj_method(self, recv: Obj, name, node, args, kwargs, env, fr) -> K:
        a0 = args[0] if args else None
        if recv.cls == "LabelEncoder":
            if name == "fit":
                return recv
            if name in ("transform", "fit_transform"):
                return _map_elems(a0, NODE, IDX)
            if name == "inverse_transform":
                return _map_elems(a0, IDX, NODE)
            return TOP
        return TOP

    # ---- external libraries (a short frozen table; everything else is unknown)
    def call_extern(self, dotted: str, node, args: List[K], kwargs, env, fr) -> K:
        a0 = args[0] if args else None
        tail = dotted.split(".")[-1]
        if dotted.endswith("copy.deepcopy") or dotted.endswith("copy.copy") or dotted in ("copy.deepcopy", "copy.copy"):
            return _untag(a0) if a0 is not None else TOP
        if tail == "LabelEncoder":
            return Obj("LabelEncoder")
        if tail in ("Counter",) and a0 is not None:
            return Dct(elem_of(a0), NUM)
        if tail == "deque":
            return Lst(elem_of(a0)) if a0 is not None else Lst(EMPTY)
        if tail == "combinations" and a0 is not None:
            return Lst(Seq(elem_of(a0), False))
        if tail == "permutations" and a0 is not None:
            return Lst(Seq(elem_of(a0), False))
        if tail == "chain":
            return Lst(join_all([elem_of(a) for a in args])) if args else TOP
        if tail in ("Graph", "DiGraph") and dotted.startswith("networkx"):
            return Obj(tail)
        # an array made of a list of labels still holds labels (np.array(sorted(hg.isolated_nodes())))
        if dotted.startswith("numpy") and tail in ("array", "asarray", "sort", "unique", "fromiter") and isinstance(a0, (Lst, St, Seq)):
            ek = elem_of(a0)
            if isinstance(strip_none(ek), Atom):
                return Lst(ek)
        return TOP

    # ================================================================ truth / narrowing
    def truth(self, test, env, fr) -> Optional[bool]:
        if isinstance(test, ast.Constant):
            return bool(test.value)
        if isinstance(test, ast.Name):
            alias = self._bool_alias(fr.fi, test.id, test)
            if alias is not None:
                return self.truth(alias, env, fr)
        if isinstance(test, ast.UnaryOp) and isinstance(test.op, ast.Not):
            t = self.truth(test.operand, env, fr)
            return None if t is None else (not t)
        if isinstance(test, ast.BoolOp):
            cur = _copy(env)
            vals = []
            for v in test.values:
                vals.append(self.truth(v, cur, fr))
                cur = self.narrow(v, cur, isinstance(test.op, ast.And), fr)
            if isinstance(test.op, ast.And):
                if any(v is False for v in vals):
                    return False
                return True if all(v is True for v in vals) else None
            if any(v is True for v in vals):
                return True
            return False if all(v is False for v in vals) else None
        if isinstance(test, ast.Compare) and len(test.ops) == 1:
            test = _const_right(test)
            op = test.ops[0]
            a = self._peek(test.left, env, fr)
            b = self._peek(test.comparators[0], env, fr)
            if isinstance(op, (ast.Is, ast.IsNot)) and only_none(b):
                mb = may_be_none(a)
                if mb is None:
                    return None
                return mb if isinstance(op, ast.Is) else (not mb)
            if isinstance(op, (ast.Eq, ast.NotEq)):
                if isinstance(a, Const) and isinstance(b, Const):
                    r = a.value == b.value
                    return r if isinstance(op, ast.Eq) else (not r)
                if isinstance(a, TypeNameOf) and isinstance(b, Const):
                    cands = _class_names(env.get(a.var))
                    if cands is not None:
                        if b.value not in cands:
                            return isinstance(op, ast.NotEq)
                        if cands == {b.value}:
                            return isinstance(op, ast.Eq)
                if isinstance(b, Tup) and isinstance(a, Const) and not b.items:
                    return None
                if isinstance(a, Tup) and isinstance(b, Const) and isinstance(b.value, int) is False:
                    return None
            if isinstance(op, (ast.In, ast.NotIn)) and isinstance(a, TypeNameOf):
                names = _const_strs(test.comparators[0])
                cands = _class_names(env.get(a.var))
                if names is not None and cands is not None:
                    if cands <= names:
                        return isinstance(op, ast.In)
                    if not (cands & names):
                        return isinstance(op, ast.NotIn)
            # len(<tuple of known arity>) == n
            if isinstance(op, ast.Eq) and isinstance(test.left, ast.Call) and isinstance(test.left.func, ast.Name) and test.left.func.id == "len" and test.left.args and isinstance(b, Const):
                ak = self._peek(test.left.args[0], env, fr)
                if isinstance(ak, Tup):
                    return len(ak.items) == b.value
            return None
        if isinstance(test, ast.Call) and isinstance(test.func, ast.Name) and test.func.id == "isinstance" and len(test.args) == 2:
            return self._isinstance(self._peek(test.args[0], env, fr), test.args[1], fr)
        k = self._peek(test, env, fr)
        if isinstance(k, Const):
            return bool(k.value)
        if only_none(k):
            return False
        if isinstance(k, Obj):
            return True
        return None

    def _peek(self, node, env, fr) -> K:
        """Kind of an already evaluated sub-expression (no new sites)."""
        k = None
        if isinstance(node, ast.Name):
            return env.get(node.id, k if k is not None else TOP)
        if isinstance(node, ast.Constant):
            return self.ex_Constant(node, env, fr)
        if k is None:
            rec = fr.record
            fr.record = False
            try:
                k = self.ev(node, env, fr)
            finally:
                fr.record = rec
        return k

    def _isinstance(self, k: K, typ: ast.AST, fr) -> Optional[bool]:
        names = set()
        for t in typ.elts if isinstance(typ, ast.Tuple) else [typ]:
            names.add(ast.unparse(t).split(".")[-1])
        k = strip_none(k) if not only_none(k) else k
        if isinstance(k, Union):
            vals = {self._isinstance(m, typ, fr) for m in k.members}
            if vals == {True}:
                return True
            if vals == {False}:
                return False
            return None
        if isinstance(k, Obj):
            if k.cls in names:
                return True
            if names & set(T.CONTAINERS):
                return False
            return None
        if "tuple" in names and len(names) == 1:
            if isinstance(k, Tup):
                return True
            if isinstance(k, Seq):
                return True if k.canon else None
            if isinstance(k, (Lst, St, Dct)):
                return False
            if isinstance(k, Atom) and k.name in ("NODE", "TIME", "LAYER", "EID", "IDX", "WEIGHT", "STR", "NUM", "BOOL"):
                return False  # assumption A1: node labels (and scalars) are not tuples
            if isinstance(k, Const):
                return False
            return None
        if names <= {"list"}:
            if isinstance(k, Lst):
                return True
            if isinstance(k, (Tup, St, Dct)) or (isinstance(k, Seq) and k.canon):
                return False
            return None
        if names <= {"dict"}:
            if isinstance(k, Dct) or k == META:
                return True
            if isinstance(k, (Lst, St, Seq, Tup)):
                return False
            return None
        return None

    def _bool_alias(self, fi, name, at=None):
        """the test expression a local boolean stands for: exactly one `name = <comparison / and / or / not>` in the
        function, whose operand names are parameters that keep their value between that definition and the place `at` where
        the flag is tested (never assigned at all, or assigned only before the definition / after the test - e.g. inside the
        branches the test selects)"""
        cache = getattr(self, "_bool_alias_cache", None)
        if cache is None:
            cache = self._bool_alias_cache = {}
        pos_at = (at.lineno, at.col_offset) if at is not None and hasattr(at, "lineno") else None
        key = (fi.qualname, name, pos_at)
        if key in cache:
            return cache[key]
        out = None
        defs = [n for n in ast.walk(fi.node) if isinstance(n, ast.Name) and n.id == name and isinstance(n.ctx, ast.Store)]
        asg = [n for n in ast.walk(fi.node) if isinstance(n, ast.Assign) and len(n.targets) == 1 and isinstance(n.targets[0], ast.Name) and n.targets[0].id == name]
        if len(defs) == 1 and len(asg) == 1 and isinstance(asg[0].value, (ast.Compare, ast.BoolOp, ast.UnaryOp)):
            params = {a.arg for a in fi.params} | {a.arg for a in fi.node.args.kwonlyargs}
            stored = {n.id for n in ast.walk(fi.node) if isinstance(n, ast.Name) and isinstance(n.ctx, ast.Store)}
            used = {n.id for n in ast.walk(asg[0].value) if isinstance(n, ast.Name)}
            if used and used <= params and name not in params:
                if not (used & stored):
                    out = asg[0].value
                else:
                    d = asg[0]
                    dpos = (d.lineno, d.col_offset)
                    stores = [n for n in ast.walk(fi.node) if isinstance(n, ast.Name) and n.id in used and isinstance(n.ctx, ast.Store)]
                    loops = [l for l in ast.walk(fi.node) if isinstance(l, (ast.For, ast.While, ast.AsyncFor))]
                    in_loop = any(any(x is d for x in ast.walk(l)) or (at is not None and any(x is at for x in ast.walk(l)) and any(any(x is s_ for x in ast.walk(l)) for s_ in stores)) for l in loops)
                    between = [n for n in stores if (n.lineno, n.col_offset) >= dpos and (pos_at is None or (n.lineno, n.col_offset) < pos_at)]
                    if between and at is not None:
                        # a store in the other arm of an `if` that holds the test cannot reach it
                        ifs = [i for i in ast.walk(fi.node) if isinstance(i, ast.If)]

                        def exclusive(s_):
                            for i in ifs:
                                in_body = any(x is s_ for b_ in i.body for x in ast.walk(b_))
                                in_else = any(x is s_ for b_ in i.orelse for x in ast.walk(b_))
                                at_body = any(x is at for b_ in i.body for x in ast.walk(b_))
                                at_else = any(x is at for b_ in i.orelse for x in ast.walk(b_))
                                if (in_body and at_else) or (in_else and at_body):
                                    return True
                            return False

                        between = [n for n in between if not exclusive(n)]
                    if not between and not in_loop:
                        out = asg[0].value
        cache[key] = out
        return out

    def narrow(self, test, env, branch: bool, fr):
        if env is None:
            return None
        if isinstance(test, ast.UnaryOp) and isinstance(test.op, ast.Not):
            return self.narrow(test.operand, env, not branch, fr)
        if isinstance(test, ast.BoolOp):
            if (isinstance(test.op, ast.And) and branch) or (isinstance(test.op, ast.Or) and not branch):
                for v in test.values:
                    env = self.narrow(v, env, branch, fr)
            return env
        if isinstance(test, ast.Name):
            alias = self._bool_alias(fr.fi, test.id, test)
            if alias is not None:
                # flag = order is None and size is None; if flag: ...   (operands are never-reassigned parameters)
                return self.narrow(alias, env, branch, fr)
            k = env.get(test.id)
            if k is not None:
                if branch:
                    env[test.id] = strip_none(k) if not only_none(k) else k
                elif may_be_none(k) is None and isinstance(k, Union) and all(
                    only_none(m) or isinstance(m, (Obj, Atom)) and getattr(m, "name", "") in ("META",) for m in k.members
                ):
                    pass
            return env
        if isinstance(test, ast.Compare) and len(test.ops) == 1:
            test = _const_right(test)
            op = test.ops[0]
            left, right = test.left, test.comparators[0]
            if isinstance(op, (ast.Is, ast.IsNot)) and isinstance(right, ast.Constant) and right.value is None and isinstance(left, ast.Name):
                k = env.get(left.id)
                if k is not None:
                    is_none_branch = branch if isinstance(op, ast.Is) else (not branch)
                    if is_none_branch:
                        env[left.id] = Const(None)
                    else:
                        env[left.id] = strip_none(k) if not only_none(k) else k
                return env
            if isinstance(op, (ast.Eq, ast.NotEq, ast.In, ast.NotIn)) and isinstance(left, ast.Name):
                k = env.get(left.id)
                if isinstance(k, TypeNameOf):
                    names = _const_strs(right) if isinstance(op, (ast.In, ast.NotIn)) else ({right.value} if isinstance(right, ast.Constant) and isinstance(right.value, str) else None)
                    if names is not None:
                        positive = branch if isinstance(op, (ast.Eq, ast.In)) else (not branch)
                        cur = env.get(k.var)
                        nk = _filter_classes(cur, names, positive)
                        if nk is not None:
                            env[k.var] = nk
                return env
            return env
        if isinstance(test, ast.Call) and isinstance(test.func, ast.Name) and test.func.id == "isinstance" and len(test.args) == 2 and isinstance(test.args[0], ast.Name):
            name = test.args[0].id
            k = env.get(name)
            names = {ast.unparse(t).split(".")[-1] for t in (test.args[1].elts if isinstance(test.args[1], ast.Tuple) else [test.args[1]])}
            if k is not None and names & set(T.CONTAINERS):
                nk = _filter_classes(k, names, branch)
                if nk is not None:
                    env[name] = nk
            return env
        return env


# ====================================================================== helpers
def _const_right(test: ast.Compare) -> ast.Compare:
    """`"X" == v` is read as `v == "X"` (same sub-expression nodes, so their annotations are found)"""
    if isinstance(test.ops[0], (ast.Eq, ast.NotEq)) and isinstance(test.left, ast.Constant) and not isinstance(test.comparators[0], ast.Constant):
        return ast.copy_location(ast.Compare(left=test.comparators[0], ops=test.ops, comparators=[test.left]), test)
    return test


def _as_load(node):
    import copy as _c

    n = _c.copy(node)
    n.ctx = ast.Load()
    return n


def _root_name(node):
    while isinstance(node, ast.Attribute):
        node = node.value
    return node.id if isinstance(node, ast.Name) else None


def _is_boolish(k: K) -> bool:
    return k == BOOL or (isinstance(k, Const) and isinstance(k.value, bool))


def _num_join(a: K, b: K) -> K:
    strong = [k for k in (a, b) if isinstance(k, Atom) and k.name in ("WEIGHT", "TIME", "IDX", "EID")]
    if len(strong) == 1 and all(isinstance(k, Atom) and k.name in ("NUM", "WEIGHT", "TIME", "IDX", "EID", "BOOL") for k in (a, b)):
        return strong[0]
    if len(strong) == 2 and strong[0] == strong[1]:
        return strong[0]
    if isinstance(a, _Top) or isinstance(b, _Top):
        return TOP
    if a == NUM and b == NUM:
        return NUM
    return TOP


def _sort_elem(a: K) -> K:
    return elem_of(a)


def _sig(fi: FunctionInfo) -> str:
    return "(" + ", ".join(fi.param_names()) + ")"


def _handler_is(h: ast.ExceptHandler, name: str) -> bool:
    if h.type is None:
        return False
    ts = h.type.elts if isinstance(h.type, ast.Tuple) else [h.type]
    return any(ast.unparse(t).split(".")[-1] == name for t in ts)


def _names_iterated_in(stmts) -> set:
    out = set()
    for st in stmts:
        for n in ast.walk(st):
            if isinstance(n, ast.Call) and isinstance(n.func, ast.Name) and n.func.id in ("tuple", "sorted", "list", "set", "iter") and n.args and isinstance(n.args[0], ast.Name):
                out.add(n.args[0].id)
    return out


def typename_subscript_var(node: ast.AST) -> Optional[str]:
    """Match str(type(X)).split('.')[-1][:-2] and return X."""
    n = node
    if not (isinstance(n, ast.Subscript) and isinstance(n.slice, ast.Slice)):
        return None
    n = n.value
    if not isinstance(n, ast.Subscript):
        return None
    n = n.value
    if not (isinstance(n, ast.Call) and isinstance(n.func, ast.Attribute) and n.func.attr == "split"):
        return None
    n = n.func.value
    if not (isinstance(n, ast.Call) and isinstance(n.func, ast.Name) and n.func.id == "str" and n.args):
        return None
    n = n.args[0]
    if isinstance(n, ast.Call) and isinstance(n.func, ast.Name) and n.func.id == "type" and n.args and isinstance(n.args[0], ast.Name):
        return n.args[0].id
    return None


def _class_names(k) -> Optional[set]:
    if k is None:
        return None
    if isinstance(k, Obj):
        return {k.cls}
    if isinstance(k, Union) and all(isinstance(m, Obj) for m in k.members):
        return {m.cls for m in k.members}
    return None


def _filter_classes(k, names: set, positive: bool):
    if isinstance(k, Obj):
        return k
    if isinstance(k, Union) and all(isinstance(m, Obj) for m in k.members):
        keep = [m for m in k.members if (m.cls in names) == positive]
        if keep:
            return union(*keep)
    return None


def _const_strs(node) -> Optional[set]:
    if isinstance(node, (ast.List, ast.Tuple, ast.Set)) and all(isinstance(e, ast.Constant) and isinstance(e.value, str) for e in node.elts):
        return {e.value for e in node.elts}
    return None


def _map_elems(a: Optional[K], frm: K, to: K) -> K:
    if a is None:
        return TOP
    a = strip_none(a)
    if isinstance(a, (Seq, Lst, St)):
        e = a.elem
        if isinstance(e, Atom) and e.name == frm.name:
            return Lst(to)
        if isinstance(e, _Top) or e == EMPTY:
            return Lst(to)
        return Lst(Atom("BAD-" + to.name))
    if isinstance(a, Tup):
        return Lst(to)
    return Lst(to)


def _untag(k: K) -> K:
    if isinstance(k, Dct):
        return Dct(k.key, k.val)
    if isinstance(k, Lst):
        return Lst(k.elem, k.sorted)
    return k

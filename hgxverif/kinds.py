"""The kind lattice: a units-of-measure system for hypergraphx values (DESIGN 2.B).

Kinds are immutable values.  `fits(actual, expected)` returns OK / UNKNOWN / a Mismatch(reason); only a
Mismatch ever produces a report, and it needs both sides to be known and declared incompatible.
"""
from __future__ import annotations

from dataclasses import dataclass, field, replace
from typing import FrozenSet, Optional, Tuple


class K:
    __slots__ = ()


@dataclass(frozen=True)
class _Top(K):
    def __repr__(self):
        return "?"


TOP = _Top()


@dataclass(frozen=True)
class Atom(K):
    name: str
    role: Optional[str] = None  # SRC | TGT for NODE atoms of a directed hyperedge

    def __repr__(self):
        return self.name + (f"@{self.role}" if self.role else "")


@dataclass(frozen=True)
class Const(K):
    """A literal Python constant (None / bool / int / float / str): used for flag folding."""

    value: object

    def __repr__(self):
        return f"const({self.value!r})"


@dataclass(frozen=True)
class Seq(K):
    """The node sequence of ONE hyperedge (or one role of a directed hyperedge)."""

    elem: K
    canon: bool = False

    def __repr__(self):
        return f"SEQ{'c' if self.canon else 'r'}[{self.elem!r}]"


@dataclass(frozen=True)
class Tup(K):
    items: Tuple[K, ...]

    def __repr__(self):
        return "(" + ", ".join(map(repr, self.items)) + ")"


@dataclass(frozen=True)
class Lst(K):
    elem: K
    sorted: bool = False
    tag: Optional[str] = field(default=None, compare=False)

    def __repr__(self):
        return f"LIST[{self.elem!r}]"


@dataclass(frozen=True)
class St(K):
    elem: K
    tag: Optional[str] = field(default=None, compare=False)

    def __repr__(self):
        return f"SET[{self.elem!r}]"


@dataclass(frozen=True)
class Dct(K):
    key: K
    val: K
    tag: Optional[str] = field(default=None)  # "<Class>.<table>" for declared tables (part of the identity)

    def __repr__(self):
        t = f"<{self.tag}>" if self.tag else ""
        return f"DICT{t}[{self.key!r}->{self.val!r}]"


@dataclass(frozen=True)
class Kw(Dct):
    """A dict of keyword arguments with known constant keys - `{"order": order}`, `{}` - as handed on with `**`.
    Everywhere else it behaves like the plain dict it is; a field that is absent on some path carries NONE (the
    keyword is then not passed and the parameter takes its default, None for the filter parameters)."""

    fields: Tuple = field(default=())  # ((name, kind), ...) sorted by name

    def __repr__(self):
        return "KW{" + ", ".join(f"{n}={k!r}" for n, k in self.fields) + "}"


KW_NAMES = ("order", "size", "up_to", "weight", "metadata", "time", "layer", "seed", "s", "keep_isolated_nodes", "return_mapping", "subhypergraph", "keep_nodes")


def kw_of(fields: dict) -> "Kw":
    return Kw(Atom("STR"), TOP, None, tuple(sorted(fields.items())))


@dataclass(frozen=True)
class Obj(K):
    cls: str  # bare class name of a repo class, or an external type name such as "LabelEncoder"
    extra: Optional[Tuple] = field(default=None)  # e.g. ("GRAPH", vertex kind)

    def __repr__(self):
        return f"OBJ[{self.cls}]"


@dataclass(frozen=True)
class Fn(K):
    """A callable value: repo function, bound method (with the receiver kind), or a builtin/extern name."""

    target: str  # qualname of repo function, or "builtin:NAME" / "extern:dotted" / "method:NAME"
    recv: Optional[K] = None

    def __repr__(self):
        return f"FN[{self.target}]"


@dataclass(frozen=True)
class TypeNameOf(K):
    """The class-name string of variable `var` (the repo's `str(type(x)).split('.')[-1][:-2]` idiom)."""

    var: str

    def __repr__(self):
        return f"TYPENAME({self.var})"


@dataclass(frozen=True)
class Union(K):
    members: FrozenSet[K]

    def __repr__(self):
        return "{" + " | ".join(sorted(map(repr, self.members))) + "}"


# ------------------------------------------------------------------------- atoms
NODE = Atom("NODE")
NODE_S = Atom("NODE", "SRC")
NODE_T = Atom("NODE", "TGT")
IDX = Atom("IDX")
EID = Atom("EID")
POS = Atom("POS")  # position in a listing (enumerate index): a number, but never an edge id (ids are not reused after removals)
VID = Atom("VID")
TIME = Atom("TIME")
LAYER = Atom("LAYER")
WEIGHT = Atom("WEIGHT")
META = Atom("META")
SIZE = Atom("SIZE")
ORDER = Atom("ORDER")
BOOL = Atom("BOOL")
STR = Atom("STR")
NUM = Atom("NUM")
NONE = Atom("NONE")
RNG = Atom("RNG")
MATRIX = Atom("MATRIX")
EMPTY = Atom("EMPTY")  # element kind of an empty literal container: joins away, fits everything

STRONG = {"NODE", "IDX", "EID", "VID", "TIME", "LAYER", "WEIGHT", "META", "SIZE", "ORDER", "RNG", "MATRIX"}
# weak numeric / string literals are acceptable wherever a number-like / label-like strong kind is expected
NUM_OK = {"WEIGHT", "TIME", "IDX", "SIZE", "ORDER", "NUM", "POS"}


def union(*ks: K) -> K:
    mem = set()
    for k in ks:
        if isinstance(k, _Top):
            return TOP
        if isinstance(k, Union):
            mem |= k.members
        else:
            mem.add(k)
    if not mem:
        return TOP
    if len(mem) > 1 and EMPTY in mem:
        mem.discard(EMPTY)
    # an object whose class is known and the same class merely guessed from a parameter name are one kind
    objs = [m for m in mem if isinstance(m, Obj)]
    for o in objs:
        if o.extra == ("DUCK",) and Obj(o.cls) in mem:
            mem.discard(o)
    nodes = [m for m in mem if isinstance(m, Atom) and m.name == "NODE"]
    if len(nodes) > 1:
        mem -= set(nodes)
        mem.add(NODE)
    if len(mem) == 1:
        return next(iter(mem))
    # merge structurally where cheap
    seqs = [m for m in mem if isinstance(m, Seq)]
    if len(seqs) > 1 and len({(s.canon) for s in seqs}) == 1:
        e = join_all([s.elem for s in seqs])
        mem -= set(seqs)
        mem.add(Seq(e, seqs[0].canon))
    lsts = [m for m in mem if isinstance(m, Lst)]
    if len(lsts) > 1:
        e = join_all([s.elem for s in lsts])
        mem -= set(lsts)
        mem.add(Lst(e, all(s.sorted for s in lsts)))
    sts = [m for m in mem if isinstance(m, St)]
    if len(sts) > 1:
        e = join_all([s.elem for s in sts])
        mem -= set(sts)
        mem.add(St(e))
    kws = [m for m in mem if isinstance(m, Kw)]
    empties = [m for m in mem if isinstance(m, Dct) and not isinstance(m, Kw) and m.key == EMPTY and m.tag is None]
    if kws and (len(kws) > 1 or empties):
        names = sorted({n for k in kws for n, _ in k.fields})
        merged = {}
        for n in names:
            parts = []
            for k in kws:
                d = dict(k.fields)
                parts.append(d.get(n, NONE))
            if empties:
                parts.append(NONE)
            merged[n] = join_all(parts)
        mem -= set(kws)
        mem -= set(empties)
        mem.add(kw_of(merged))
        if len(mem) == 1:
            return next(iter(mem))
    dcts = [m for m in mem if isinstance(m, Dct)]
    tags = {d.tag for d in dcts}
    if len(dcts) > 1 and not (len(tags) > 1 and None not in tags):
        # (two different declared tables stay apart: `for table in (self._adj_source, self._adj_target)`)
        mem -= set(dcts)
        mem.add(Dct(join_all([d.key for d in dcts]), join_all([d.val for d in dcts]), tag=tags.pop() if len(tags) == 1 else None))
    tups = [m for m in mem if isinstance(m, Tup)]
    if len(tups) > 1 and len({len(t.items) for t in tups}) == 1:
        mem -= set(tups)
        mem.add(Tup(tuple(join_all([t.items[i] for t in tups]) for i in range(len(tups[0].items)))))
    if len(mem) == 1:
        return next(iter(mem))
    if len(mem) > 6:
        return TOP
    return Union(frozenset(mem))


def join(a: Optional[K], b: Optional[K]) -> K:
    if a is None:
        return b if b is not None else TOP
    if b is None:
        return a
    if a == b:
        return a
    return union(a, b)


def join_all(ks) -> K:
    out = None
    for k in ks:
        out = join(out, k)
    return out if out is not None else TOP


def opt(k: K) -> K:
    return union(k, NONE)


def strip_none(k: K) -> K:
    if isinstance(k, Union):
        rest = [m for m in k.members if m != NONE and m != Const(None)]
        return join_all(rest) if rest else NONE
    return k


def only_none(k: K) -> bool:
    return k == NONE or k == Const(None)


def may_be_none(k: K) -> Optional[bool]:
    """True: definitely None; False: definitely not None; None: unknown."""
    if only_none(k):
        return True
    if isinstance(k, _Top):
        return None
    if isinstance(k, Union):
        flags = {may_be_none(m) for m in k.members}
        if flags == {True}:
            return True
        if flags == {False}:
            return False
        return None
    return False


def base_of_const(c: Const) -> Atom:
    v = c.value
    if v is None:
        return NONE
    if isinstance(v, bool):
        return BOOL
    if isinstance(v, (int, float)):
        return NUM
    if isinstance(v, str):
        return STR
    return Atom("CONST")


def deconst(k: K) -> K:
    if isinstance(k, Const):
        return base_of_const(k)
    return k


def elem_of(k: K) -> K:
    """Kind of one element when iterating over a value of kind k."""
    if isinstance(k, (Seq, Lst, St)):
        return k.elem
    if isinstance(k, Dct):
        return k.key
    if isinstance(k, Tup):
        return join_all(k.items) if k.items else TOP
    if isinstance(k, Union):
        return join_all([elem_of(m) for m in k.members])
    if isinstance(k, Const) and isinstance(k.value, str):
        return STR
    if k == STR:
        return STR
    return TOP


def with_role(k: K, role: Optional[str]) -> K:
    """Stamp a source/target role onto the NODE atoms of k."""
    if role is None:
        return k
    if isinstance(k, Atom) and k.name == "NODE":
        return Atom("NODE", role)
    if isinstance(k, Seq):
        return Seq(with_role(k.elem, role), k.canon)
    if isinstance(k, Lst):
        return Lst(with_role(k.elem, role), k.sorted)
    if isinstance(k, St):
        return St(with_role(k.elem, role))
    return k


def unrole(k: K) -> K:
    """Drop source/target roles (they only matter for the declared role tables and key components)."""
    if isinstance(k, Atom):
        return Atom(k.name) if k.role else k
    if isinstance(k, Seq):
        return Seq(unrole(k.elem), k.canon)
    if isinstance(k, Lst):
        return Lst(unrole(k.elem), k.sorted, k.tag)
    if isinstance(k, St):
        return St(unrole(k.elem))
    if isinstance(k, Tup):
        return Tup(tuple(unrole(i) for i in k.items))
    if isinstance(k, Dct):
        return Dct(unrole(k.key), unrole(k.val), k.tag)
    if isinstance(k, Union):
        return union(*[unrole(m) for m in k.members])
    return k


# ----------------------------------------------------------------- compatibility
class Verdict:
    pass


class _OK(Verdict):
    def __repr__(self):
        return "ok"


class _Unknown(Verdict):
    def __repr__(self):
        return "unknown"


@dataclass
class Mismatch(Verdict):
    reason: str

    def __repr__(self):
        return f"mismatch({self.reason})"


OK = _OK()
UNKNOWN = _Unknown()


def _combine_all(verdicts):
    """every component must fit."""
    unk = False
    for v in verdicts:
        if isinstance(v, Mismatch):
            return v
        if v is UNKNOWN:
            unk = True
    return UNKNOWN if unk else OK


def fits(actual: K, expected: K) -> Verdict:
    if isinstance(expected, _Top):
        return OK
    if isinstance(actual, _Top):
        return UNKNOWN
    if isinstance(actual, Union):
        # "if it is not None it must fit": the None alternative of an optional value is judged separately
        mem = [m for m in actual.members if not only_none(m)] or list(actual.members)
        vs = [fits(m, expected) for m in mem]
        if not vs:
            return UNKNOWN
        if all(v is OK for v in vs):
            return OK
        if all(isinstance(v, Mismatch) for v in vs):
            return vs[0]
        return UNKNOWN
    if isinstance(expected, Union):
        members = list(expected.members)
        if may_be_none(actual) is False:
            members = [m for m in members if not only_none(m)] or members
        vs = [fits(actual, m) for m in members]
        if any(v is OK for v in vs):
            return OK
        if all(isinstance(v, Mismatch) for v in vs):
            # report against the first structured alternative
            best = [v for v in vs if "NONE" not in v.reason]
            return (best or vs)[0]
        return UNKNOWN
    if isinstance(actual, Const):
        if isinstance(expected, Const):
            return OK if actual == expected else UNKNOWN
        actual = base_of_const(actual)
    if isinstance(expected, Const):
        expected = base_of_const(expected)
    if isinstance(actual, (Fn, TypeNameOf)) or isinstance(expected, (Fn, TypeNameOf)):
        return UNKNOWN
    if actual == EMPTY or expected == EMPTY:
        return OK

    # ---- atoms
    if isinstance(expected, Atom):
        if isinstance(actual, Atom):
            if actual.name == expected.name:
                if actual.role and expected.role and actual.role != expected.role:
                    return Mismatch(f"role {actual.role} where {expected.role} expected")
                return OK
            if actual.name == "NONE" or expected.name == "NONE":
                return UNKNOWN
            if {actual.name, expected.name} == {"POS", "EID"}:
                return Mismatch("a position in a listing where an edge id is expected (or the reverse): ids are handed out by a counter that is never rewound, so after a removal positions and ids differ")
            if "POS" in (actual.name, expected.name):
                return OK if {actual.name, expected.name} <= NUM_OK else UNKNOWN
            if actual.name == "NUM":
                return OK if expected.name in NUM_OK else UNKNOWN
            if expected.name == "NUM":
                return OK if actual.name in NUM_OK else UNKNOWN
            if actual.name in ("STR", "BOOL", "CONST") or expected.name in ("STR", "BOOL", "CONST"):
                return UNKNOWN
            if actual.name in STRONG and expected.name in STRONG:
                return Mismatch(f"{actual!r} where {expected!r} expected")
            return UNKNOWN
        if expected.name == "META":
            if isinstance(actual, Dct):
                return OK
            if isinstance(actual, (Seq, Tup, Lst, St)):
                return Mismatch(f"{actual!r} where META expected")
            return UNKNOWN
        if isinstance(actual, (Seq, Tup, Lst, St, Dct)):
            if expected.name in STRONG:
                return Mismatch(f"{actual!r} where {expected!r} expected")
            return UNKNOWN
        return UNKNOWN

    # ---- node sequence of one hyperedge
    if isinstance(expected, Seq):
        if isinstance(actual, Seq):
            v = fits(actual.elem, expected.elem)
            if isinstance(v, Mismatch):
                return v
            if expected.canon and not actual.canon:
                return Mismatch("un-canonicalised node sequence where a canonical (sorted tuple) key is expected")
            return v
        if isinstance(actual, (Lst, St)):
            v = fits(actual.elem, expected.elem)
            if isinstance(v, Mismatch):
                return v
            if expected.canon:
                return Mismatch(f"{actual!r} where a canonical (sorted tuple) key is expected")
            return v
        if isinstance(actual, Tup):
            if any(isinstance(i, (Seq, Tup, Lst, St, Dct)) for i in actual.items):
                return Mismatch(f"composite {actual!r} where a node sequence {expected!r} is expected")
            vs = [fits(i, expected.elem) for i in actual.items]
            v = _combine_all(vs)
            if isinstance(v, Mismatch):
                return Mismatch(f"composite {actual!r} where a node sequence {expected!r} is expected")
            if expected.canon:
                return Mismatch(f"{actual!r} where a canonical (sorted tuple) key is expected") if v is OK else UNKNOWN
            return v
        if isinstance(actual, Atom):
            if actual.name in STRONG:
                return Mismatch(f"{actual!r} where a node sequence {expected!r} is expected")
            return UNKNOWN
        if isinstance(actual, Dct):
            return Mismatch(f"{actual!r} where a node sequence is expected")
        return UNKNOWN

    # ---- composite keys
    if isinstance(expected, Tup):
        if isinstance(actual, Tup):
            if len(actual.items) != len(expected.items):
                return Mismatch(f"{len(actual.items)}-tuple {actual!r} where {expected!r} expected")
            return _combine_all([fits(a, e) for a, e in zip(actual.items, expected.items)])
        if isinstance(actual, Seq) and not isinstance(actual.elem, _Top):
            # a tuple of unknown arity (built by a generator): it may be the composite when each component could be
            # one of its elements - `tuple(tuple(sorted(edge[i])) for i in (0, 1))`
            if not any(isinstance(fits(actual.elem, e), Mismatch) for e in expected.items):
                return UNKNOWN
        if isinstance(actual, (Seq, Lst, St)):
            return Mismatch(f"{actual!r} where composite key {expected!r} expected")
        if isinstance(actual, Atom) and actual.name in STRONG:
            return Mismatch(f"{actual!r} where composite key {expected!r} expected")
        return UNKNOWN

    if isinstance(expected, (Lst, St)):
        if isinstance(actual, (Lst, St, Seq)):
            return fits(actual.elem, expected.elem)
        if isinstance(actual, Dct):
            return fits(actual.key, expected.elem)
        if isinstance(actual, Tup):
            return _combine_all([fits(i, expected.elem) for i in actual.items]) if actual.items else UNKNOWN
        if isinstance(actual, Atom) and actual.name in STRONG and actual.name != "META":
            return Mismatch(f"{actual!r} where {expected!r} expected")
        return UNKNOWN

    if isinstance(expected, Dct):
        if isinstance(actual, Dct):
            return _combine_all([fits(actual.key, expected.key), fits(actual.val, expected.val)])
        if isinstance(actual, Atom) and actual.name == "META":
            return UNKNOWN
        if isinstance(actual, (Seq, Tup, Lst, St)):
            return Mismatch(f"{actual!r} where {expected!r} expected")
        return UNKNOWN

    if isinstance(expected, Obj):
        if isinstance(actual, Obj):
            return OK if actual.cls == expected.cls else UNKNOWN
        return UNKNOWN
    return UNKNOWN


def is_known(k: K) -> bool:
    if isinstance(k, _Top):
        return False
    if isinstance(k, Union):
        return all(is_known(m) for m in k.members)
    if isinstance(k, (Seq, Lst, St)):
        return is_known(k.elem)
    if isinstance(k, Tup):
        return all(is_known(i) for i in k.items)
    return True

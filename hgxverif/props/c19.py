import ast

from .. import forward as F
from ..effects import Effects
from ..model import AnalysisError, loc, norm, walk_no_nested
from ..report import Result
from ._containers import KIND_RULES

LEVEL_TEXT = (
    "Structural necessary conditions of C19, decided statically: the selection predicate of filter_hypergraph, partially evaluated "
    "for mode='keep' and mode='remove' and normalised (De Morgan, any/all duality), is `not all(criteria match)` resp. `all(criteria "
    "match)` for nodes and for hyperedges alike; items are collected first and removed afterwards (never while a live view is "
    "iterated), nodes before hyperedges, keep_edges is forwarded, nothing but remove_node / remove_edge mutates the hypergraph, and "
    "these calls bind for every container type; in get_svh weights expand to multiplicity, sizes are restricted to 2..max_order "
    "and the validated flag compares each p-value with one threshold per size.  Decides the structure, not the binomial formula."
)

X = ("X",)  # "this item's metadata matches one criterion": <metadata>.get(attr) in values


def _not(e):
    if e is True:
        return False
    if e is False:
        return True
    if isinstance(e, tuple) and e[0] == "not":
        return e[1]
    if isinstance(e, tuple) and e[0] == "any":
        return ("all", _not(e[1])) if isinstance(e[1], tuple) and e[1][0] == "not" else ("not", e)
    return ("not", e)


def _norm_q(e):
    """canonical form: negations pulled outside quantifiers: any(not P) -> not all(P); all(not P) -> not any(P)"""
    if isinstance(e, tuple) and e[0] in ("any", "all"):
        inner = _norm_q(e[1])
        if isinstance(inner, tuple) and inner[0] == "not":
            return ("not", ("all" if e[0] == "any" else "any", inner[1]))
        return (e[0], inner)
    if isinstance(e, tuple) and e[0] == "not":
        inner = _norm_q(e[1])
        if isinstance(inner, tuple) and inner[0] == "not":
            return inner[1]
        if inner is True:
            return False
        if inner is False:
            return True
        return ("not", inner)
    return e


def _and(a, b):
    if a is False or b is False:
        return False
    if a is True:
        return b
    if b is True:
        return a
    return ("and", a, b)


def _or(a, b):
    if a is True or b is True:
        return True
    if a is False:
        return b
    if b is False:
        return a
    return ("or", a, b)


class Sym:
    def __init__(self, v, mode, scope=None):
        self.v = v
        self.mode = mode
        self.scope = scope
        self.depth = 0

    def defs(self, name):
        def collect(root):
            return [n.value for n in ast.walk(root) if isinstance(n, ast.Assign) and len(n.targets) == 1 and isinstance(n.targets[0], ast.Name) and n.targets[0].id == name]

        if self.scope is not None:
            local = collect(self.scope)
            if local:
                return local
        return collect(self.v.fi.node)

    def ev(self, e):
        self.depth += 1
        try:
            if self.depth > 40:
                return ("?", "depth")
            return self._ev(e)
        finally:
            self.depth -= 1

    def _ev(self, e):
        if isinstance(e, ast.Constant) and isinstance(e.value, bool):
            return e.value
        if isinstance(e, ast.Name):
            ds = self.defs(e.id)
            if len({norm(d) for d in ds}) == 1:
                return self.ev(ds[0])
            return ("?", e.id)
        if isinstance(e, ast.UnaryOp) and isinstance(e.op, ast.Not):
            return _not(self.ev(e.operand))
        if isinstance(e, ast.BoolOp):
            vals = [self.ev(x) for x in e.values]
            out = vals[0]
            for x in vals[1:]:
                out = _and(out, x) if isinstance(e.op, ast.And) else _or(out, x)
            return out
        if isinstance(e, ast.Compare) and len(e.ops) == 1:
            l, op, r = e.left, e.ops[0], e.comparators[0]
            if isinstance(l, ast.Name) and l.id == "mode" and isinstance(r, ast.Constant) and isinstance(op, (ast.Eq, ast.NotEq)):
                val = self.mode == r.value
                return val if isinstance(op, ast.Eq) else (not val)
            if isinstance(op, ast.In) and isinstance(l, ast.Call) and isinstance(l.func, ast.Attribute) and l.func.attr == "get":
                return X
            if isinstance(op, ast.NotIn) and isinstance(l, ast.Call) and isinstance(l.func, ast.Attribute) and l.func.attr == "get":
                return _not(X)
            if isinstance(op, (ast.Eq, ast.NotEq, ast.Is, ast.IsNot)):
                a, b = self.ev(l), self.ev(r)
                for p, q in ((a, b), (b, a)):
                    if q is True or q is False:
                        same = p if q else _not(p)
                        return same if isinstance(op, (ast.Eq, ast.Is)) else _not(same)
            return ("?", norm(e))
        if isinstance(e, ast.Call) and isinstance(e.func, ast.Name) and e.func.id in ("all", "any") and e.args and isinstance(e.args[0], (ast.GeneratorExp, ast.ListComp)):
            g = e.args[0]
            over_criteria = any("items" in norm(x.iter) or "criteria" in norm(x.iter) for x in g.generators) and not any(x.ifs for x in g.generators)
            if not over_criteria:
                return ("?", norm(e))
            return (e.func.id, self.ev(g.elt))
        if isinstance(e, ast.Call) and isinstance(e.func, ast.Name) and e.func.id in self.v.fi.nested:
            nf = self.v.fi.nested[e.func.id]
            rets = [n for n in ast.walk(nf.node) if isinstance(n, ast.Return) and n.value is not None]
            if len(rets) == 1:
                return self.ev(rets[0].value)
        if isinstance(e, ast.IfExp):
            t = self.ev(e.test)
            if t is True:
                return self.ev(e.body)
            if t is False:
                return self.ev(e.orelse)
        return ("?", norm(e))


def _selection_conditions(v):
    """(phase, condition expr, node) for each 'to process' list: If guarding an append, or a comprehension filter"""
    out = []
    for n in walk_no_nested(v.fi.node):
        if isinstance(n, ast.ListComp) and any("get_nodes" in norm(g.iter) or "get_edges" in norm(g.iter) for g in n.generators):
            g = n.generators[0]
            phase = "nodes" if "get_nodes" in norm(g.iter) else "edges"
            if len(g.ifs) == 1:
                out.append((phase, g.ifs[0], n))
            else:
                out.append((phase, None, n))
        if isinstance(n, ast.For) and ("get_nodes" in norm(n.iter) or "get_edges" in norm(n.iter)):
            phase = "nodes" if "get_nodes" in norm(n.iter) else "edges"
            apps = [x for x in ast.walk(n) if isinstance(x, ast.Call) and isinstance(x.func, ast.Attribute) and x.func.attr == "append"]
            for a in apps:
                ifs = v.enclosing_all(a, (ast.If,))
                ifs = [i for i in ifs if n in v.enclosing_all(i, (ast.For,))]
                out.append((phase, ifs[0].test if len(ifs) == 1 else None, a))
    return out


def run(ctx):
    res = Result("C19")
    res.rules.update({k: KIND_RULES[k] for k in ("C-SIG", "K-ARG")})
    res.rules.update({
        "Q-PRED": "selection predicate, partially evaluated per mode and normalised: keep -> not all(match), remove -> all(match); same for nodes and hyperedges",
        "E-2PHASE": "items are collected first and removed afterwards: no removal inside a loop over a live view; nodes before hyperedges",
        "F-FWD": "keep_edges is forwarded to remove_node",
        "E-ONLY": "the only mutations of the hypergraph are remove_node / remove_edge",
        "V-MULT": "get_svh: a hyperedge of weight w contributes w occurrences; sizes 2..max_order; validated iff p-value < one threshold per size",
    })
    files = ["hypergraphx/filters/metadata_filters.py", "hypergraphx/filters/statistical_filters.py"]
    ctx.add_sites(res, ctx.sites(rules=("C-SIG", "K-ARG"), files=files))
    v = ctx.view("metadata_filters.filter_hypergraph")
    f = v.fi.short
    conds = _selection_conditions(v)
    phases = {p for p, _, _ in conds}
    if phases != {"nodes", "edges"}:
        raise AnalysisError(f"{f}: selection loops for nodes and hyperedges not recognised ({sorted(phases)})")
    forms = {}
    for phase, cond, node in conds:
        for mode, want in (("keep", ("not", ("all", X))), ("remove", ("all", X))):
            if cond is None:
                res.unknown("Q-PRED", f, norm(node), f"{phase}:{mode}", "selection condition not recognised", loc(v.fi, node))
                continue
            scope = v.enclosing(node, (ast.For,)) if not isinstance(node, ast.ListComp) else node
            got = _norm_q(Sym(v, mode, scope).ev(cond))
            forms[(phase, mode)] = got
            if "?" in repr(got):
                res.unknown("Q-PRED", f, norm(cond), f"{phase}:{mode}", f"predicate normalises to {got!r}", loc(v.fi, node))
            else:
                res.check(got == want, "Q-PRED", f, norm(cond), f"{phase}:{mode}", f"in mode '{mode}' an item is removed iff {_show(got)}; it must be removed iff {_show(want)}", loc(v.fi, node))
    for mode in ("keep", "remove"):
        a, b = forms.get(("nodes", mode)), forms.get(("edges", mode))
        if a is not None and b is not None and "?" not in repr(a) + repr(b):
            res.check(a == b, "Q-PRED", f, f"nodes vs hyperedges ({mode})", "siblings", "nodes and hyperedges are selected by different predicates", loc(v.fi, v.fi.node))
    # mode validation
    val = [n for n in walk_no_nested(v.fi.node) if isinstance(n, ast.If) and "mode" in norm(n.test) and any(isinstance(b, ast.Raise) for b in n.body)]
    res.check(bool(val) and all(norm(x.test) in ("mode not in {'keep', 'remove'}", "mode not in ('keep', 'remove')", "mode not in ['keep', 'remove']") for x in val), "Q-PRED", f, norm(val[0].test) if val else "mode not in {'keep','remove'}", "mode-validated", "other mode strings are not rejected (the predicate is only meaningful for keep / remove)", loc(v.fi, v.fi.node))
    # ---- E-2PHASE
    with res.guard("E-2PHASE"):
        removes = [n for n in walk_no_nested(v.fi.node) if isinstance(n, ast.Call) and isinstance(n.func, ast.Attribute) and n.func.attr in ("remove_node", "remove_edge", "remove_nodes", "remove_edges") and norm(n.func.value) == "hypergraph"]
        if not removes:
            raise AnalysisError(f"{f}: removal calls not found")
        for r in removes:
            loops = v.enclosing_all(r, (ast.For, ast.While))
            live = [l for l in loops if isinstance(l, ast.For) and "hypergraph." in norm(l.iter)]
            res.check(not live, "E-2PHASE", f, norm(r), "not-while-iterating", f"`{norm(r)}` runs inside `for ... in {norm(live[0].iter) if live else ''}`: the hypergraph is modified while one of its own views is being iterated", loc(v.fi, r))
        rn = [r for r in removes if r.func.attr.startswith("remove_node")]
        re_ = [r for r in removes if r.func.attr.startswith("remove_edge")]
        res.check(bool(rn) and bool(re_) and max(x.lineno for x in rn) < min(x.lineno for x in re_), "E-2PHASE", f, "remove_node ... remove_edge", "nodes-first", "hyperedges are filtered before nodes (hyperedges shrunk / dropped by node removal would be judged on stale data)", loc(v.fi, v.fi.node))
        for r in rn:
            kw = {k.arg: k.value for k in r.keywords}
            ok = ("keep_edges" in kw and norm(kw["keep_edges"]) == "keep_edges") or (len(r.args) >= 2 and norm(r.args[1]) == "keep_edges")
            res.check(ok, "F-FWD", f, norm(r), "keep_edges", "keep_edges is not forwarded to remove_node: incident hyperedges are always dropped (or always shrunk)", loc(v.fi, r))
    # ---- E-ONLY
    with res.guard("E-ONLY"):
        eff = Effects(ctx)
        muts = [m for m in eff.mutations(v.fi) if m.root == "hypergraph"]
        allowed = {id(r) for r in removes}
        for m in muts:
            res.check(id(m.node) in allowed, "E-ONLY", f, m.text(), "mutation", f"the hypergraph is modified other than through remove_node / remove_edge: {m.why}", loc(m.fi, m.node))
        if not muts:
            res.violation("E-ONLY", f, "hypergraph.remove_node(...)", "mutation", "filter_hypergraph never modifies the hypergraph", loc(v.fi, v.fi.node))
    # ---- get_svh
    with res.guard("get_svh"):
        b = ctx.view("statistical_filters._get_bipartite_representation")
        fb = b.fi.short
        wdef = [n for n in walk_no_nested(b.fi.node) if isinstance(n, ast.Assign) and isinstance(n.value, ast.Call) and isinstance(n.value.func, ast.Attribute) and n.value.func.attr == "get_weight"]
        if len(wdef) != 1:
            raise AnalysisError(f"{fb}: weight lookup not recognised")
        wname = norm(wdef[0].targets[0])
        outer = b.enclosing(wdef[0], (ast.For,))
        res.check(outer is not None and norm(wdef[0].value.args[0]) == norm(outer.target), "V-MULT", fb, norm(wdef[0]), "weight-of-edge", "the multiplicity is not the weight of the hyperedge being expanded", loc(b.fi, wdef[0]))
        reps = [n for n in ast.walk(outer) if isinstance(n, ast.For) and norm(n.iter) == f"range({wname})"] if outer is not None else []
        res.check(len(reps) == 1, "V-MULT", fb, f"for _ in range({wname})", "multiplicity", "a hyperedge of weight w does not contribute w occurrences", loc(b.fi, outer or b.fi.node))
        for rp in reps:
            incs = [n for n in rp.body if isinstance(n, ast.AugAssign) and norm(n.target) == "edge_index" and isinstance(n.value, ast.Constant) and n.value.value == 1]
            res.check(len(incs) == 1, "V-MULT", fb, "edge_index += 1", "one-id-per-occurrence", "occurrences of a weighted hyperedge do not get distinct occurrence ids", loc(b.fi, rp))
            apps = [n for n in ast.walk(rp) if isinstance(n, ast.Call) and isinstance(n.func, ast.Attribute) and n.func.attr == "append"]
            res.check(bool(apps) and all(b.enclosing(a, (ast.For,)) is not rp and norm(b.enclosing(a, (ast.For,)).iter) == norm(outer.target) for a in apps), "V-MULT", fb, norm(apps[0]) if apps else "bipartite_list.append((node, edge_index))", "all-nodes", "an occurrence does not list every node of the hyperedge", loc(b.fi, rp))
        s = ctx.view("statistical_filters.get_svh")
        fs = s.fi.short
        txt = norm(s.fi.node)
        res.check("orders[(orders >= 2) & (orders <= max_order)]" in txt, "V-MULT", fs, "orders[(orders >= 2) & (orders <= max_order)]", "size-range", "the validated sizes are not exactly 2..max_order", loc(s.fi, s.fi.node))
        flags = [n for n in walk_no_nested(s.fi.node) if isinstance(n, ast.Assign) and isinstance(n.targets[0], ast.Subscript) and isinstance(n.targets[0].slice, ast.Constant) and n.targets[0].slice.value == "fdr"]
        if len(flags) != 1:
            raise AnalysisError(f"{fs}: validated flag not recognised")
        c = flags[0].value
        ok = isinstance(c, ast.Compare) and isinstance(c.ops[0], ast.Lt) and "pvalue" in norm(c.left) and isinstance(c.comparators[0], ast.Name)
        res.check(ok, "V-MULT", fs, norm(flags[0]), "single-threshold", "the validated flag is not `pvalue < <one scalar threshold per size>`: a hyperedge could be validated while one with a smaller p-value is not", loc(s.fi, flags[0]))
        pv = [n for n in walk_no_nested(s.fi.node) if isinstance(n, ast.Call) and "_approximated_pvalue" in norm(n)]
        res.check(bool(pv), "V-MULT", fs, "_approximated_pvalue", "pvalue-source", "p-values are not computed by the binomial survival function", loc(s.fi, s.fi.node))
    res.assumptions += ["the binomial survival formula and the step-up threshold value are not decided", "`hypergraph` of filter_hypergraph ranges over all four container classes (tables.POLYMORPHIC)"]
    return res


def _show(e):
    if e is True:
        return "always"
    if e is False:
        return "never"
    if e == X:
        return "the criterion matches"
    if isinstance(e, tuple):
        if e[0] == "not":
            return "not (" + _show(e[1]) + ")"
        if e[0] in ("all", "any"):
            return f"{e[0]} criteria: {_show(e[1])}"
        if e[0] in ("and", "or"):
            return f"({_show(e[1])}) {e[0]} ({_show(e[2])})"
        if e[0] == "?":
            return "<" + str(e[1]) + ">"
    return repr(e)

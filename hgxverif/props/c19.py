import ast

from .. import forward as F
from ..effects import Effects
from ..model import AnalysisError, loc, norm, walk_no_nested
from ..report import Result
from ._containers import KIND_RULES

LEVEL_TEXT = (
    "Structural necessary conditions of C19, decided statically: the selection predicate of filter_hypergraph, partially evaluated "
    "for mode='keep' and mode='remove' and normalised (De Morgan, any/all duality), is `not all(criteria match)` resp. `all(criteria "
    "match)` for nodes and for hyperedges alike; items are collected first and removed afterwards (never while a live view is "
    "iterated), nodes before hyperedges, keep_edges is forwarded, nothing but remove_node / remove_edge mutates the hypergraph, and "
    "these calls bind for every container type; in get_svh weights expand to multiplicity, sizes are restricted to 2..max_order "
    "and the validated flag compares each p-value with one threshold per size.  Decides the structure, not the binomial formula."
)

X = ("X",)  # "this item's metadata matches one criterion": <metadata>.get(attr) in values


def _not(e):
    if e is True:
        return False
    if e is False:
        return True
    if isinstance(e, tuple) and e[0] == "not":
        return e[1]
    if isinstance(e, tuple) and e[0] == "any":
        return ("all", _not(e[1])) if isinstance(e[1], tuple) and e[1][0] == "not" else ("not", e)
    return ("not", e)


def _norm_q(e):
    """canonical form: negations pulled outside quantifiers: any(not P) -> not all(P); all(not P) -> not any(P)"""
    if isinstance(e, tuple) and e[0] in ("any", "all"):
        inner = _norm_q(e[1])
        if isinstance(inner, tuple) and inner[0] == "not":
            return ("not", ("all" if e[0] == "any" else "any", inner[1]))
        return (e[0], inner)
    if isinstance(e, tuple) and e[0] == "not":
        inner = _norm_q(e[1])
        if isinstance(inner, tuple) and inner[0] == "not":
            return inner[1]
        if inner is True:
            return False
        if inner is False:
            return True
        return ("not", inner)
    return e


def _and(a, b):
    if a is False or b is False:
        return False
    if a is True:
        return b
    if b is True:
        return a
    return ("and", a, b)


def _or(a, b):
    if a is True or b is True:
        return True
    if a is False:
        return b
    if b is False:
        return a
    return ("or", a, b)


class Sym:
    def __init__(self, v, mode, scope=None):
        self.v = v
        self.mode = mode
        self.scope = scope
        self.depth = 0

    def defs(self, name):
        def collect(root):
            return [n.value for n in ast.walk(root) if isinstance(n, ast.Assign) and len(n.targets) == 1 and isinstance(n.targets[0], ast.Name) and n.targets[0].id == name]

        if self.scope is not None:
            local = collect(self.scope)
            if local:
                return local
        return collect(self.v.fi.node)

    def ev(self, e):
        self.depth += 1
        try:
            if self.depth > 40:
                return ("?", "depth")
            return self._ev(e)
        finally:
            self.depth -= 1

    def _ev(self, e):
        if isinstance(e, ast.Constant) and isinstance(e.value, bool):
            return e.value
        if isinstance(e, ast.Name):
            ds = self.defs(e.id)
            if len({norm(d) for d in ds}) == 1:
                return self.ev(ds[0])
            return ("?", e.id)
        if isinstance(e, ast.UnaryOp) and isinstance(e.op, ast.Not):
            return _not(self.ev(e.operand))
        if isinstance(e, ast.BoolOp):
            vals = [self.ev(x) for x in e.values]
            out = vals[0]
            for x in vals[1:]:
                out = _and(out, x) if isinstance(e.op, ast.And) else _or(out, x)
            return out
        if isinstance(e, ast.Compare) and len(e.ops) == 1:
            l, op, r = e.left, e.ops[0], e.comparators[0]
            if isinstance(l, ast.Name) and l.id == "mode" and isinstance(r, ast.Constant) and isinstance(op, (ast.Eq, ast.NotEq)):
                val = self.mode == r.value
                return val if isinstance(op, ast.Eq) else (not val)
            if isinstance(op, ast.In) and isinstance(l, ast.Call) and isinstance(l.func, ast.Attribute) and l.func.attr == "get":
                return X
            if isinstance(op, ast.NotIn) and isinstance(l, ast.Call) and isinstance(l.func, ast.Attribute) and l.func.attr == "get":
                return _not(X)
            if isinstance(op, (ast.Eq, ast.NotEq, ast.Is, ast.IsNot)):
                a, b = self.ev(l), self.ev(r)
                for p, q in ((a, b), (b, a)):
                    if q is True or q is False:
                        same = p if q else _not(p)
                        return same if isinstance(op, (ast.Eq, ast.Is)) else _not(same)
            return ("?", norm(e))
        if isinstance(e, ast.Call) and isinstance(e.func, ast.Name) and e.func.id in ("all", "any") and e.args and isinstance(e.args[0], (ast.GeneratorExp, ast.ListComp)):
            g = e.args[0]
            over_criteria = any("items" in norm(x.iter) or "criteria" in norm(x.iter) for x in g.generators) and not any(x.ifs for x in g.generators)
            if not over_criteria:
                return ("?", norm(e))
            return (e.func.id, self.ev(g.elt))
        if isinstance(e, ast.Call) and isinstance(e.func, ast.Name) and e.func.id in self.v.fi.nested:
            nf = self.v.fi.nested[e.func.id]
            rets = [n for n in ast.walk(nf.node) if isinstance(n, ast.Return) and n.value is not None]
            if len(rets) == 1:
                return self.ev(rets[0].value)
        if isinstance(e, ast.IfExp):
            t = self.ev(e.test)
            if t is True:
                return self.ev(e.body)
            if t is False:
                return self.ev(e.orelse)
        return ("?", norm(e))


def _selection_conditions(v):
    """(phase, condition expr, node) for each 'to process' list: If guarding an append, or a comprehension filter"""
    out = []
    for n in walk_no_nested(v.fi.node):
        if isinstance(n, ast.ListComp) and any("get_nodes" in norm(g.iter) or "get_edges" in norm(g.iter) for g in n.generators):
            g = n.generators[0]
            phase = "nodes" if "get_nodes" in norm(g.iter) else "edges"
            if len(g.ifs) == 1:
                out.append((phase, g.ifs[0], n))
            else:
                out.append((phase, None, n))
        if isinstance(n, ast.For) and ("get_nodes" in norm(n.iter) or "get_edges" in norm(n.iter)):
            phase = "nodes" if "get_nodes" in norm(n.iter) else "edges"
            apps = [x for x in ast.walk(n) if isinstance(x, ast.Call) and isinstance(x.func, ast.Attribute) and x.func.attr == "append"]
            for a in apps:
                ifs = v.enclosing_all(a, (ast.If,))
                ifs = [i for i in ifs if n in v.enclosing_all(i, (ast.For,))]
                out.append((phase, ifs[0].test if len(ifs) == 1 else None, a))
    return out


def run(ctx):
    res = Result("C19")
    res.rules.update({k: KIND_RULES[k] for k in ("C-SIG", "K-ARG")})
    res.rules.update({
        "Q-PRED": "selection predicate, partially evaluated per mode and normalised: keep -> not all(match), remove -> all(match); same for nodes and hyperedges",
        "E-2PHASE": "items are collected first and removed afterwards: no removal inside a loop over a live view; nodes before hyperedges",
        "F-FWD": "keep_edges is forwarded to remove_node",
        "E-ONLY": "the only mutations of the hypergraph are remove_node / remove_edge",
        "V-MULT": "get_svh: a hyperedge of weight w contributes w occurrences; sizes 2..max_order; validated iff p-value < one threshold per size",
    })
    files = ["hypergraphx/filters/metadata_filters.py", "hypergraphx/filters/statistical_filters.py"]
    ctx.add_sites(res, ctx.sites(rules=("C-SIG", "K-ARG"), files=files))
    v = ctx.view("metadata_filters.filter_hypergraph")
    f = v.fi.short
    with res.guard("Q-PRED: selection predicate of filter_hypergraph"):
        conds = _selection_conditions(v)
        phases = {p for p, _, _ in conds}
        if phases != {"nodes", "edges"}:
            raise AnalysisError(f"{f}: selection loops for nodes and hyperedges not recognised ({sorted(phases)})")
        forms = {}
        for phase, cond, node in conds:
            for mode, want in (("keep", ("not", ("all", X))), ("remove", ("all", X))):
                if cond is None:
                    res.unknown("Q-PRED", f, norm(node), f"{phase}:{mode}", "selection condition not recognised", loc(v.fi, node))
                    continue
                scope = v.enclosing(node, (ast.For,)) if not isinstance(node, ast.ListComp) else node
                got = _norm_q(Sym(v, mode, scope).ev(cond))
                forms[(phase, mode)] = got
                if "?" in repr(got):
                    res.unknown("Q-PRED", f, norm(cond), f"{phase}:{mode}", f"predicate normalises to {got!r}", loc(v.fi, node))
                else:
                    res.check(got == want, "Q-PRED", f, norm(cond), f"{phase}:{mode}", f"in mode '{mode}' an item is removed iff {_show(got)}; it must be removed iff {_show(want)}", loc(v.fi, node))
        for mode in ("keep", "remove"):
            a, b = forms.get(("nodes", mode)), forms.get(("edges", mode))
            if a is not None and b is not None and "?" not in repr(a) + repr(b):
                res.check(a == b, "Q-PRED", f, f"nodes vs hyperedges ({mode})", "siblings", "nodes and hyperedges are selected by different predicates", loc(v.fi, v.fi.node))
    # mode validation
    with res.guard("mode validation"):
        # (`mode_is_valid = mode in {...}; if not mode_is_valid: raise`: boolean locals are folded back into the test)
        val = [n for n in walk_no_nested(v.fi.node) if isinstance(n, ast.If) and "mode" in {x.id for x in ast.walk(v.inline(n.test)) if isinstance(x, ast.Name)} and any(isinstance(b, ast.Raise) for b in n.body)]
        def mode_set(t):
            """constants the test compares `mode` against (module-level constants followed)"""
            out = set()
            for x in ast.walk(t):
                if isinstance(x, ast.Constant) and isinstance(x.value, str):
                    out.add(x.value)
                if isinstance(x, ast.Name) and x.id != "mode":
                    r = ctx.prog.resolve_name(v.fi.module, x.id)
                    if isinstance(r, ast.AST):
                        out |= {y.value for y in ast.walk(r) if isinstance(y, ast.Constant) and isinstance(y.value, str)}
                    else:
                        for st in v.fi.module.tree.body:
                            if isinstance(st, ast.Assign) and any(isinstance(t_, ast.Name) and t_.id == x.id for t_ in st.targets):
                                out |= {y.value for y in ast.walk(st.value) if isinstance(y, ast.Constant) and isinstance(y.value, str)}
            return out
        if not val:
            uses_mode = any(isinstance(x, ast.Name) and x.id == "mode" for x in ast.walk(v.fi.node))
            res.add("Q-PRED", f, "mode not in {'keep','remove'}", "mode-validated", "violation" if uses_mode and not any(not (isinstance(c.func, ast.Name) and c.func.id in ("str", "repr", "print", "format", "isinstance", "len")) for c in walk_no_nested(v.fi.node) if isinstance(c, ast.Call) and any(isinstance(a_, ast.Name) and a_.id == "mode" for a_ in list(c.args) + [k.value for k in c.keywords])) else "unknown", "other mode strings are not rejected (the predicate is only meaningful for keep / remove)", loc(v.fi, v.fi.node))
        for x in val:
            ms = mode_set(v.inline(x.test))
            st_ = "ok" if ms == {"keep", "remove"} else ("violation" if ms and ms != {"keep", "remove"} else "unknown")
            res.add("Q-PRED", f, norm(x.test), "mode-validated", st_, "" if st_ == "ok" else f"the mode check accepts / rejects {sorted(ms)} instead of exactly keep / remove", loc(v.fi, x))
    # ---- E-2PHASE
    with res.guard("E-2PHASE"):
        removes = [n for n in walk_no_nested(v.fi.node) if isinstance(n, ast.Call) and isinstance(n.func, ast.Attribute) and n.func.attr in ("remove_node", "remove_edge", "remove_nodes", "remove_edges") and norm(n.func.value) == v.fi.params[0].arg]
        if not removes:
            raise AnalysisError(f"{f}: removal calls not found")
        for r in removes:
            loops = v.enclosing_all(r, (ast.For, ast.While))
            hg = v.fi.params[0].arg
            live, undecided = [], []
            for l in loops:
                if not isinstance(l, ast.For):
                    continue
                e = v.inline(l.iter)
                if isinstance(e, ast.Call) and norm(e.func) in ("list", "tuple", "sorted", "set", "frozenset", "dict"):
                    continue  # a snapshot
                if isinstance(e, ast.Call) and ctx.callees(v.fi, getattr(e, "_orig", e)) and not (isinstance(e.func, ast.Attribute) and norm(e.func.value) == hg):
                    # the result of a helper that was handed a view: fresh when the helper returns a new list
                    fresh = all(any(isinstance(r_, ast.Return) and isinstance(r_.value, (ast.ListComp, ast.List, ast.SetComp, ast.DictComp)) or (isinstance(r_, ast.Return) and isinstance(r_.value, ast.Call) and norm(r_.value.func) in ("list", "sorted", "tuple")) for r_ in ast.walk(c.node)) for c in ctx.callees(v.fi, getattr(e, "_orig", e)))
                    if not fresh and (hg + ".") in norm(e):
                        undecided.append(l)
                    continue
                if (hg + ".") in norm(e):
                    live.append(l)
            if undecided and not live:
                res.unknown("E-2PHASE", f, norm(r), "not-while-iterating", "the loop iterates the result of a helper that was handed a view of the hypergraph", loc(v.fi, r))
                continue
            res.check(not live, "E-2PHASE", f, norm(r), "not-while-iterating", f"`{norm(r)}` runs inside `for ... in {norm(live[0].iter) if live else ''}`: the hypergraph is modified while one of its own views is being iterated", loc(v.fi, r))
        rn = [r for r in removes if r.func.attr.startswith("remove_node")]
        re_ = [r for r in removes if r.func.attr.startswith("remove_edge")]
        if rn and re_:
            res.check(max(x.lineno for x in rn) < min(x.lineno for x in re_), "E-2PHASE", f, "remove_node ... remove_edge", "nodes-first", "hyperedges are filtered before nodes (hyperedges shrunk / dropped by node removal would be judged on stale data)", loc(v.fi, v.fi.node))
        else:
            res.unknown("E-2PHASE", f, "remove_node ... remove_edge", "nodes-first", "the two removal passes were not both recognised", loc(v.fi, v.fi.node))
        # hyperedges are SELECTED after the node pass too: a hyperedge shrunk by node removal (keep_edges=True) exists
        # under a new key, one dropped with its node no longer exists
        hg_ = v.fi.params[0].arg
        esel = [n for n in walk_no_nested(v.fi.node) if isinstance(n, ast.Call) and isinstance(n.func, ast.Attribute) and n.func.attr == "get_edges" and norm(n.func.value) == hg_ and any(k.arg == "metadata" for k in n.keywords)]
        # the bound method handed to a selection helper that calls it right away: `select(hypergraph.get_edges, edge_criteria)`
        for c in walk_no_nested(v.fi.node):
            if not isinstance(c, ast.Call):
                continue
            for i_, a_ in enumerate(c.args):
                if isinstance(a_, ast.Attribute) and a_.attr == "get_edges" and norm(a_.value) == hg_:
                    local = [d for d in ast.walk(v.fi.node) if isinstance(d, ast.FunctionDef) and d is not v.fi.node and isinstance(c.func, ast.Name) and d.name == c.func.id]
                    nodes_ = [d for d in local] or [k.node for k in ctx.callees(v.fi, c)]
                    called_now = bool(nodes_) and all(len(d.args.args) > i_ and any(isinstance(x, ast.Call) and isinstance(x.func, ast.Name) and x.func.id == d.args.args[i_].arg for x in walk_no_nested(d)) for d in nodes_)
                    if called_now:
                        esel.append(c)
                    else:
                        res.unknown("E-2PHASE", f, norm(c)[:80], "select-after-node-pass", "get_edges is handed on as a bound method; when it is called was not established", loc(v.fi, c))
        for sel in esel:
            sid = v.cfg_id(sel)
            stale = [r for r in rn if v.cfg_id(r) != sid and v.cfg.reachable(sid, v.cfg_id(r))]
            res.check(not stale, "E-2PHASE", f, norm(sel), "select-after-node-pass", "hyperedges are selected before the nodes are removed: with keep_edges=True the shrunk hyperedges (new keys) escape the hyperedge criteria, and already removed ones are looked up again", loc(v.fi, sel))
        for r in rn:
            kw = {k.arg: k.value for k in r.keywords}
            ok = ("keep_edges" in kw and norm(v.inline(kw["keep_edges"])) == "keep_edges") or (len(r.args) >= 2 and norm(v.inline(r.args[1])) == "keep_edges")
            res.check(ok, "F-FWD", f, norm(r), "keep_edges", "keep_edges is not forwarded to remove_node: incident hyperedges are always dropped (or always shrunk)", loc(v.fi, r))
    # ---- E-ONLY
    with res.guard("E-ONLY"):
        eff = Effects(ctx)
        muts = [m for m in eff.mutations(v.fi) if m.root == v.fi.params[0].arg]
        allowed = {id(r) for r in removes}
        def only_removals(gfi, root, depth=0):
            """every mutation of `root` in the helper gfi is a remove_node(s) / remove_edge(s) call on it (helpers of helpers followed)"""
            if depth > 3:
                return False
            for m2 in [x for x in eff.mutations(gfi) if x.root == root]:
                n2 = m2.node
                if isinstance(n2, ast.Call) and isinstance(n2.func, ast.Attribute) and n2.func.attr in ("remove_node", "remove_edge", "remove_nodes", "remove_edges") and norm(n2.func.value) == root:
                    continue
                if isinstance(n2, ast.Call) and not isinstance(n2.func, ast.Attribute):
                    sub = ctx.callees(gfi, n2)
                    ok2 = bool(sub)
                    for g2 in sub:
                        pn2 = [a.arg for a in g2.params]
                        roots2 = [pn2[i] for i, a in enumerate(n2.args) if isinstance(a, ast.Name) and a.id == root and i < len(pn2)] + [k.arg for k in n2.keywords if isinstance(k.value, ast.Name) and k.value.id == root]
                        ok2 = ok2 and bool(roots2) and all(only_removals(g2, r2, depth + 1) for r2 in roots2)
                    if ok2:
                        continue
                return False
            return True

        for m in muts:
            ok_m = id(m.node) in allowed
            if not ok_m and isinstance(m.node, ast.Call) and not isinstance(m.node.func, ast.Attribute):
                # a private helper of the filter module that is handed the hypergraph and only removes from it
                subs = ctx.callees(v.fi, m.node)
                hgp = v.fi.params[0].arg
                ok_m = bool(subs)
                for g in subs:
                    pn = [a.arg for a in g.params]
                    roots = [pn[i] for i, a in enumerate(m.node.args) if isinstance(a, ast.Name) and a.id == hgp and i < len(pn)] + [k.arg for k in m.node.keywords if isinstance(k.value, ast.Name) and k.value.id == hgp]
                    ok_m = ok_m and bool(roots) and g.module.relpath.startswith("hypergraphx/filters/") and all(only_removals(g, r_) for r_ in roots)
            res.check(ok_m, "E-ONLY", f, m.text(), "mutation", f"the hypergraph is modified other than through remove_node / remove_edge: {m.why}", loc(m.fi, m.node))
        if not muts:
            handed_on = any(isinstance(n, ast.Lambda) for n in ast.walk(v.fi.node)) or any(isinstance(n, ast.Call) and ctx.callees(v.fi, n) and any(isinstance(x, ast.Name) and x.id == v.fi.params[0].arg for a_ in list(n.args) + [k.value for k in n.keywords] for x in ast.walk(a_)) for n in walk_no_nested(v.fi.node))
            res.add("E-ONLY", f, "hypergraph.remove_node(...)", "mutation", "unknown" if handed_on else "violation", "filter_hypergraph never modifies the hypergraph" if not handed_on else "no mutation found in filter_hypergraph itself; the hypergraph (or its bound methods) is handed to helpers / lambdas", loc(v.fi, v.fi.node))
    # ---- get_svh
    # ---- the removal primitives filter_hypergraph relies on: "nothing else about the surviving hyperedges changes" when nodes
    #      are removed with keep_edges=True hinges on remove_node re-inserting the shrunken hyperedge with its weight and metadata
    from .. import rules_container as RC
    from ._containers import PATH_RULES

    for r_ in ("P-SHRINK", "P-NODE", "P-LOOPVAR", "P-DEL"):
        res.rules[r_] = PATH_RULES[r_]
    for cls in ("Hypergraph", "TemporalHypergraph", "MultiplexHypergraph", "DirectedHypergraph"):
        if "remove_node" in ctx.methods(cls):
            with res.guard(f"RC.check_remove_node(ctx, res, {cls})"):
                RC.check_remove_node(ctx, res, cls)
    # ---- V-SCOPE: the null model of get_svh is per size class: N and every K_i handed to the p-value come from the
    #      occurrences of THAT size; a quantity taken from the whole bipartite expansion (all sizes) is another null model
    with res.guard("V-SCOPE"):
        import re as _re

        res.rules["V-SCOPE"] = "get_svh: every quantity handed to the p-value of a size class is computed from the occurrences restricted to that size class, not from the whole bipartite expansion"
        gv = ctx.view("statistical_filters.get_svh")
        gf = gv.fi
        loops = [n for n in walk_no_nested(gf.node) if isinstance(n, ast.For) and gv.enclosing(n, (ast.For, ast.While)) is None]
        srcs = {n.targets[0].id for n in walk_no_nested(gf.node) if isinstance(n, ast.Assign) and isinstance(n.targets[0], ast.Name) and isinstance(n.value, ast.Call) and norm(n.value.func).endswith("_get_bipartite_representation")}
        # `df, deg_a = _get_bipartite_representation(hypergraph, return_degrees=True)`: everything the expansion hands back is global
        srcs |= {e.id for n in walk_no_nested(gf.node) if isinstance(n, ast.Assign) and isinstance(n.targets[0], (ast.Tuple, ast.List)) and isinstance(n.value, ast.Call) and norm(n.value.func).endswith("_get_bipartite_representation") for e in n.targets[0].elts if isinstance(e, ast.Name)}
        sinks = []
        for n in walk_no_nested(gf.node):
            if isinstance(n, ast.Call) and ((isinstance(n.func, ast.Name) and n.func.id == "map") or (isinstance(n.func, ast.Attribute) and n.func.attr in ("map", "imap", "starmap"))) and len(n.args) >= 2 and norm(n.args[0]).endswith("_approximated_pvalue"):
                sinks.append(n)
        size_loops = [l for l in loops if any(any(s_ is y for y in ast.walk(l)) for s_ in sinks)]
        if not srcs or not sinks or len(size_loops) != 1:
            res.unknown("V-SCOPE", gf.short, "map(_approximated_pvalue, params)", "per-size", "the bipartite expansion / the per-size loop / the p-value call were not recognised in get_svh itself", loc(gf, gf.node))
        else:
            lp = size_loops[0]
            loopvars = {x.id for x in ast.walk(lp.target) if isinstance(x, ast.Name)}

            def names_of(e):
                out = {x.id for x in ast.walk(e) if isinstance(x, ast.Name) and isinstance(x.ctx, ast.Load)}
                for c_ in ast.walk(e):
                    if isinstance(c_, ast.Constant) and isinstance(c_.value, str):
                        out |= set(_re.findall(r"@([A-Za-z_][A-Za-z_0-9]*)", c_.value))  # DataFrame.query("b in @sub_deg")
                return out

            asg = [n for n in walk_no_nested(gf.node) if isinstance(n, ast.Assign) and len(n.targets) == 1 and isinstance(n.targets[0], ast.Name)]
            # names that depend on the size class (the loop variable), to a fixed point
            dep = set(loopvars)
            changed = True
            while changed:
                changed = False
                for n in asg:
                    if n.targets[0].id not in dep and names_of(n.value) & dep and any(n is y for y in ast.walk(lp)):
                        dep.add(n.targets[0].id)
                        changed = True
            # names computed from the whole expansion without any size-class dependent name: global quantities
            glob = set(srcs)
            changed = True
            while changed:
                changed = False
                for n in asg:
                    t_ = n.targets[0].id
                    if t_ not in glob and t_ not in dep and names_of(n.value) & glob:
                        glob.add(t_)
                        changed = True
            for sk in sinks:
                arg = sk.args[1]
                # everything the parameters are computed from, followed through the local definitions - but not through a
                # SELECTION by size class (a definition that combines the expansion with a size-dependent name): what comes
                # out of it is restricted
                used, todo = set(), list(names_of(arg))
                while todo:
                    nm = todo.pop()
                    if nm in used:
                        continue
                    used.add(nm)
                    for n in asg:
                        if n.targets[0].id != nm:
                            continue
                        ns_ = names_of(n.value)

                        def restricts(val):
                            """an operation ON a global table whose argument / subscript mentions a size-dependent name:
                            df.query("b in @sub_deg"), df[df.b.isin(sub_deg)], table.loc[order]"""
                            for x in ast.walk(val):
                                base, args = None, []
                                if isinstance(x, ast.Call) and isinstance(x.func, ast.Attribute):
                                    base, args = x.func.value, list(x.args) + [k.value for k in x.keywords]
                                elif isinstance(x, ast.Subscript):
                                    base, args = x.value, [x.slice]
                                if base is None:
                                    continue
                                if names_of(base) & glob and any(names_of(a_) & dep for a_ in args):
                                    return True
                            return False

                        if restricts(n.value):
                            continue  # restriction of the expansion to the size class
                        todo += list(ns_)
                bad = sorted((used & glob) - dep)
                res.add("V-SCOPE", gf.short, norm(sk)[:120], "per-size", "violation" if bad else "ok", "" if not bad else f"the parameters handed to the p-value use `{bad[0]}`, computed from the whole bipartite expansion (all hyperedge sizes), inside the loop over size classes: K_i / N are then not the size-n occurrences and the p-value is not the Binomial(N, prod K_i/N) tail of the definition", loc(gf, sk))
    with res.guard("get_svh"):
        b = ctx.view("statistical_filters._get_bipartite_representation")
        fb = b.fi.short
        wdef = [n for n in walk_no_nested(b.fi.node) if isinstance(n, ast.Assign) and isinstance(n.value, ast.Call) and isinstance(n.value.func, ast.Attribute) and n.value.func.attr == "get_weight"]
        if len(wdef) != 1:
            raise AnalysisError(f"{fb}: weight lookup not recognised")
        wname = norm(wdef[0].targets[0])
        outer = b.enclosing(wdef[0], (ast.For,))
        res.check(outer is not None and norm(wdef[0].value.args[0]) == norm(outer.target), "V-MULT", fb, norm(wdef[0]), "weight-of-edge", "the multiplicity is not the weight of the hyperedge being expanded", loc(b.fi, wdef[0]))
        def _range_arg(it):
            if isinstance(it, ast.Name):
                it = b.resolve(it)  # `copies = range(w)`
            if isinstance(it, ast.Call) and norm(it.func) == "range" and len(it.args) == 1:
                a_ = it.args[0]
                if isinstance(a_, ast.Call) and norm(a_.func) == "int" and a_.args:
                    a_ = a_.args[0]
                return a_
            return None

        loops_ = [n for n in ast.walk(outer) if isinstance(n, ast.For) and n is not outer] if outer is not None else []
        reps = [n for n in loops_ if _range_arg(n.iter) is not None and norm(_range_arg(n.iter)) == wname]
        other = [n for n in loops_ if _range_arg(n.iter) is not None and norm(_range_arg(n.iter)) != wname]
        if len(reps) == 1:
            res.ok("V-MULT", fb, f"for _ in range({wname})", "multiplicity", loc(b.fi, reps[0]))
        elif other or not any(isinstance(x, ast.Name) and x.id == wname and isinstance(x.ctx, ast.Load) for x in ast.walk(outer or b.fi.node)):
            # repeated another number of times, or the weight is never used at all
            res.violation("V-MULT", fb, f"for _ in range({wname})", "multiplicity", "a hyperedge of weight w does not contribute w occurrences", loc(b.fi, outer or b.fi.node))
        else:
            res.unknown("V-MULT", fb, f"for _ in range({wname})", "multiplicity", "how the weight turns into a number of occurrences was not recognised", loc(b.fi, outer or b.fi.node))
        for rp in reps:
            apps = [n for n in ast.walk(rp) if isinstance(n, ast.Call) and isinstance(n.func, ast.Attribute) and n.func.attr == "append"]
            used = {x.id for a in apps for x in ast.walk(b.inline(a, depth=1)) if isinstance(x, ast.Name)}
            incs = [n for n in rp.body if isinstance(n, ast.AugAssign) and isinstance(n.target, ast.Name)] + [n for n in rp.body if isinstance(n, ast.Assign) and isinstance(n.targets[0], ast.Name) and isinstance(n.value, ast.BinOp) and norm(n.value.left) == norm(n.targets[0])]
            ids = [n for n in incs if (n.target.id if isinstance(n, ast.AugAssign) else n.targets[0].id) in used]
            def by_one(n):
                val, op = (n.value, n.op) if isinstance(n, ast.AugAssign) else (n.value.right, n.value.op)
                return isinstance(op, ast.Add) and isinstance(val, ast.Constant) and val.value == 1
            if ids:
                res.check(len(ids) == 1 and by_one(ids[0]), "V-MULT", fb, norm(ids[0]), "one-id-per-occurrence", "occurrences of a weighted hyperedge do not get distinct occurrence ids", loc(b.fi, rp))
            else:
                res.unknown("V-MULT", fb, "edge_index += 1", "one-id-per-occurrence", "the occurrence counter was not recognised", loc(b.fi, rp))
            if apps:
                sts = []
                for a in apps:
                    lp = b.enclosing(a, (ast.For, ast.While))
                    if isinstance(lp, ast.For) and lp is not rp and norm(b.inline(lp.iter)) in (norm(outer.target), f"iter({norm(outer.target)})"):
                        sts.append("ok")
                    elif isinstance(lp, ast.While) and any(isinstance(x, ast.Call) and norm(x.func) == "next" for x in ast.walk(lp)) and any(isinstance(d, ast.Assign) and isinstance(d.value, ast.Call) and norm(d.value.func) == "iter" and d.value.args and norm(d.value.args[0]) == norm(outer.target) for d in ast.walk(rp)):
                        sts.append("ok")  # iter(edge) / next(...) until StopIteration
                    elif lp is rp:
                        sts.append("violation")
                    else:
                        sts.append("unknown")
                st_ = "violation" if "violation" in sts else ("ok" if set(sts) == {"ok"} else "unknown")
                res.add("V-MULT", fb, norm(apps[0]), "all-nodes", st_, "" if st_ == "ok" else "an occurrence does not list every node of the hyperedge", loc(b.fi, rp))
            else:
                res.unknown("V-MULT", fb, "bipartite_list.append((node, edge_index))", "all-nodes", "the statement that records an occurrence was not recognised", loc(b.fi, rp))
        s = ctx.view("statistical_filters.get_svh")
        fs = s.fi.short
        from .. import predtab

        # sizes 2..max_order: a mask `(x >= 2) & (x <= max_order)` (any spelling with the same truth table)
        masks = [n for n in ast.walk(s.fi.node) if isinstance(n, ast.BinOp) and isinstance(n.op, ast.BitAnd) and all(isinstance(x, ast.Compare) for x in (n.left, n.right)) and "max_order" in {y.id for y in ast.walk(n) if isinstance(y, ast.Name)}]
        # the same restriction spelled as a range: range(2, max_order + 1) [the end of a range is exclusive]
        ranges = [n for n in ast.walk(s.fi.node) if isinstance(n, ast.Call) and isinstance(n.func, ast.Name) and n.func.id == "range" and any(isinstance(y, ast.Name) and y.id == "max_order" for a_ in n.args for y in ast.walk(a_))]
        for rg in ranges:
            lo = rg.args[0] if len(rg.args) >= 2 else ast.Constant(0)
            hi = rg.args[1] if len(rg.args) >= 2 else rg.args[0]
            lo_ok = isinstance(lo, ast.Constant) and lo.value == 2
            hi_t = norm(s.inline(hi))
            hi_ok = hi_t in ("max_order + 1", "1 + max_order")
            hi_bad = hi_t in ("max_order", "max_order - 1", "max_order + 2")
            lo_bad = isinstance(lo, ast.Constant) and lo.value != 2
            st_ = "ok" if lo_ok and hi_ok else ("violation" if hi_bad or lo_bad else "unknown")
            res.add("V-MULT", fs, norm(rg), "size-range", st_, "" if st_ == "ok" else f"the tested sizes are `{norm(rg)}`, not exactly 2..max_order (the end of a range is exclusive: hyperedges of size max_order are never tested or reported)", loc(s.fi, rg))
        if not masks and ranges:
            pass
        elif not masks:
            res.unknown("V-MULT", fs, "orders[(orders >= 2) & (orders <= max_order)]", "size-range", "the size mask was not recognised", loc(s.fi, s.fi.node))
        for m in masks:
            names = sorted({y.id for y in ast.walk(m) if isinstance(y, ast.Name)} - {"max_order"})
            if len(names) != 1:
                res.unknown("V-MULT", fs, norm(m), "size-range", "the size mask is not a predicate of one array", loc(s.fi, m))
                continue
            test = ast.BoolOp(op=ast.And(), values=[m.left, m.right])
            lab = predtab.same(test, [names[0], "max_order"], lambda x_, mo: 2 <= x_ <= mo)
            res.add("V-MULT", fs, norm(m), "size-range", "ok" if lab == "T" else ("unknown" if lab is None else "violation"), "" if lab == "T" else "the validated sizes are not exactly 2..max_order", loc(s.fi, m))
        flags = [n for n in walk_no_nested(s.fi.node) if isinstance(n, ast.Assign) and isinstance(n.targets[0], ast.Subscript) and isinstance(n.targets[0].slice, ast.Constant) and n.targets[0].slice.value == "fdr"]
        if len(flags) != 1:
            raise AnalysisError(f"{fs}: validated flag not recognised")
        c = flags[0].value
        if isinstance(c, ast.Compare) and len(c.ops) == 1 and isinstance(c.ops[0], (ast.Lt, ast.Gt, ast.LtE, ast.GtE)):
            l, r, op = c.left, c.comparators[0], c.ops[0]
            if isinstance(op, (ast.Gt, ast.GtE)):
                l, r = r, l  # orient as  l < r  /  l <= r
            strict = isinstance(op, (ast.Lt, ast.Gt))
            pv_left = "pvalue" in norm(l)
            scalar = isinstance(r, ast.Name)
            ok = strict and pv_left and scalar
            res.check(ok, "V-MULT", fs, norm(flags[0]), "single-threshold", "the validated flag is not `pvalue < <one scalar threshold per size>`: a hyperedge could be validated while one with a smaller p-value is not", loc(s.fi, flags[0]))
        else:
            res.unknown("V-MULT", fs, norm(flags[0]), "single-threshold", "the validated flag is not a plain comparison", loc(s.fi, flags[0]))
        # V-PERSIZE: the threshold is computed anew for every size: no value assigned before the loop over the sizes (or in the
        # iteration of another size) reaches the comparison with this size's p-values
        res.rules["V-PERSIZE"] = "the threshold the p-values of one size are compared with is assigned on every path of that size's iteration (the threshold of an earlier size is never carried over)"
        with res.guard("V-PERSIZE"):
            thr_ = None
            if isinstance(c, ast.Compare):
                thr_ = next((x for x in [c.comparators[0], c.left] if isinstance(x, ast.Name)), None)
            lp_ = s.enclosing(flags[0], (ast.For, ast.While))
            if thr_ is None or lp_ is None:
                res.unknown("V-PERSIZE", fs, norm(flags[0]), "assigned-per-size", "the threshold is not a local name compared inside a loop over the sizes", loc(s.fi, flags[0]))
            else:
                all_defs = [n for n in walk_no_nested(s.fi.node) if isinstance(n, (ast.Assign, ast.AugAssign, ast.AnnAssign)) and any(isinstance(y, ast.Name) and y.id == thr_.id and isinstance(y.ctx, ast.Store) for t in (n.targets if isinstance(n, ast.Assign) else [n.target]) for y in ast.walk(t))]
                inside = [n for n in all_defs if any(n is y for y in ast.walk(lp_))]
                outside = [n for n in all_defs if n not in inside]
                hid_ = s.cfg_id(lp_)
                fid_ = s.cfg_id(flags[0])
                ids_ = {s.cfg_id(n) for n in inside} - {None}
                if hid_ is None or fid_ is None:
                    res.unknown("V-PERSIZE", fs, norm(flags[0]), "assigned-per-size", "loop not in the flow graph", loc(s.fi, flags[0]))
                else:
                    starts_ = s.cfg.succ(hid_, "iter") or s.cfg.succ(hid_)
                    skip_ = any(s0 == fid_ or (s0 not in ids_ and s.cfg.reaches_without(s0, fid_, ids_ | {hid_})) for s0 in starts_)
                    if skip_ and outside:
                        res.violation("V-PERSIZE", fs, norm(outside[0])[:80], "assigned-per-size", f"`{thr_.id}` is set before the loop over the sizes and re-assigned only on some paths of an iteration: for a size where no assignment runs (no rank passes), the p-values are compared with the threshold of an EARLIER size, so hyperedges of this size are reported as validated although none passes the test at this size", loc(s.fi, outside[0]))
                    elif skip_:
                        res.unknown("V-PERSIZE", fs, norm(flags[0]), "assigned-per-size", f"a path of the iteration reaches the comparison without assigning `{thr_.id}`", loc(s.fi, flags[0]))
                    else:
                        res.ok("V-PERSIZE", fs, norm(flags[0]), "assigned-per-size", loc(s.fi, flags[0]))
        # V-STEPUP: the step-up (Benjamini-Hochberg style) threshold is the LARGEST passing rank's level, `k[ps < k][-1]`; the
        # level at the NUMBER of passing ranks (`k[count_nonzero(ps < k) - 1]`) is lower whenever a small rank fails and a
        # larger one passes
        res.rules["V-STEPUP"] = "the validation threshold is the level of the last (largest) passing rank of the sorted p-values, not the level at the count of passing ranks"
        with res.guard("V-STEPUP"):
            thr = c.comparators[0] if isinstance(c, ast.Compare) and isinstance(c.comparators[0], ast.Name) else (c.left if isinstance(c, ast.Compare) and isinstance(c.left, ast.Name) else None)
            defs = []
            if thr is not None:
                for n in walk_no_nested(s.fi.node):
                    if isinstance(n, ast.Assign) and any(isinstance(t, ast.Name) and t.id == thr.id for t in n.targets) and not (isinstance(n.value, ast.Constant)):
                        defs.append((s, n.value))
            # a helper that computes the threshold: judge its returned expressions
            expanded = []
            for vw, e in defs:
                if isinstance(e, ast.Call) and ctx.callees(vw.fi, e):
                    for callee in ctx.callees(vw.fi, e):
                        cv = ctx.view(callee)
                        for r_ in walk_no_nested(callee.node):
                            if isinstance(r_, ast.Return) and r_.value is not None and not isinstance(r_.value, ast.Constant):
                                expanded.append((cv, r_.value))
                else:
                    expanded.append((vw, e))
            if not expanded:
                res.unknown("V-STEPUP", fs, "fdr = k[ps < k][-1]", "last-passing-rank", "the definition of the threshold was not recognised", loc(s.fi, flags[0]))
            # `k[...] if <some rank passes> else 0`: the non-constant arm
            flat = []
            for vw, e in expanded:
                ei0 = vw.inline(e)
                arms = [ei0.body, ei0.orelse] if isinstance(ei0, ast.IfExp) else [ei0]
                flat += [(vw, e, a_) for a_ in arms if not isinstance(a_, ast.Constant)]
            for vw, e, ei in flat:
                st_ = "unknown"
                why_ = "the threshold is not a selection from the rank levels"
                if isinstance(ei, ast.Subscript):
                    idx = ei.slice
                    base = ei.value
                    mask_last = isinstance(idx, ast.UnaryOp) and isinstance(idx.op, ast.USub) and isinstance(idx.operand, ast.Constant) and idx.operand.value == 1 and isinstance(base, ast.Subscript) and any(isinstance(x, ast.Compare) for x in ast.walk(base.slice))
                    counted = any(isinstance(x, ast.Call) and norm(x.func).split(".")[-1] in ("count_nonzero", "sum", "len") for x in ast.walk(idx)) and any(isinstance(x, ast.Compare) for x in ast.walk(idx))
                    if mask_last:
                        st_, why_ = "ok", ""
                    elif counted:
                        st_, why_ = "violation", f"the threshold is the level at the NUMBER of passing ranks (`{norm(ei)[:80]}`), not at the largest passing rank: when a small rank fails and a larger one passes the threshold is too low and hyperedges below the true threshold are not validated"
                res.add("V-STEPUP", vw.fi.short, norm(e)[:120], "last-passing-rank", st_, why_, loc(vw.fi, e))
        pv = [n for n in ast.walk(s.fi.node) if isinstance(n, (ast.Call, ast.Name)) and "_approximated_pvalue" in norm(n)]
        res.add("V-MULT", fs, "_approximated_pvalue", "pvalue-source", "ok" if pv else "unknown", "" if pv else "the p-value computation was not recognised", loc(s.fi, s.fi.node))
    res.assumptions += ["the binomial survival formula and the step-up threshold value are not decided", "`hypergraph` of filter_hypergraph ranges over all four container classes (tables.POLYMORPHIC)"]
    with res.guard("general lint pack over the property's files"):
        from ..lints import check_pack

        check_pack(ctx, res, "C19")
    return res


def _show(e):
    if e is True:
        return "always"
    if e is False:
        return "never"
    if e == X:
        return "the criterion matches"
    if isinstance(e, tuple):
        if e[0] == "not":
            return "not (" + _show(e[1]) + ")"
        if e[0] in ("all", "any"):
            return f"{e[0]} criteria: {_show(e[1])}"
        if e[0] in ("and", "or"):
            return f"({_show(e[1])}) {e[0]} ({_show(e[2])})"
        if e[0] == "?":
            return "<" + str(e[1]) + ">"
    return repr(e)

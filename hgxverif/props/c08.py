import ast

from .. import rules_container as RC
from ..model import AnalysisError, loc, norm, walk_no_nested
from ..report import Result
from ._clients import CC, DEGREE, VISITS, check_filter_clients
from ._containers import KIND_RULES

LEVEL_TEXT = (
    "Structural necessary conditions of C08, decided statically: the order/size filter received by every degree / "
    "connectivity function reaches get_incident_edges / get_neighbors under the right name and unit (forwarding rules over the "
    "resolved call graph, all four containers for the degree functions), None-tests instead of truthiness, the exclusion guard, "
    "degree == len(filtered incident list of the same node), the component sweep starts a search from every unvisited node, "
    "and get_neighbors never returns the queried node.  Decides the structure, not that BFS computes reachability classes."
)


def check_largest_component(ctx, res):
    """cc.largest_component returns a maximum-size component of the partition: `max(components, key=len)`, or a sweep
    whose early exit is sound - the exit test on (len(component), number of nodes) must imply 2 * len >= n (nothing
    that is left can be larger).  The exit test is tabulated over a grid of (c, n), nothing is executed."""
    import copy

    from .. import predtab

    res.rules["B-LARGEST"] = "largest_component is a maximum over ALL components; an early exit of the sweep is taken only when the found component cannot be beaten (2*len >= n)"
    v = ctx.view("cc.largest_component")
    f = v.fi.short
    hg = v.fi.params[0].arg if v.fi.params else "hg"
    rets = [n for n in walk_no_nested(v.fi.node) if isinstance(n, ast.Return) and n.value is not None]
    whole = [r for r in rets if isinstance(v.inline(r.value), ast.Call) and norm(v.inline(r.value).func) in ("max", "sorted") or (isinstance(v.inline(r.value), ast.Subscript) and isinstance(v.inline(r.value).value, ast.Call) and norm(v.inline(r.value).value.func) == "sorted")]
    early = [r for r in rets if v.enclosing(r, (ast.For, ast.While)) is not None] + [b for b in walk_no_nested(v.fi.node) if isinstance(b, ast.Break)]
    for r in whole:
        e = v.inline(r.value)
        call = e if isinstance(e, ast.Call) else e.value
        key = next((k.value for k in call.keywords if k.arg == "key"), None)
        if norm(call.func) == "max":
            st = "ok" if key is not None and norm(key) == "len" else ("violation" if key is None else "unknown")
            res.add("B-LARGEST", f, norm(r), "max-by-len", st, "" if st == "ok" else "the largest component is not chosen by its number of nodes (max without key=len compares the node lists lexicographically)", loc(v.fi, r))
        else:
            res.unknown("B-LARGEST", f, norm(r), "max-by-len", "selection through sorted(...) not decided", loc(v.fi, r))
    for r in early:
        # the conditions under which this return is taken inside the sweep
        conds = [i for i in v.enclosing_all(r, (ast.If,)) if v.enclosing(i, (ast.For, ast.While)) is not None]
        if not conds:
            res.violation("B-LARGEST", f, norm(r), "early-exit", "the sweep stops at the first component it finds", loc(v.fi, r))
            continue
        for i in conds:
            test = v.inline(i.test)

            class Sym(ast.NodeTransformer):
                def visit_Call(self, n):
                    t = norm(n)
                    if norm(n.func) == "len" and n.args:
                        inner = norm(n.args[0])
                        if inner in (f"{hg}.get_nodes()", f"list({hg}.get_nodes())"):
                            return ast.Name(id="n_", ctx=ast.Load())
                        return ast.Name(id="c_", ctx=ast.Load())
                    if t in (f"{hg}.num_nodes()",):
                        return ast.Name(id="n_", ctx=ast.Load())
                    return self.generic_visit(n)

            sym = Sym().visit(copy.deepcopy(test))
            tab = predtab.table(sym, ["c_", "n_"], lo=0, hi=13)
            if tab is None:
                res.unknown("B-LARGEST", f, norm(i.test), "early-exit", "the early-exit test is not a comparison of the component size with the number of nodes", loc(v.fi, i))
                continue
            bad = sorted((c, n) for (c, n), val in tab.items() if val and 1 <= c <= n and 2 * c < n)
            res.check(not bad, "B-LARGEST", f, norm(i.test), "early-exit", f"the sweep stops at a component that can still be beaten: e.g. a component of {bad[0][0]} nodes out of {bad[0][1]} passes `{norm(test)}` although the remaining {bad[0][1] - bad[0][0]} nodes may form a larger one" if bad else "", loc(v.fi, i))
    tracked = [n for n in walk_no_nested(v.fi.node) if isinstance(n, ast.Compare) and len(n.ops) == 1 and isinstance(n.ops[0], (ast.Gt, ast.GtE, ast.Lt, ast.LtE)) and all(isinstance(x, ast.Call) and norm(x.func) == "len" for x in (n.left, n.comparators[0]))]
    if not whole and tracked:
        res.ok("B-LARGEST", f, norm(tracked[0]), "max-by-len", loc(v.fi, tracked[0]))
    if not whole and not early and not tracked:
        res.unknown("B-LARGEST", f, "max(components, key=len)", "max-by-len", "the selection of the largest component was not recognised", loc(v.fi, v.fi.node))


def run(ctx):
    res = Result("C08")
    res.rules.update({k: KIND_RULES[k] for k in ("C-SIG", "K-ARG", "K-KEY-LOCAL", "K-MEM") if k in KIND_RULES})
    res.rules.update({
        "F-FWD": "the order/size filter is forwarded (not dropped, not swapped, converted with +-1) at every call towards get_incident_edges / get_neighbors",
        "F-USE": "a received order/size parameter is used",
        "M-NONE": "order/size are tested with `is None`, never by truthiness (order 0 / size 1 are legitimate filters)",
        "M-EXCL": "order and size together are rejected",
        "E-PURE": "measures do not modify the hypergraph",
        "D-LEN": "degree is len() of the (filtered) incident-hyperedge list of the same node",
        "D-SEQ": "degree_sequence maps every node of get_nodes() to degree(node, same filter); the distribution counts each node once",
        "CC-COVER": "connected_components starts a search from every node not yet visited and marks the whole component visited",
        "P-NEIGH": "get_neighbors never returns the queried node",
    })
    files = ["hypergraphx/measures/degree.py", "hypergraphx/utils/cc.py", "hypergraphx/utils/visits.py"]
    ctx.add_sites(res, ctx.sites(rules=("C-SIG", "K-ARG", "K-MEM", "K-KEY-LOCAL"), files=files))
    with res.guard("check_filter_clientsctx, res, DEGREE  CC  VISITS"):
        check_filter_clients(ctx, res, DEGREE + CC + VISITS)
    for cls in ("Hypergraph", "DirectedHypergraph", "TemporalHypergraph"):
        with res.guard("RC.check_neighborsctx, res, cls"):
            RC.check_neighbors(ctx, res, cls)
    # degrees, neighbours and components are read off the incidence lists: "for every history" rests on the joint-update rules
    # that keep those lists in step with the hyperedge tables when hyperedges / nodes are removed (shared with C01)
    from ._containers import PATH_RULES

    for r_ in ("P-DEL", "P-DELJOINT", "P-NODE", "P-SHRINK", "P-LOOPVAR", "P-ADJ1"):
        res.rules[r_] = PATH_RULES[r_]
    # ... and on add_edge listing a hyperedge ONCE in the incidence list of each member, however often it is inserted (P-ADJ1)
    res.rules.update({k_: PATH_RULES[k_] for k_ in ("P-FRESH", "P-ACCUM", "P-EMETA", "P-ADD-ID") if k_ in PATH_RULES})
    with res.guard("RC.check_add_edge(ctx, res, Hypergraph)"):
        RC.check_add_edge(ctx, res, "Hypergraph")
    with res.guard("RC.check_remove_edge(ctx, res, Hypergraph)"):
        RC.check_remove_edge(ctx, res, "Hypergraph")
    with res.guard("RC.check_remove_node(ctx, res, Hypergraph)"):
        RC.check_remove_node(ctx, res, "Hypergraph")
    with res.guard("RC.check_record_deletion_joint(ctx, res, Hypergraph)"):
        RC.check_record_deletion_joint(ctx, res, "Hypergraph")
    res.rules["Q-ISO"] = "isolated_nodes / is_isolated decide isolation from the neighbour set (directly or by delegation), never from incidence lists or degrees"
    with res.guard("RC.check_isolation(ctx, res, Hypergraph)"):
        RC.check_isolation(ctx, res, "Hypergraph")
    with res.guard("RC.check_isolation(ctx, res, targets=cc.isolated_nodes / cc.is_isolated)"):
        RC.check_isolation(ctx, res, targets=[d for d in ("cc.isolated_nodes", "cc.is_isolated") if ctx.has(d)])
    with res.guard("RC.check_memo_keys"):
        RC.check_memo_keys(ctx, res, "Hypergraph")

    # ---- degree = len(filtered incident list of the same node)
    with res.guard("degree = len(filtered incident list of the same node)"):
        v = ctx.view("degree.degree")
        rets = [n for n in walk_no_nested(v.fi.node) if isinstance(n, ast.Return) and n.value is not None]
        if not rets:
            raise AnalysisError("degree.degree: no return")

        def incident_of_node(x, depth=0):
            if isinstance(x, ast.Call) and isinstance(x.func, ast.Attribute) and x.func.attr == "get_incident_edges" and x.args and isinstance(x.args[0], ast.Name) and x.args[0].id == "node":
                return True
            # a local assigned on several branches (one per filter): every definition is the incident list of the node
            if isinstance(x, ast.Name) and depth < 2:
                defs = [d.value for d in walk_no_nested(v.fi.node) if isinstance(d, ast.Assign) and any(isinstance(t, ast.Name) and t.id == x.id for t in d.targets)]
                return bool(defs) and all(incident_of_node(d, depth + 1) for d in defs)
            return False

        for r in rets:
            e = v.inline(r.value)
            ok = isinstance(e, ast.Call) and isinstance(e.func, ast.Name) and e.func.id == "len" and len(e.args) == 1 and incident_of_node(e.args[0])
            if not ok and isinstance(e, ast.Call) and isinstance(e.func, ast.Name) and e.func.id == "len" and e.args and isinstance(e.args[0], ast.Call) and isinstance(e.args[0].func, ast.Name) and e.args[0].func.id in ("list", "tuple"):
                ok = bool(e.args[0].args) and incident_of_node(e.args[0].args[0])
            # anything else built from len() / the incidence queries is a different quantity; other shapes are not judged
            # sum(1 for _ in <incident edges of node>) is the same count
            if not ok and isinstance(e, ast.Call) and isinstance(e.func, ast.Name) and e.func.id == "sum" and len(e.args) == 1 and isinstance(e.args[0], ast.GeneratorExp) and isinstance(e.args[0].elt, ast.Constant) and e.args[0].elt.value == 1 and len(e.args[0].generators) == 1 and not e.args[0].generators[0].ifs:
                src = e.args[0].generators[0].iter
                if incident_of_node(src):
                    ok = True
                elif isinstance(src, ast.Call) and ctx.callees(v.fi, getattr(src, "_orig", src)):
                    res.unknown("D-LEN", v.fi.short, norm(r), "len(incident)", "the degree counts what a helper yields", loc(v.fi, r))
                    continue
            # positively another quantity: the number of neighbours / of all hyperedges / of nodes
            srcs = [e] + [d.value for x in ast.walk(e) if isinstance(x, ast.Name) for d in walk_no_nested(v.fi.node) if isinstance(d, ast.Assign) and any(isinstance(t, ast.Name) and t.id == x.id for t in d.targets)]
            related = any(isinstance(x, ast.Call) and isinstance(x.func, ast.Attribute) and x.func.attr in ("get_neighbors", "get_edges", "get_nodes", "num_edges", "num_nodes") for s_ in srcs for x in ast.walk(s_))
            res.add("D-LEN", v.fi.short, norm(r), "len(incident)", "ok" if ok else ("violation" if related else "unknown"), "" if ok else "degree is not the length of the node's (filtered) incident-hyperedge list", loc(v.fi, r))
    # ---- degree_sequence: {node: hg.degree(node, ...) for node in hg.get_nodes()}
    with res.guard("degree_sequence: {node: hg.degree(node, ...) for node in hg.get_nodes()}"):
        v = ctx.view("degree.degree_sequence")

        def is_get_nodes(it):
            if isinstance(it, ast.Name):
                # `nodes = hg.get_nodes()` on every branch that reaches the loop
                ds_ = [d.value for d in walk_no_nested(v.fi.node) if isinstance(d, ast.Assign) and any(isinstance(t, ast.Name) and t.id == it.id for t in d.targets)]
                if len(ds_) > 1:
                    return all(is_get_nodes(d) for d in ds_)
            it = v.inline(it)
            return isinstance(it, ast.Call) and isinstance(it.func, ast.Attribute) and it.func.attr == "get_nodes" and not it.args and not it.keywords

        def degree_of(val, tgt, depth=0):
            """'ok' / 'violation' (the degree of ANOTHER node, or another quantity of that node) / 'unknown'"""
            val = v.inline(val)
            if isinstance(val, ast.Call) and isinstance(val.func, ast.Attribute) and val.func.attr == "degree" and val.args:
                return "ok" if isinstance(val.args[0], ast.Name) and val.args[0].id == tgt else "violation"
            if isinstance(val, ast.Call) and isinstance(val.func, ast.Name) and val.func.id == "degree" and len(val.args) >= 2:
                return "ok" if isinstance(val.args[1], ast.Name) and val.args[1].id == tgt else "violation"
            if isinstance(val, ast.Name) and depth < 2:
                # assigned on several branches (one per filter)
                defs = [d.value for d in walk_no_nested(v.fi.node) if isinstance(d, ast.Assign) and any(isinstance(t, ast.Name) and t.id == val.id for t in d.targets)]
                sts = {degree_of(d, tgt, depth + 1) for d in defs}
                return "violation" if "violation" in sts else ("ok" if sts == {"ok"} else "unknown")
            if isinstance(val, ast.IfExp):
                sts = {degree_of(val.body, tgt, depth + 1), degree_of(val.orelse, tgt, depth + 1)}
                return "violation" if "violation" in sts else ("ok" if sts == {"ok"} else "unknown")
            return "unknown"

        forms = []  # (node, iter, filtered?, target name, key expr, value expr)
        for n in walk_no_nested(v.fi.node):
            if isinstance(n, ast.DictComp):
                g = n.generators[0]
                forms.append((n, g.iter, bool(g.ifs) or len(n.generators) != 1, g.target.id if isinstance(g.target, ast.Name) else None, n.key, n.value))
            if isinstance(n, ast.For) and isinstance(n.target, ast.Name):
                sts_ = [st for st in ast.walk(n) if isinstance(st, ast.Assign) and len(st.targets) == 1 and isinstance(st.targets[0], ast.Subscript) and isinstance(st.targets[0].value, ast.Name)]
                hid_ = v.cfg.by_ast.get(id(n))
                for st in sts_:
                    # filtered: some iteration can come back to the loop head without passing any of the stores into the same dict
                    # (`if order is None: seq[node] = ... else: seq[node] = ...` stores on every path)
                    same = {v.cfg_id(s2) for s2 in sts_ if norm(s2.targets[0].value) == norm(st.targets[0].value)} - {None}
                    if st in n.body:
                        filt_ = False
                    elif hid_ is not None and same:
                        filt_ = any(s0 == hid_ or (s0 not in same and v.cfg.reaches_without(s0, hid_, same)) for s0 in v.cfg.succ(hid_, "iter"))
                    else:
                        filt_ = True
                    forms.append((n, n.iter, filt_, n.target.id, st.targets[0].slice, st.value))
        if not forms:
            raise AnalysisError("degree.degree_sequence: neither a dict comprehension nor a filling loop found")
        for c, it, filtered, tgt, key, val in forms:
            res.check(is_get_nodes(it) and not filtered, "D-SEQ", v.fi.short, norm(c)[:160], "all-nodes", "the degree sequence does not range over every node of get_nodes() exactly once", loc(v.fi, c))
            key_ok = isinstance(key, ast.Name) and key.id == tgt
            dst = degree_of(val, tgt)
            st_ = "ok" if key_ok and dst == "ok" else ("violation" if dst == "violation" or (isinstance(key, ast.Name) and not key_ok) else "unknown")
            res.add("D-SEQ", v.fi.short, norm(c)[:160], "same-node", st_, "" if st_ == "ok" else "the degree stored for a node is not degree(<that node>)", loc(v.fi, c))
        v = ctx.view("degree.degree_distribution")
        augs = [n for n in walk_no_nested(v.fi.node) if isinstance(n, ast.AugAssign) and isinstance(n.target, ast.Subscript)]
        gets = [n for n in walk_no_nested(v.fi.node) if isinstance(n, ast.Assign) and isinstance(n.targets[0], ast.Subscript) and isinstance(n.value, ast.BinOp) and any(isinstance(x, ast.Call) and isinstance(x.func, ast.Attribute) and x.func.attr == "get" for x in ast.walk(n.value))]
        if augs:
            res.check(all(isinstance(a.op, ast.Add) and isinstance(a.value, ast.Constant) and a.value.value == 1 for a in augs), "D-SEQ", v.fi.short, norm(augs[0]), "histogram", "the degree histogram does not count each node exactly once", loc(v.fi, augs[0]))
        elif gets:
            res.check(all(isinstance(a.value.op, ast.Add) and isinstance(a.value.right, ast.Constant) and a.value.right.value == 1 for a in gets), "D-SEQ", v.fi.short, norm(gets[0]), "histogram", "the degree histogram does not count each node exactly once", loc(v.fi, gets[0]))
        else:
            res.unknown("D-SEQ", v.fi.short, "+= 1", "histogram", "counting idiom not recognised (Counter / other)", loc(v.fi, v.fi.node))
        loops = [n for n in walk_no_nested(v.fi.node) if isinstance(n, ast.For)]
        over = any(isinstance(l.iter, ast.Call) and isinstance(l.iter.func, ast.Attribute) and l.iter.func.attr in ("items", "values") for l in loops)
        res.add("D-SEQ", v.fi.short, "for node, deg in degree_seq.items()", "over-sequence", "ok" if over else "unknown", "" if over else "the loop that builds the histogram was not recognised", loc(v.fi, v.fi.node))
    # ---- connected_components sweep
    with res.guard("connected_components sweep"):
        v = ctx.view("cc.connected_components")
        f = v.fi.short
        loops = [n for n in walk_no_nested(v.fi.node) if isinstance(n, ast.For) and isinstance(v.inline(n.iter), ast.Call) and isinstance(v.inline(n.iter).func, ast.Attribute) and v.inline(n.iter).func.attr == "get_nodes"]
        if len(loops) == 1:
            res.ok("CC-COVER", f, "for node in hg.get_nodes()", "sweep", loc(v.fi, loops[0]))
        elif not loops and not any(isinstance(n, (ast.For, ast.While)) for n in walk_no_nested(v.fi.node)) and not any(v.ctx.callees(v.fi, n) for n in walk_no_nested(v.fi.node) if isinstance(n, ast.Call) and not (isinstance(n.func, ast.Attribute))):
            res.violation("CC-COVER", f, "for node in hg.get_nodes()", "sweep", "the component sweep does not range over every node", loc(v.fi, v.fi.node))
        else:
            res.unknown("CC-COVER", f, "for node in hg.get_nodes()", "sweep", "the sweep over get_nodes() was not recognised", loc(v.fi, v.fi.node))
        for lp in loops:
            node = lp.target.id if isinstance(lp.target, ast.Name) else None
            searches = [c for c in ast.walk(lp) if isinstance(c, ast.Call) and isinstance(c.func, ast.Name) and c.func.id in ("_bfs", "_dfs")]
            tests = [n for n in ast.walk(lp) if isinstance(n, ast.If) and isinstance(n.test, ast.Compare) and len(n.test.ops) == 1 and isinstance(n.test.ops[0], (ast.NotIn, ast.In)) and isinstance(n.test.left, ast.Name) and n.test.left.id == node and isinstance(n.test.comparators[0], ast.Name)]
            if not searches:
                res.unknown("CC-COVER", f, "_bfs(hg, node, ...)", "guard", "no search call recognised in the sweep", loc(v.fi, lp))
                continue
            guards = []
            for t in tests:
                lab = "T" if isinstance(t.test.ops[0], ast.NotIn) else "F"
                if all(v.cfg.branch_dominated(v.cfg.by_ast[id(t.test)], lab, v.cfg_id(c)) for c in searches):
                    guards.append(t)
            wrong = [t for t in tests if t not in guards and all(v.cfg.branch_dominated(v.cfg.by_ast[id(t.test)], "F" if isinstance(t.test.ops[0], ast.NotIn) else "T", v.cfg_id(c)) for c in searches)]
            other_ifs = [n for n in ast.walk(lp) if isinstance(n, ast.If) and n not in tests]
            # `for comp in components: if node in comp: break` / `else: <search>`: the search runs when no component found so far
            # holds the node
            for_else = False
            for inner in [x for x in ast.walk(lp) if isinstance(x, ast.For) and x is not lp and x.orelse]:
                in_else = all(any(c is y for st_ in inner.orelse for y in ast.walk(st_)) for c in searches)
                brk = [t for t in tests if isinstance(t.test.ops[0], ast.In) and any(t is y for st_ in inner.body for y in ast.walk(st_)) and any(isinstance(b_, ast.Break) for b_ in t.body)]
                if in_else and brk:
                    for_else = True
            if for_else:
                res.ok("CC-COVER", f, f"for c in components: if {node} in c: break / else: search", "guard", loc(v.fi, lp))
                continue
            if guards:
                res.ok("CC-COVER", f, f"if {node} not in visited", "guard", loc(v.fi, guards[0]))
            elif wrong:
                res.violation("CC-COVER", f, f"if {node} not in visited", "guard", "a search is started exactly for the nodes that ARE already visited", loc(v.fi, wrong[0]))
            elif not other_ifs and not tests:
                res.violation("CC-COVER", f, f"if {node} not in visited", "guard", "a search is not started exactly for the nodes that are not yet visited", loc(v.fi, lp))
            else:
                res.unknown("CC-COVER", f, f"if {node} not in visited", "guard", "the visited-test that guards the search was not recognised", loc(v.fi, lp))
            for g in guards[:1]:
                vis = g.test.comparators[0].id
                s_ok = [c for c in searches if len(c.args) >= 2 and isinstance(c.args[1], ast.Name) and c.args[1].id == node]
                s_bad = [c for c in searches if len(c.args) >= 2 and not (isinstance(c.args[1], ast.Name) and c.args[1].id == node)]
                res.add("CC-COVER", f, norm(searches[0]), "search-from-node", "ok" if s_ok and not s_bad else ("violation" if s_bad else "unknown"), "" if s_ok and not s_bad else "the search is not started from the unvisited node", loc(v.fi, g))
                comp_names = set()
                for a in ast.walk(lp):
                    if isinstance(a, ast.Assign) and isinstance(a.value, ast.Call) and a.value in searches and isinstance(a.targets[0], ast.Name):
                        comp_names.add(a.targets[0].id)
                marked = appended = False
                vis_mut = res_mut = False
                for a in ast.walk(lp):
                    if isinstance(a, ast.AugAssign) and isinstance(a.target, ast.Name) and a.target.id == vis:
                        vis_mut = True
                        if isinstance(a.op, (ast.Add, ast.BitOr)) and any(isinstance(x, ast.Name) and x.id in comp_names for x in ast.walk(a.value)):
                            marked = True
                    if isinstance(a, ast.Assign) and any(isinstance(t, ast.Name) and t.id == vis for t in a.targets):
                        vis_mut = True
                    if isinstance(a, ast.Call) and isinstance(a.func, ast.Attribute) and isinstance(a.func.value, ast.Name) and a.func.value.id == vis:
                        vis_mut = True
                        if a.func.attr in ("extend", "update") and a.args and any(isinstance(x, ast.Name) and x.id in comp_names for x in ast.walk(a.args[0])):
                            marked = True
                        # member by member: `for m in component: visited.append(m)`
                        if a.func.attr in ("append", "add") and a.args and isinstance(a.args[0], ast.Name):
                            for lp_ in v.enclosing_all(a, (ast.For,)):
                                if isinstance(lp_.target, ast.Name) and lp_.target.id == a.args[0].id and any(isinstance(x, ast.Name) and x.id in comp_names for x in ast.walk(lp_.iter)):
                                    marked = True
                    if isinstance(a, ast.Call) and isinstance(a.func, ast.Attribute) and a.func.attr in ("append", "add", "extend", "insert") and isinstance(a.func.value, ast.Name) and a.func.value.id != vis:
                        res_mut = True
                        if a.func.attr == "append" and a.args and any(isinstance(x, ast.Name) and x.id in comp_names for x in ast.walk(a.args[0])):
                            appended = True
                    if isinstance(a, (ast.Yield,)):
                        res_mut = True
                res.add("CC-COVER", f, f"{vis} += component", "mark-visited", "ok" if marked else ("unknown" if vis_mut else "violation"), "" if marked else "the nodes of a found component are not marked visited (components would be reported repeatedly)", loc(v.fi, g))
                res.add("CC-COVER", f, "components.append(component)", "collect", "ok" if appended else ("unknown" if res_mut and not comp_names else "violation"), "" if appended else "a found component is not added to the result", loc(v.fi, g))
    with res.guard("B-LARGEST"):
        check_largest_component(ctx, res)
    # ---- CC-SWEEP: a search expands EVERY node it has discovered.  A `break` that leaves the loop over the current frontier / queue
    #      on a condition about the node at hand (it has no new neighbours) abandons the rest of the frontier: whatever is reachable
    #      only through those nodes is missing from the component
    # ---- CC-LABELPROP: components computed by ONE pass of "give the members of each hyperedge the smallest label among them"
    #      (`labels[members] = labels[members].min()`) relabel the members only: nodes that were merged into a member's group earlier keep
    #      their stale label.  Without a union-find root look-up or iteration to a fixed point the classes are finer than reachability
    with res.guard("CC-LABELPROP"):
        res.rules["CC-LABELPROP"] = "components are not computed by a single pass of per-hyperedge minimum-label assignment over the members only (no transitive merging)"
        n_lp = 0
        for d_ in ("cc.connected_components", "cc.node_connected_component", "cc.is_connected"):
            if not ctx.has(d_):
                continue
            lv = ctx.view(d_)
            for a_ in walk_no_nested(lv.fi.node):
                if isinstance(a_, ast.Assign) and len(a_.targets) == 1 and isinstance(a_.targets[0], ast.Subscript) and isinstance(a_.value, ast.Call) and isinstance(a_.value.func, ast.Attribute) and a_.value.func.attr in ("min", "max") and isinstance(a_.value.func.value, ast.Subscript) and norm(a_.value.func.value) == norm(a_.targets[0]):
                    loops = lv.enclosing_all(a_, (ast.For, ast.While))
                    fixpoint = any(isinstance(l_, ast.While) for l_ in loops) or len(loops) >= 2
                    n_lp += 1
                    res.add("CC-LABELPROP", lv.fi.short, norm(a_)[:80], "transitive", "unknown" if fixpoint else "violation", "the label pass is repeated; whether it runs to a fixed point was not decided" if fixpoint else f"`{norm(a_)[:60]}` runs once per hyperedge and relabels only that hyperedge's members: a node that shares an EARLIER label with a member, but is not in this hyperedge, keeps the old label, so a component that is joined late comes out split", loc(lv.fi, a_))
        if n_lp == 0:
            res.ok("CC-LABELPROP", "cc", "no single-pass label propagation", "scan", "hypergraphx/utils/cc.py")
    with res.guard("CC-SWEEP"):
        res.rules["CC-SWEEP"] = "a search never leaves the loop over the discovered nodes because of a property of the node at hand (`break` where `continue` is meant); only a depth bound ends it early"
        for d in ("visits._bfs", "visits._dfs"):
            v = ctx.view(d)
            n_b = 0
            for lp in [n for n in walk_no_nested(v.fi.node) if isinstance(n, (ast.For, ast.While))]:
                tv = {x.id for x in ast.walk(lp.target) if isinstance(x, ast.Name)} if isinstance(lp, ast.For) else set()
                for b in [x for st in lp.body for x in ast.walk(st) if isinstance(x, ast.Break)]:
                    if v.enclosing(b, (ast.For, ast.While)) is not lp:
                        continue
                    n_b += 1
                    guards = [i for i in v.enclosing_all(b, (ast.If,)) if any(i is y for y in ast.walk(lp))]
                    gi = [v.inline(i.test, depth=2) for i in guards]
                    names = {x.id for t in gi for x in ast.walk(t) if isinstance(x, ast.Name)} | {x.id for i in guards for x in ast.walk(i.test) if isinstance(x, ast.Name)}
                    about_depth = any("depth" in nm for nm in names)
                    per_node = bool(names & tv) or any(isinstance(x, ast.Call) and isinstance(x.func, (ast.Name, ast.Attribute)) and norm(x.func).split(".")[-1] == "get_neighbors" for t in gi for x in ast.walk(t))
                    if per_node and not about_depth and isinstance(lp, ast.For):
                        res.violation("CC-SWEEP", v.fi.short, norm(guards[0].test)[:80] if guards else "break", "expand-all", f"the loop over the discovered nodes is LEFT (`break`) when `{norm(guards[0].test)[:50] if guards else ''}` holds for the node at hand: the remaining nodes of the frontier are never expanded, so nodes reachable only through them are missing from the component (`continue` skips one node, `break` abandons the level)", loc(v.fi, b))
                    else:
                        res.unknown("CC-SWEEP", v.fi.short, "break", "expand-all", "an early exit from the traversal loop; its condition was not classified", loc(v.fi, b))
            if n_b == 0:
                res.ok("CC-SWEEP", v.fi.short, "no early exit from the traversal loops", "expand-all", loc(v.fi, v.fi.node))
    # ---- B-START: the start node itself always belongs to the visited set a search returns
    with res.guard("B-START: the start node itself always belongs to the visited set a search returns"):
        res.rules["B-START"] = "a search puts its start node (the node dequeued from a queue seeded with `start`) into the returned set, guarded by nothing but `not in visited`"
        for d in ("visits._bfs", "visits._dfs"):
            v = ctx.view(d)
            f = v.fi.short
            rets = [n for n in walk_no_nested(v.fi.node) if isinstance(n, ast.Return) and isinstance(n.value, ast.Name)]
            if not rets:
                raise AnalysisError(f"{f}: return of the visited set not found")
            V = rets[0].value.id
            start = v.fi.params[1].arg if len(v.fi.params) > 1 else "start"
            adders = {f"{V}.add"}
            for n in walk_no_nested(v.fi.node):
                if isinstance(n, ast.Assign) and isinstance(n.targets[0], ast.Name) and norm(n.value) == f"{V}.add":
                    adders.add(n.targets[0].id)

            def mentions_start(e):
                return start in {x.id for x in ast.walk(e) if isinstance(x, ast.Name)}

            # the container seeded with start, and the names unpacked from popping it
            qnames = set()
            for n in walk_no_nested(v.fi.node):
                if isinstance(n, ast.Assign) and isinstance(n.targets[0], ast.Name) and n.targets[0].id != V and mentions_start(n.value):
                    qnames.add(n.targets[0].id)
                if isinstance(n, ast.Call) and isinstance(n.func, ast.Attribute) and n.func.attr in ("append", "appendleft", "extend", "put", "add", "insert") and isinstance(n.func.value, ast.Name) and n.func.value.id != V and any(mentions_start(a) for a in n.args) and not v.enclosing(n, (ast.For, ast.While)):
                    qnames.add(n.func.value.id)
            popped = set()
            for n in walk_no_nested(v.fi.node):
                if isinstance(n, ast.Assign) and isinstance(n.value, ast.Call) and isinstance(n.value.func, ast.Attribute) and n.value.func.attr in ("popleft", "pop", "get") and norm(n.value.func.value) in qnames:
                    tg = n.targets[0]
                    first = tg.elts[0] if isinstance(tg, ast.Tuple) else tg
                    if isinstance(first, ast.Name):
                        popped.add(first.id)
            # `entry = queue.popleft(); node = entry[0]`: components of the popped entry
            changed = True
            while changed:
                changed = False
                for n in walk_no_nested(v.fi.node):
                    if isinstance(n, ast.Assign) and isinstance(n.targets[0], ast.Name) and n.targets[0].id not in popped and isinstance(n.value, ast.Subscript) and isinstance(n.value.value, ast.Name) and n.value.value.id in popped and isinstance(n.value.slice, ast.Constant) and n.value.slice.value == 0:
                        popped.add(n.targets[0].id)
                        changed = True
                    if isinstance(n, ast.Assign) and isinstance(n.targets[0], ast.Tuple) and isinstance(n.value, ast.Name) and n.value.id in popped and n.targets[0].elts and isinstance(n.targets[0].elts[0], ast.Name) and n.targets[0].elts[0].id not in popped:
                        popped.add(n.targets[0].elts[0].id)
                        changed = True
            init_has_start = any(isinstance(n, ast.Assign) and isinstance(n.targets[0], ast.Name) and n.targets[0].id == V and mentions_start(n.value) for n in walk_no_nested(v.fi.node)) or any(
                isinstance(n, ast.Call) and norm(n.func) in adders and n.args and mentions_start(n.args[0]) and not v.enclosing(n, (ast.For, ast.While, ast.If)) for n in walk_no_nested(v.fi.node)
            )

            def is_visited_test(t, x):
                # `already_visited = node in visited; if not already_visited:`
                nm = t.operand if isinstance(t, ast.UnaryOp) and isinstance(t.op, ast.Not) else t
                if isinstance(nm, ast.Name):
                    r_ = v.resolve(nm)
                    if isinstance(r_, (ast.Compare, ast.UnaryOp)):
                        t = ast.UnaryOp(op=ast.Not(), operand=r_) if nm is not t else r_
                t = t.operand if isinstance(t, ast.UnaryOp) and isinstance(t.op, ast.Not) else t
                return isinstance(t, ast.Compare) and len(t.ops) == 1 and isinstance(t.ops[0], (ast.In, ast.NotIn)) and norm(t.left) == x and norm(t.comparators[0]) == V

            good, conditional = [], []
            for n in walk_no_nested(v.fi.node):
                if isinstance(n, ast.Call) and norm(n.func) in adders and n.args and isinstance(n.args[0], ast.Name) and n.args[0].id in popped | {start}:
                    x = n.args[0].id
                    loop = v.enclosing(n, (ast.While, ast.For))
                    ctrl = list(v.enclosing_all(n, (ast.If,)))
                    if loop is not None:
                        # earlier statements of the loop that can skip the rest of the iteration
                        for i in ast.walk(loop):
                            if isinstance(i, ast.If) and i not in ctrl and i.lineno < n.lineno and any(isinstance(y, (ast.Continue, ast.Break, ast.Return)) for b_ in i.body + i.orelse for y in ast.walk(b_)):
                                ctrl.append(i)
                    if all(is_visited_test(i.test, x) for i in ctrl):
                        good.append(n)
                    else:
                        conditional.append(n)
            if init_has_start or good:
                res.ok("B-START", f, norm(good[0]) if good else f"{V} starts with {start}", "start-in-component", loc(v.fi, good[0] if good else v.fi.node))
            elif conditional:
                res.violation("B-START", f, norm(conditional[0]), "start-in-component", "the dequeued node is added to the visited set only under a further condition: the start node can be missing from its own component", loc(v.fi, conditional[0]))
            elif not popped:
                res.unknown("B-START", f, f"{V}.add(<dequeued node>)", "start-in-component", "the work list seeded with the start node was not identified", loc(v.fi, v.fi.node))
            elif any(isinstance(n, ast.Call) and norm(n.func) in adders and n.args and not (isinstance(n.args[0], ast.Name) and any(isinstance(l, ast.For) and isinstance(l.target, ast.Name) and l.target.id == n.args[0].id for l in v.enclosing_all(n, (ast.For,)))) for n in walk_no_nested(v.fi.node)):
                res.unknown("B-START", f, f"{V}.add(<dequeued node>)", "start-in-component", "a node is added to the visited set, but it was not recognised as the dequeued one", loc(v.fi, v.fi.node))
            else:
                res.violation("B-START", f, f"{V}.add(<dequeued node>)", "start-in-component", "the search never adds the dequeued node itself to the visited set (nodes are only marked when discovered through a hyperedge): a start node without a (filtered) hyperedge yields an EMPTY component instead of the singleton {start}", loc(v.fi, v.fi.node))
    res.assumptions += [
        "un-annotated `hg` parameters denote a Hypergraph; the degree functions are checked against all four containers (tables.POLYMORPHIC)",
        "correctness of the breadth-first search itself (that it computes reachability classes) is not decided",
    ]
    with res.guard("general lint pack over the property's files"):
        from ..lints import check_pack

        check_pack(ctx, res, "C08")
    return res

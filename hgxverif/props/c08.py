import ast

from .. import rules_container as RC
from ..model import AnalysisError, loc, norm, walk_no_nested
from ..report import Result
from ._clients import CC, DEGREE, VISITS, check_filter_clients
from ._containers import KIND_RULES

LEVEL_TEXT = (
    "Structural necessary conditions of C08, decided statically: the order/size filter received by every degree / "
    "connectivity function reaches get_incident_edges / get_neighbors under the right name and unit (forwarding rules over the "
    "resolved call graph, all four containers for the degree functions), None-tests instead of truthiness, the exclusion guard, "
    "degree == len(filtered incident list of the same node), the component sweep starts a search from every unvisited node, "
    "and get_neighbors never returns the queried node.  Decides the structure, not that BFS computes reachability classes."
)


def run(ctx):
    res = Result("C08")
    res.rules.update({k: KIND_RULES[k] for k in ("C-SIG", "K-ARG", "K-KEY-LOCAL", "K-MEM") if k in KIND_RULES})
    res.rules.update({
        "F-FWD": "the order/size filter is forwarded (not dropped, not swapped, converted with +-1) at every call towards get_incident_edges / get_neighbors",
        "F-USE": "a received order/size parameter is used",
        "M-NONE": "order/size are tested with `is None`, never by truthiness (order 0 / size 1 are legitimate filters)",
        "M-EXCL": "order and size together are rejected",
        "E-PURE": "measures do not modify the hypergraph",
        "D-LEN": "degree is len() of the (filtered) incident-hyperedge list of the same node",
        "D-SEQ": "degree_sequence maps every node of get_nodes() to degree(node, same filter); the distribution counts each node once",
        "CC-COVER": "connected_components starts a search from every node not yet visited and marks the whole component visited",
        "P-NEIGH": "get_neighbors never returns the queried node",
    })
    files = ["hypergraphx/measures/degree.py", "hypergraphx/utils/cc.py", "hypergraphx/utils/visits.py"]
    ctx.add_sites(res, ctx.sites(rules=("C-SIG", "K-ARG", "K-MEM", "K-KEY-LOCAL"), files=files))
    with res.guard("check_filter_clientsctx, res, DEGREE  CC  VISITS"):
        check_filter_clients(ctx, res, DEGREE + CC + VISITS)
    for cls in ("Hypergraph", "DirectedHypergraph", "TemporalHypergraph"):
        with res.guard("RC.check_neighborsctx, res, cls"):
            RC.check_neighbors(ctx, res, cls)

    # ---- degree = len(filtered incident list of the same node)
    with res.guard("degree = len(filtered incident list of the same node)"):
        v = ctx.view("degree.degree")
        rets = [n for n in walk_no_nested(v.fi.node) if isinstance(n, ast.Return)]
        if not rets:
            raise AnalysisError("degree.degree: no return")
        for r in rets:
            e = r.value
            ok = (
                isinstance(e, ast.Call) and isinstance(e.func, ast.Name) and e.func.id == "len" and len(e.args) == 1
                and isinstance(e.args[0], ast.Call) and isinstance(e.args[0].func, ast.Attribute) and e.args[0].func.attr == "get_incident_edges"
                and e.args[0].args and isinstance(e.args[0].args[0], ast.Name) and e.args[0].args[0].id == "node"
            )
            if not ok and isinstance(e, ast.Call) and isinstance(e.func, ast.Name) and e.func.id == "len" and e.args and isinstance(e.args[0], ast.Call) and isinstance(e.args[0].func, ast.Name) and e.args[0].func.id in ("list", "set", "tuple"):
                inner = e.args[0].args[0] if e.args[0].args else None
                ok = isinstance(inner, ast.Call) and isinstance(inner.func, ast.Attribute) and inner.func.attr == "get_incident_edges" and inner.args and isinstance(inner.args[0], ast.Name) and inner.args[0].id == "node" and e.args[0].func.id != "set" or (e.args[0].func.id == "set" and False)
            res.check(bool(ok), "D-LEN", v.fi.short, norm(r), "len(incident)", "degree is not the length of the node's (filtered) incident-hyperedge list", loc(v.fi, r))
    # ---- degree_sequence: {node: hg.degree(node, ...) for node in hg.get_nodes()}
    with res.guard("degree_sequence: {node: hg.degree(node, ...) for node in hg.get_nodes()}"):
        v = ctx.view("degree.degree_sequence")
        comps = [n for n in walk_no_nested(v.fi.node) if isinstance(n, ast.DictComp)]
        if not comps:
            raise AnalysisError("degree.degree_sequence: dict comprehension idiom not found")
        for c in comps:
            g = c.generators[0]
            it_ok = isinstance(g.iter, ast.Call) and isinstance(g.iter.func, ast.Attribute) and g.iter.func.attr == "get_nodes" and not g.ifs and len(c.generators) == 1
            tgt = g.target.id if isinstance(g.target, ast.Name) else None
            key_ok = isinstance(c.key, ast.Name) and c.key.id == tgt
            val_ok = isinstance(c.value, ast.Call) and isinstance(c.value.func, ast.Attribute) and c.value.func.attr == "degree" and c.value.args and isinstance(c.value.args[0], ast.Name) and c.value.args[0].id == tgt
            res.check(it_ok, "D-SEQ", v.fi.short, norm(c), "all-nodes", "the degree sequence does not range over every node of get_nodes() exactly once", loc(v.fi, c))
            res.check(key_ok and val_ok, "D-SEQ", v.fi.short, norm(c), "same-node", "the degree stored for a node is not degree(<that node>)", loc(v.fi, c))
        v = ctx.view("degree.degree_distribution")
        augs = [n for n in walk_no_nested(v.fi.node) if isinstance(n, ast.AugAssign)]
        res.check(bool(augs) and all(isinstance(a.op, ast.Add) and isinstance(a.value, ast.Constant) and a.value.value == 1 for a in augs), "D-SEQ", v.fi.short, norm(augs[0]) if augs else "+= 1", "histogram", "the degree histogram does not count each node exactly once", loc(v.fi, augs[0] if augs else v.fi.node))
        loops = [n for n in walk_no_nested(v.fi.node) if isinstance(n, ast.For)]
        res.check(any(isinstance(l.iter, ast.Call) and isinstance(l.iter.func, ast.Attribute) and l.iter.func.attr in ("items", "values") for l in loops), "D-SEQ", v.fi.short, "for node, deg in degree_seq.items()", "over-sequence", "the histogram is not built from the degree sequence", loc(v.fi, v.fi.node))
    # ---- connected_components sweep
    with res.guard("connected_components sweep"):
        v = ctx.view("cc.connected_components")
        f = v.fi.short
        loops = [n for n in walk_no_nested(v.fi.node) if isinstance(n, ast.For) and isinstance(n.iter, ast.Call) and isinstance(n.iter.func, ast.Attribute) and n.iter.func.attr == "get_nodes"]
        res.check(len(loops) == 1, "CC-COVER", f, "for node in hg.get_nodes()", "sweep", "the component sweep does not range over every node", loc(v.fi, v.fi.node))
        for lp in loops:
            node = lp.target.id if isinstance(lp.target, ast.Name) else None
            guards = [n for n in ast.walk(lp) if isinstance(n, ast.If) and isinstance(n.test, ast.Compare) and len(n.test.ops) == 1 and isinstance(n.test.ops[0], ast.NotIn) and isinstance(n.test.left, ast.Name) and n.test.left.id == node and isinstance(n.test.comparators[0], ast.Name)]
            res.check(len(guards) == 1, "CC-COVER", f, f"if {node} not in visited", "guard", "a search is not started exactly for the nodes that are not yet visited", loc(v.fi, lp))
            for g in guards:
                vis = g.test.comparators[0].id
                searches = [c for c in ast.walk(g) if isinstance(c, ast.Call) and isinstance(c.func, ast.Name) and c.func.id in ("_bfs", "_dfs")]
                s_ok = [c for c in searches if len(c.args) >= 2 and isinstance(c.args[1], ast.Name) and c.args[1].id == node]
                res.check(bool(s_ok), "CC-COVER", f, norm(searches[0]) if searches else "_bfs(hg, node, ...)", "search-from-node", "the search is not started from the unvisited node", loc(v.fi, g))
                comp_names = set()
                for a in ast.walk(g):
                    if isinstance(a, ast.Assign) and isinstance(a.value, ast.Call) and a.value in s_ok and isinstance(a.targets[0], ast.Name):
                        comp_names.add(a.targets[0].id)
                marked = False
                appended = False
                for a in ast.walk(g):
                    if isinstance(a, ast.AugAssign) and isinstance(a.target, ast.Name) and a.target.id == vis and isinstance(a.value, ast.Name) and a.value.id in comp_names:
                        marked = True
                    if isinstance(a, ast.Call) and isinstance(a.func, ast.Attribute) and isinstance(a.func.value, ast.Name) and a.func.value.id == vis and a.func.attr in ("extend", "update") and a.args and isinstance(a.args[0], ast.Name) and a.args[0].id in comp_names:
                        marked = True
                    if isinstance(a, ast.Call) and isinstance(a.func, ast.Attribute) and a.func.attr == "append" and a.args and isinstance(a.args[0], ast.Name) and a.args[0].id in comp_names:
                        appended = True
                res.check(marked, "CC-COVER", f, f"{vis} += component", "mark-visited", "the nodes of a found component are not marked visited (components would be reported repeatedly)", loc(v.fi, g))
                res.check(appended, "CC-COVER", f, "components.append(component)", "collect", "a found component is not added to the result", loc(v.fi, g))
    # ---- B-START: the start node itself always belongs to the visited set a search returns
    with res.guard("B-START: the start node itself always belongs to the visited set a search returns"):
        res.rules["B-START"] = "a search puts its start node (the node dequeued from a queue seeded with `start`) into the returned set, guarded by nothing but `not in visited`"
        for d in ("visits._bfs", "visits._dfs"):
            v = ctx.view(d)
            f = v.fi.short
            rets = [n for n in walk_no_nested(v.fi.node) if isinstance(n, ast.Return) and isinstance(n.value, ast.Name)]
            if not rets:
                raise AnalysisError(f"{f}: return of the visited set not found")
            V = rets[0].value.id
            adders = {f"{V}.add"}
            for n in walk_no_nested(v.fi.node):
                if isinstance(n, ast.Assign) and isinstance(n.targets[0], ast.Name) and norm(n.value) == f"{V}.add":
                    adders.add(n.targets[0].id)
            # the container seeded with start, and the names unpacked from popping it
            seeded = [n for n in walk_no_nested(v.fi.node) if isinstance(n, ast.Assign) and isinstance(n.targets[0], ast.Name) and "start" in {x.id for x in ast.walk(n.value) if isinstance(x, ast.Name)} and n.targets[0].id != V]
            qnames = {n.targets[0].id for n in seeded}
            popped = set()
            for n in walk_no_nested(v.fi.node):
                if isinstance(n, ast.Assign) and isinstance(n.value, ast.Call) and isinstance(n.value.func, ast.Attribute) and n.value.func.attr in ("popleft", "pop") and norm(n.value.func.value) in qnames:
                    tg = n.targets[0]
                    first = tg.elts[0] if isinstance(tg, ast.Tuple) else tg
                    if isinstance(first, ast.Name):
                        popped.add(first.id)
            init_has_start = any(isinstance(n, ast.Assign) and isinstance(n.targets[0], ast.Name) and n.targets[0].id == V and "start" in {x.id for x in ast.walk(n.value) if isinstance(x, ast.Name)} for n in walk_no_nested(v.fi.node))
            good = []
            for n in walk_no_nested(v.fi.node):
                if isinstance(n, ast.Call) and norm(n.func) in adders and n.args and isinstance(n.args[0], ast.Name) and n.args[0].id in popped | {"start"}:
                    ifs = v.enclosing_all(n, (ast.If,))
                    if all(norm(i.test) in (f"{n.args[0].id} not in {V}", f"not {n.args[0].id} in {V}") for i in ifs):
                        good.append(n)
            res.check(init_has_start or bool(good), "B-START", f, norm(good[0]) if good else f"{V}.add(<dequeued node>)", "start-in-component", "the search never adds the dequeued node itself to the visited set (nodes are only marked when discovered through a hyperedge): a start node without a (filtered) hyperedge yields an EMPTY component instead of the singleton {start}", loc(v.fi, v.fi.node))
    res.assumptions += [
        "un-annotated `hg` parameters denote a Hypergraph; the degree functions are checked against all four containers (tables.POLYMORPHIC)",
        "correctness of the breadth-first search itself (that it computes reachability classes) is not decided",
    ]
    return res

import ast

from .. import tables as T
from ..effects import Effects, check_pure
from ..kinds import META, WEIGHT, Atom, Const, Dct, Lst, Seq, Tup, Union, _Top, elem_of, fits, Mismatch, strip_none, unrole
from ..model import AnalysisError, is_self_attr, loc, norm, walk_no_nested
from ..report import Result
from .. import rules_container as RC

LEVEL_TEXT = (
    "Structural necessary conditions of C07, decided statically: hashing is effect-free; every list that reaches the hashed "
    "pre-image is produced by iterating sorted(...) and dict keys are sorted before serialisation (order independence); the "
    "pre-image contains type, weightedness, hypergraph metadata, per node (label, metadata) and per hyperedge the full key "
    "(time / layer / both roles), the weight and the metadata looked up through the edge id (difference direction); and every "
    "table the hash reads is pruned by remove_edge / remove_node / clear (no stale state after insert-then-remove detours).  "
    "Decides the structure, not collision freedom."
)


def tableish_sorted(e, uv):
    """sorted(<a table of the object or its keys / items>, key=...)"""
    a0 = e.args[0] if e.args else None
    return a0 is not None and (bool(uv.tables_of(a0)) or (isinstance(a0, ast.Call) and isinstance(a0.func, ast.Attribute) and a0.func.attr in ("keys", "items", "values") and bool(uv.tables_of(a0.func.value))))


def run(ctx):
    res = Result("C07")
    res.rules.update({
        "E-PURE": "hash_hypergraph and expose_attributes_for_hashing never modify the hypergraph",
        "S-HASHSORT": "lists in the pre-image are built by iterating sorted(...); dict keys are sorted; json.dumps(sort_keys=True)",
        "S-HASHFIELDS": "the pre-image holds type, weighted, hypergraph metadata, (node, metadata) and (full key, weight via id, metadata via id)",
        "S-HASHSTALE": "every table read by the hash is pruned by remove_edge / remove_node (and emptied by clear)",
        "K-KEY": "tables are read with keys of their key kind inside the hash functions",
    })
    eff = Effects(ctx)
    with res.guard("check_purectx, eff, res, hashing.hash_hypergraph, rootshypergraph,"):
        check_pure(ctx, eff, res, "hashing.hash_hypergraph", roots=("hypergraph",))
    with res.guard("hash_hypergraph: serialisation"):
        hh = ctx.view("hashing.hash_hypergraph")
        # json.dumps(..., sort_keys=True)
        units = [hh.fi] + list(hh.fi.nested.values())
        for n in ast.walk(hh.fi.node):
            if isinstance(n, ast.Call):
                for c in ctx.callees(hh.fi, n):
                    if c.module is hh.fi.module and c not in units:
                        units.append(c)
                        units.extend(c.nested.values())
        # (the text form may live in an options object of the module: `_TextForm.dumps` -> json.dumps(structure, sort_keys=self.sort_keys))
        for g_ in ctx.prog.functions.values():
            if g_.module is hh.fi.module and g_ not in units:
                units.append(g_)
        dumps = [(u, n) for u in units for n in walk_no_nested(u.node) if isinstance(n, ast.Call) and isinstance(n.func, ast.Attribute) and n.func.attr == "dumps" and norm(n.func.value) in ("json", "_json", "simplejson")]
        if not dumps:
            raise AnalysisError("hash_hypergraph: json.dumps call not found")
        sorted_keys = True
        for u, d in dumps:
            sk = [k for k in d.keywords if k.arg == "sort_keys"]
            good = bool(sk) and isinstance(sk[0].value, ast.Constant) and sk[0].value.value is True
            if sk and not isinstance(sk[0].value, ast.Constant):
                # sort_keys=self.sort_keys: a field of an options object; its default (and every construction in the module) decides
                fld = sk[0].value.attr if isinstance(sk[0].value, ast.Attribute) else None
                defaults = [st.value for c_ in ast.walk(u.module.tree) if isinstance(c_, ast.ClassDef) for st in c_.body if isinstance(st, (ast.AnnAssign, ast.Assign)) and fld is not None and any(isinstance(t_, ast.Name) and t_.id == fld for t_ in ([st.target] if isinstance(st, ast.AnnAssign) else st.targets)) and st.value is not None]
                overrides = [k for c_ in ast.walk(u.module.tree) if isinstance(c_, ast.Call) for k in c_.keywords if k.arg == fld and not (isinstance(k.value, ast.Constant) and k.value.value is True)]
                if defaults and all(isinstance(x, ast.Constant) and x.value is True for x in defaults) and not overrides:
                    res.ok("S-HASHSORT", hh.fi.short, norm(d), "sort_keys", loc(u, d))
                else:
                    res.unknown("S-HASHSORT", hh.fi.short, norm(d), "sort_keys", "sort_keys is not a literal True; where its value comes from was not decided", loc(u, d))
                    sorted_keys = False
                continue
            sorted_keys = sorted_keys and good
            res.check(good, "S-HASHSORT", hh.fi.short, norm(d), "sort_keys", "the JSON text is produced without sort_keys=True: dict insertion order leaks into the hash", loc(u, d))
        # the digest is computed from the serialised exposed attributes
        calls = [n for u in units for n in ast.walk(u.node) if isinstance(n, ast.Call) and isinstance(n.func, ast.Attribute) and n.func.attr == "expose_attributes_for_hashing"]
        res.add("S-HASHFIELDS", hh.fi.short, "hypergraph.expose_attributes_for_hashing()", "source", "ok" if calls else "unknown", "" if calls else "the call that obtains the pre-image was not recognised", loc(hh.fi, hh.fi.node))
        # the serialiser (a nested or module-level function that recurses over dicts / lists): list values are content -
        # their order must survive (only dict KEYS are order-free)
        sers = [u for u in units if u is not hh.fi and any(isinstance(n, ast.Call) and isinstance(n.func, ast.Name) and n.func.id == "isinstance" for n in ast.walk(u.node))]
        if not sers:
            res.unknown("S-HASHSORT", hh.fi.short, "serialize", "lists-ordered", "no recursive serialiser recognised", loc(hh.fi, hh.fi.node))
        for ser in sers:
            sv = ctx.view(ser)
            sorts = [n for n in walk_no_nested(ser.node) if isinstance(n, ast.Call) and ((isinstance(n.func, ast.Name) and n.func.id == "sorted") or (isinstance(n.func, ast.Attribute) and n.func.attr == "sort"))]
            bad = []
            for c in sorts:
                cid = sv.cfg_id(c)
                where = None  # 'dict' | 'seq' | None
                for i in walk_no_nested(ser.node):
                    if not isinstance(i, ast.If):
                        continue
                    for atom, _ in RC._atoms(i.test, True):
                        if isinstance(atom, ast.Call) and isinstance(atom.func, ast.Name) and atom.func.id == "isinstance" and len(atom.args) == 2:
                            tn = norm(atom.args[1])
                            lab = RC._implied_branch(i.test, atom, True)
                            tid = sv.cfg.by_ast.get(id(i.test))
                            inside = any(c is x for b_ in i.body for x in ast.walk(b_)) if lab == "T" else False
                            if lab and tid is not None and (inside or (cid != tid and sv.cfg.branch_dominated(tid, lab, cid))):
                                where = "dict" if "dict" in tn or "Mapping" in tn else ("seq" if any(t in tn for t in ("list", "tuple", "set")) else where)
                if where == "seq":
                    bad.append(c)
            res.check(not bad, "S-HASHSORT", hh.fi.short, norm(bad[0]) if bad else "serialize: lists keep their order", "lists-ordered", "serialize() re-orders list values: two hypergraphs whose metadata lists differ only in item order get the same hash", loc(ser, bad[0] if bad else ser.node))
    for cls in T.CONTAINERS:
        d = f"{cls}.expose_attributes_for_hashing"
        v = ctx.view(d)
        f = v.fi.short
        with res.guard(f"E-PURE of {d}"):
            check_pure(ctx, eff, res, d, roots=("self",))
        ctx.add_sites(res, ctx.sites(rules=("K-KEY",), funcs=[f]))
        # the tables the pre-image is read from are keyed by canonical hyperedge keys: "equal content, equal hash" rests on the
        # insertion primitives looking up / storing a hyperedge under its canonical key, whatever order the caller listed the members in
        ins = [ctx.prog.func(f"{cls}.{m}") for m in ("add_edge", "add_edges", "add_node")]
        ctx.add_sites(res, ctx.sites(rules=("K-KEY", "K-VAL"), funcs=[i_.short for i_ in ins if i_ is not None]))
        # the units that build the pre-image: the method, its nested functions, the private methods it calls on self
        units = [v.fi] + list(v.fi.nested.values())
        for n in ast.walk(v.fi.node):
            if isinstance(n, ast.Call) and isinstance(n.func, ast.Attribute) and isinstance(n.func.value, ast.Name) and n.func.value.id == "self":
                for c in ctx.callees(v.fi, n):
                    if c.cls is v.fi.cls and c.name.startswith("_") and c not in units:
                        units.append(c)
                        units.extend(c.nested.values())
        uviews = [ctx.view(u) for u in units]
        # arguments the method hands to its private helpers: a record field that is a helper parameter is read at the call
        bound_args = {}
        for n in ast.walk(v.fi.node):
            if isinstance(n, ast.Call) and isinstance(n.func, ast.Attribute) and isinstance(n.func.value, ast.Name) and n.func.value.id == "self":
                for c in ctx.callees(v.fi, n):
                    if c in units[1:]:
                        pn = [a.arg for a in c.params][1:]
                        m_ = {pn[i]: a for i, a in enumerate(n.args) if i < len(pn) and not isinstance(a, ast.Starred)}
                        m_.update({kw.arg: kw.value for kw in n.keywords if kw.arg})
                        prev = bound_args.get(c.qualname)
                        # several calls with different arguments: only what they agree on is known
                        bound_args[c.qualname] = m_ if prev is None else {k_: v_ for k_, v_ in m_.items() if k_ in prev and norm(prev[k_]) == norm(v_)}
        ctx.add_sites(res, ctx.sites(rules=("K-KEY",), funcs=[u.short for u in units[1:]]))
        # ---- S-HASHSORT: no iteration over a table (or anything else unordered) that is not through sorted(...)
        with res.guard(f"S-HASHSORT of {d}"):
            n_iter = 0
            for uv in uviews:
                for n in walk_no_nested(uv.fi.node):
                    its = []
                    if isinstance(n, ast.For):
                        its.append(n.iter)
                    elif isinstance(n, (ast.ListComp, ast.SetComp, ast.DictComp, ast.GeneratorExp)):
                        its += [g.iter for g in n.generators]
                    elif isinstance(n, ast.Call) and isinstance(n.func, ast.Name) and n.func.id == "map" and len(n.args) >= 2:
                        its += n.args[1:]
                    for it in its:
                        e = uv.inline(it)
                        k = uv.kind(it)
                        is_sorted = isinstance(e, ast.Call) and isinstance(e.func, ast.Name) and e.func.id == "sorted"
                        tableish = bool(uv.tables_of(getattr(e, "_orig", e))) or (isinstance(e, ast.Call) and isinstance(e.func, ast.Attribute) and e.func.attr in ("keys", "items", "values", "get_nodes", "get_edges") ) or isinstance(k, (Dct,))
                        inner_seq = isinstance(k, (Seq, Tup)) or (isinstance(k, Lst) and k.sorted)
                        n_iter += 1
                        if is_sorted:
                            keyed = [kw for kw in e.keywords if kw.arg == "key"]
                            simple_key = all(isinstance(kw.value, ast.Lambda) and isinstance(kw.value.body, ast.Subscript) and isinstance(kw.value.body.slice, ast.Constant) and kw.value.body.slice.value == 0 for kw in keyed)
                            # a key that SUMMARISES a component (`key=lambda e: (e[0], len(e[1]))`) ties records that differ in it: the stable
                            # sort leaves them in insertion order, which then enters the pre-image
                            lossy = [kw for kw in keyed if isinstance(kw.value, ast.Lambda) and any(isinstance(x, ast.Call) and isinstance(x.func, ast.Name) and x.func.id in ("len", "sum", "min", "max", "hash") for x in ast.walk(kw.value.body))]
                            if lossy and tableish_sorted(e, uv):
                                res.violation("S-HASHSORT", f, norm(it)[:100], "iteration:total-order", f"the records are sorted by `{norm(lossy[0].value.body)[:40]}`, which is equal for records that differ (same source, equally long targets): ties stay in insertion order, so two hypergraphs with the same content hash differently", loc(uv.fi, it))
                            else:
                                res.add("S-HASHSORT", f, norm(it), "iteration", "ok" if simple_key else "unknown", "" if simple_key else "sorted with a custom key", loc(uv.fi, it))
                        elif tableish:
                            res.violation("S-HASHSORT", f, norm(it), "iteration", f"the pre-image is built by iterating `{norm(e)}` directly instead of sorted(...): insertion order leaks into the hash", loc(uv.fi, it))
                        elif inner_seq or (isinstance(e, (ast.Tuple, ast.List))) or (isinstance(e, ast.Call) and norm(e.func) in ("range", "enumerate", "zip")):
                            res.ok("S-HASHSORT", f, norm(it), "iteration", loc(uv.fi, it))
                        else:
                            res.unknown("S-HASHSORT", f, norm(it), "iteration", "order of this iteration not decided", loc(uv.fi, it))
            if n_iter == 0:
                raise AnalysisError(f"{f}: list-building idiom not recognised")
        # ---- S-HASHFIELDS
        with res.guard(f"S-HASHFIELDS of {d}"):
            dicts = []  # (view, Dict node, {key: value expr})
            for uv in uviews:
                for n in walk_no_nested(uv.fi.node):
                    if isinstance(n, ast.Dict) and n.keys and all(isinstance(k, ast.Constant) and isinstance(k.value, str) for k in n.keys):
                        dicts.append((uv, n, {k.value: val for k, val in zip(n.keys, n.values)}))
                    # dict(node=..., metadata=...)
                    if isinstance(n, ast.Call) and isinstance(n.func, ast.Name) and n.func.id == "dict" and n.keywords and not n.args and all(kw.arg for kw in n.keywords):
                        dicts.append((uv, n, {kw.arg: kw.value for kw in n.keywords}))
            # fields added later to a record held in a local: `rec = {"nodes": ...}; rec["weight"] = ...`
            for uv, node, fields in dicts:
                par = uv.parent.get(id(node))
                if isinstance(par, ast.Assign) and isinstance(par.targets[0], ast.Name):
                    var = par.targets[0].id
                    for n in walk_no_nested(uv.fi.node):
                        if isinstance(n, ast.Assign) and isinstance(n.targets[0], ast.Subscript) and norm(n.targets[0].value) == var and isinstance(n.targets[0].slice, ast.Constant) and isinstance(n.targets[0].slice.value, str):
                            fields.setdefault(n.targets[0].slice.value, n.value)
            # the top-level record: the dict the method itself returns (found by the returned expression, not by its keys)
            top_view = uviews[0]
            returned = []
            ret_views = [top_view]
            seen_rv = set()
            while ret_views:
                rview = ret_views.pop()
                if rview.fi.qualname in seen_rv:
                    continue
                seen_rv.add(rview.fi.qualname)
                for r_ in walk_no_nested(rview.fi.node):
                    if isinstance(r_, ast.Return) and r_.value is not None:
                        rv = r_.value
                        if isinstance(rv, ast.Name):
                            rv = rview.resolve(rv)
                        returned.append(rv)
                        # `return self._assemble(...)`: the record is what the private helper returns
                        if isinstance(rv, ast.Call) and isinstance(rv.func, ast.Attribute) and isinstance(rv.func.value, ast.Name) and rv.func.value.id == "self":
                            for c in ctx.callees(rview.fi, rv):
                                ret_views += [uv for uv in uviews if uv.fi is c]
            # (a record assembled from several displays: `{...} | {...}`, `{**a, **b}`)
            top_nodes = []
            for rv in returned:
                stack = [rv]
                while stack:
                    x = stack.pop()
                    if isinstance(x, ast.BinOp) and isinstance(x.op, ast.BitOr):
                        stack += [x.left, x.right]
                    elif isinstance(x, ast.Dict):
                        top_nodes.append(x)
                        stack += [val for k_, val in zip(x.keys, x.values) if k_ is None]
                    elif isinstance(x, ast.Name):
                        r2 = top_view.resolve(x)
                        if r2 is not x:
                            stack.append(r2)
            tops = [x for x in dicts if any(x[1] is tn for tn in top_nodes)] or [x for x in dicts if "type" in x[2]]
            if not tops:
                raise AnalysisError(f"{f}: top-level dict of the pre-image not found")
            tv, tnode, rd = tops[0]
            rd = dict(rd)
            if tv.fi.qualname in bound_args:
                ba = bound_args[tv.fi.qualname]
                rd = {k_: (ba[v_.id] if isinstance(v_, ast.Name) and v_.id in ba and v_.id in {a.arg for a in tv.fi.params} else v_) for k_, v_ in rd.items()}
            for _, tn2, rd2 in tops[1:]:
                for k2, v2 in rd2.items():
                    rd.setdefault(k2, v2)
            top_ids = {id(x[1]) for x in tops}
            # fields added by subscript stores / update on the variable that holds the top dict
            par = tv.parent.get(id(tnode))
            if isinstance(par, ast.Assign) and isinstance(par.targets[0], ast.Name):
                var = par.targets[0].id
                for n in walk_no_nested(tv.fi.node):
                    if isinstance(n, ast.Assign) and isinstance(n.targets[0], ast.Subscript) and norm(n.targets[0].value) == var and isinstance(n.targets[0].slice, ast.Constant):
                        rd[n.targets[0].slice.value] = n.value
            for key in ("type", "weighted", "hypergraph_metadata", "edges", "nodes"):
                res.check(key in rd, "S-HASHFIELDS", f, f'"{key}"', "top-level", f"`{key}` is missing from the hash pre-image: two hypergraphs differing only in it get the same hash", loc(tv.fi, tnode))
            if "type" in rd:
                tt = rd["type"]
                dyn = norm(tt) in ("type(self).__name__", "self.__class__.__name__")
                res.add("S-HASHFIELDS", f, norm(tt), "type-tag", "ok" if dyn or (isinstance(tt, ast.Constant) and tt.value == cls) else ("violation" if isinstance(tt, ast.Constant) else "unknown"), "" if dyn else "the type tag is not the class name", loc(tv.fi, tnode))
            if "weighted" in rd:
                e = tv.inline(rd["weighted"])
                good = is_self_attr(e, "_weighted") or norm(e) == "self.is_weighted()"
                res.add("S-HASHFIELDS", f, norm(rd["weighted"]), "weighted", "ok" if good else ("violation" if isinstance(e, ast.Constant) else "unknown"), "" if good else "weightedness is not taken from self._weighted", loc(tv.fi, tnode))
            if "hypergraph_metadata" in rd:
                e = tv.inline(rd["hypergraph_metadata"])
                good = is_self_attr(e, "_hypergraph_metadata") or norm(e) == "self.get_hypergraph_metadata()"
                res.add("S-HASHFIELDS", f, norm(rd["hypergraph_metadata"]), "hypergraph_metadata", "ok" if good else ("violation" if isinstance(e, (ast.Constant, ast.Dict)) else "unknown"), "" if good else "hypergraph metadata is not taken from self._hypergraph_metadata", loc(tv.fi, tnode))
            erecs = [x for x in dicts if "nodes" in x[2] and id(x[1]) not in top_ids]
            nrecs = [x for x in dicts if "node" in x[2]]
            if not erecs or not nrecs:
                raise AnalysisError(f"{f}: edge / node record idiom not recognised")
            for ev_, a, er in erecs:
                for key in ("nodes", "weight", "metadata"):
                    res.check(key in er, "S-HASHFIELDS", f, f'edge record "{key}"', "edge-record", f"hyperedge `{key}` is missing from the hash pre-image", loc(ev_.fi, a))
                if "nodes" in er:
                    k = unrole(ev_.kind(er["nodes"]))
                    want = unrole(T.KEY_C[cls])
                    verdict = _shape_ok(k, want)
                    res.add("S-HASHFIELDS", f, norm(er["nodes"]), "edge-key", verdict, "" if verdict == "ok" else f"the hashed hyperedge identity has kind {k!r}; the record key is {want!r} (a component such as time / layer / one role is lost)", loc(ev_.fi, a))
                if "weight" in er:
                    k = strip_none(ev_.kind(er["weight"]))
                    vv = fits(k, WEIGHT)
                    res.add("S-HASHFIELDS", f, norm(er["weight"]), "edge-weight", "violation" if isinstance(vv, Mismatch) else ("unknown" if isinstance(k, _Top) else "ok"), getattr(vv, "reason", ""), loc(ev_.fi, a))
                if "metadata" in er:
                    k = strip_none(ev_.kind(er["metadata"]))
                    vv = fits(k, META)
                    res.add("S-HASHFIELDS", f, norm(er["metadata"]), "edge-metadata", "violation" if isinstance(vv, Mismatch) else ("unknown" if isinstance(k, _Top) else "ok"), getattr(vv, "reason", ""), loc(ev_.fi, a))
            for nv, a, nr in nrecs:
                for key in ("node", "metadata"):
                    res.check(key in nr, "S-HASHFIELDS", f, f'node record "{key}"', "node-record", f"node `{key}` is missing from the hash pre-image", loc(nv.fi, a))
                if "node" in nr:
                    k = nv.kind(nr["node"])
                    res.add("S-HASHFIELDS", f, norm(nr["node"]), "node-label", "ok" if isinstance(k, Atom) and k.name == "NODE" else ("unknown" if isinstance(k, (_Top, Union)) else "violation"), f"kind {k!r}", loc(nv.fi, a))
                if "metadata" in nr:
                    k = strip_none(nv.kind(nr["metadata"]))
                    res.add("S-HASHFIELDS", f, norm(nr["metadata"]), "node-metadata", "ok" if k == META else ("unknown" if isinstance(k, (_Top, Union)) else "violation"), f"kind {k!r}", loc(nv.fi, a))
            # every node and every hyperedge has a record: a record that is emitted only when its metadata / weight is "non-empty"
            # makes a node without metadata (and without hyperedges) invisible to the hash
            for rv_, a, rec in list(nrecs) + list(erecs):
                conds = [i.test for i in rv_.enclosing_all(a, (ast.If,))]
                for comp in rv_.enclosing_all(a, (ast.ListComp, ast.GeneratorExp, ast.SetComp, ast.DictComp)):
                    conds += [c_ for g_ in comp.generators for c_ in g_.ifs]
                value_names = {x.id for fld in rec.values() for x in ast.walk(fld) if isinstance(x, ast.Name)}
                hit = None
                for t_ in conds:
                    ti = rv_.inline(t_, depth=2)
                    about_tables = any(isinstance(x, ast.Attribute) and x.attr in ("_node_metadata", "_edge_metadata", "_weights") for x in ast.walk(ti)) or any(isinstance(x, ast.Call) and isinstance(x.func, ast.Attribute) and x.func.attr in ("get_node_metadata", "get_edge_metadata", "get_weight") for x in ast.walk(ti))
                    if about_tables:
                        hit = t_
                what = "node" if "node" in rec else "hyperedge"
                if hit is not None:
                    res.violation("S-HASHFIELDS", f, norm(hit)[:80], what + "-record:always", f"the {what} record enters the hash pre-image only when `{norm(hit)[:50]}`: a {what} whose metadata is empty has no record, so two hypergraphs that differ by such a {what} (an isolated node without metadata) get the same hash", loc(rv_.fi, a))
                else:
                    res.ok("S-HASHFIELDS", f, norm(a)[:60], what + "-record:always", loc(rv_.fi, a))
        # ---- S-HASHSTALE: tables read by the hash are pruned by the removal operations
        with res.guard(f"S-HASHSTALE of {d}"):
            pruned = set()
            open_world = False  # a removal method hands its tables to other functions (`discard_key(edge_id, self._weights, ...)`)
            for m in ("remove_edge", "remove_node"):
                if m in ctx.methods(cls):
                    mv_ = ctx.view(f"{cls}.{m}")
                    open_world = open_world or mv_._escapes()
                    for o in mv_.ops(with_calls=True):
                        if o.op in ("del", "remove", "clear"):
                            pruned.add(o.table)
            scalars = {"_weighted", "_hypergraph_metadata", "_next_edge_id"}
            read = set()
            for uv in uviews:
                read |= {o.table for o in uv.ops(with_calls=True) if o.op in ("read", "iter", "member")}
                read |= {tab for _, tab, _, _ in uv.mentions()}
            for t in sorted(read - scalars):
                if t not in pruned and open_world:
                    res.unknown("S-HASHSTALE", f, f"self.{t}", "pruned", f"no pruning of {t} is visible in remove_edge / remove_node, which hand their tables to other functions: what those do to {t} was not followed", loc(v.fi, v.fi.node))
                    continue
                res.check(t in pruned, "S-HASHSTALE", f, f"self.{t}", "pruned", f"the hash reads {t}, which remove_edge / remove_node never prune: content reached through an insert-then-remove detour hashes differently", loc(v.fi, v.fi.node))
            if "clear" in ctx.methods(cls):
                cleared = {o.table for o in ctx.view(f"{cls}.clear").ops(with_calls=True) if o.op in ("clear", "setattr")}
                for t in sorted(read - {"_weighted", "_next_edge_id"}):
                    res.check(t in cleared, "S-HASHSTALE", f, f"self.{t}", "cleared", f"the hash reads {t}, which clear() leaves populated", loc(v.fi, v.fi.node))
        # the joint-update rules that keep the hashed tables in step (shared with C01-C04)
        with res.guard("RC.check_remove_edgectx, res, cls"):
            RC.check_remove_edge(ctx, res, cls)
        with res.guard("RC.check_remove_nodectx, res, cls"):
            RC.check_remove_node(ctx, res, cls)
        # a removal loop that walks the live incidence list it shrinks skips every other hyperedge: the survivors stay in the
        # tables the hash reads although their node is gone
        res.rules["E-LIVEITER"] = "no loop iterates an internal table (or a list stored in it) while its body writes that table, directly or via self.<method>() (remove_node would leave hyperedges of the removed node in the hashed tables)"
        with res.guard("RC.check_live_iteration(ctx, res, cls)"):
            RC.check_live_iteration(ctx, res, cls)
    res.rules["P-DEL"] = "remove_edge prunes every id-keyed table and the incidence lists (hash reads them)"
    res.rules["P-NODE"] = "remove_node prunes every node table (hash enumerates nodes from them)"
    res.assumptions += ["SHA-256 / json.dumps are trusted; collision freedom is not decided", "labels and metadata are JSON-representable and mutually comparable (property quantifier)"]
    with res.guard("general lint pack over the property's files"):
        from ..lints import check_pack

        check_pack(ctx, res, "C07")
    return res


def v_parent(root, node):
    for n in ast.walk(root):
        for ch in ast.iter_child_nodes(n):
            if ch is node:
                return n
    return None


def _shape_ok(k, want) -> str:
    """the hashed identity must carry every component of the record key (lists are fine where tuples are expected)."""
    if isinstance(k, _Top):
        return "unknown"
    if isinstance(want, Seq):
        if isinstance(k, (Seq, Lst)) and isinstance(k.elem, Atom) and k.elem.name == "NODE":
            return "ok"
        if isinstance(k, (Seq, Lst)) and isinstance(k.elem, (_Top, Union)):
            return "unknown"
        return "violation"
    if isinstance(want, Tup):
        if isinstance(k, Tup) and len(k.items) == len(want.items):
            parts = [_shape_ok(a, b) if isinstance(b, (Seq, Tup)) else ("ok" if a == b else ("unknown" if isinstance(a, _Top) else "violation")) for a, b in zip(k.items, want.items)]
            if "violation" in parts:
                return "violation"
            return "unknown" if "unknown" in parts else "ok"
        return "violation"
    return "unknown"

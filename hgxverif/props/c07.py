import ast

from .. import tables as T
from ..effects import Effects, check_pure
from ..kinds import META, WEIGHT, Atom, Const, Dct, Lst, Seq, Tup, Union, _Top, elem_of, fits, Mismatch, strip_none, unrole
from ..model import AnalysisError, is_self_attr, loc, norm, walk_no_nested
from ..report import Result
from .. import rules_container as RC

LEVEL_TEXT = (
    "Structural necessary conditions of C07, decided statically: hashing is effect-free; every list that reaches the hashed "
    "pre-image is produced by iterating sorted(...) and dict keys are sorted before serialisation (order independence); the "
    "pre-image contains type, weightedness, hypergraph metadata, per node (label, metadata) and per hyperedge the full key "
    "(time / layer / both roles), the weight and the metadata looked up through the edge id (difference direction); and every "
    "table the hash reads is pruned by remove_edge / remove_node / clear (no stale state after insert-then-remove detours).  "
    "Decides the structure, not collision freedom."
)


def run(ctx):
    res = Result("C07")
    res.rules.update({
        "E-PURE": "hash_hypergraph and expose_attributes_for_hashing never modify the hypergraph",
        "S-HASHSORT": "lists in the pre-image are built by iterating sorted(...); dict keys are sorted; json.dumps(sort_keys=True)",
        "S-HASHFIELDS": "the pre-image holds type, weighted, hypergraph metadata, (node, metadata) and (full key, weight via id, metadata via id)",
        "S-HASHSTALE": "every table read by the hash is pruned by remove_edge / remove_node (and emptied by clear)",
        "K-KEY": "tables are read with keys of their key kind inside the hash functions",
    })
    eff = Effects(ctx)
    with res.guard("check_purectx, eff, res, hashing.hash_hypergraph, rootshypergraph,"):
        check_pure(ctx, eff, res, "hashing.hash_hypergraph", roots=("hypergraph",))
    hh = ctx.view("hashing.hash_hypergraph")
    # json.dumps(..., sort_keys=True)
    dumps = [n for n in ast.walk(hh.fi.node) if isinstance(n, ast.Call) and isinstance(n.func, ast.Attribute) and n.func.attr == "dumps"]
    if not dumps:
        raise AnalysisError("hash_hypergraph: json.dumps call not found")
    for d in dumps:
        sk = [k for k in d.keywords if k.arg == "sort_keys"]
        res.check(bool(sk) and isinstance(sk[0].value, ast.Constant) and sk[0].value.value is True, "S-HASHSORT", hh.fi.short, norm(d), "sort_keys", "the JSON text is produced without sort_keys=True: dict insertion order leaks into the hash", loc(hh.fi, d))
    # the digest is computed from the serialised exposed attributes
    calls = [n for n in ast.walk(hh.fi.node) if isinstance(n, ast.Call) and isinstance(n.func, ast.Attribute) and n.func.attr == "expose_attributes_for_hashing"]
    res.check(bool(calls), "S-HASHFIELDS", hh.fi.short, "hypergraph.expose_attributes_for_hashing()", "source", "the hash is not computed from the exposed attributes", loc(hh.fi, hh.fi.node))
    ser = hh.fi.nested.get("serialize")
    if ser is not None:
        comps = [n for n in ast.walk(ser.node) if isinstance(n, ast.DictComp)]
        ok = any(isinstance(c.generators[0].iter, ast.Call) and isinstance(c.generators[0].iter.func, ast.Name) and c.generators[0].iter.func.id == "sorted" for c in comps)
        res.check(ok or not comps, "S-HASHSORT", hh.fi.short, norm(comps[0]) if comps else "serialize", "serialize-dict", "serialize() rebuilds dicts without sorting their keys", loc(ser, ser.node))

    if ser is not None:
        # list values are content: their order must survive serialisation (only dict KEYS are order-free)
        sorts = [n for n in ast.walk(ser.node) if isinstance(n, ast.Call) and ((isinstance(n.func, ast.Name) and n.func.id == "sorted") or (isinstance(n.func, ast.Attribute) and n.func.attr == "sort"))]
        bad = []
        for c in sorts:
            arg = c.args[0] if c.args else (c.func.value if isinstance(c.func, ast.Attribute) else None)
            in_dict_branch = any(isinstance(i, ast.If) and "dict" in norm(i.test) and any(c is x for b in i.body for x in ast.walk(b)) for i in ast.walk(ser.node))
            is_keys = isinstance(c.func, ast.Name) and arg is not None and isinstance(v_parent(ser.node, c), ast.comprehension) and in_dict_branch
            if not is_keys:
                bad.append(c)
        res.check(not bad, "S-HASHSORT", hh.fi.short, norm(bad[0]) if bad else "serialize: lists keep their order", "lists-ordered", "serialize() re-orders list values: two hypergraphs whose metadata lists differ only in item order get the same hash", loc(ser, bad[0] if bad else ser.node))
    for cls in T.CONTAINERS:
        d = f"{cls}.expose_attributes_for_hashing"
        v = ctx.view(d)
        f = v.fi.short
        with res.guard("check_purectx, eff, res, d, rootsself,"):
            check_pure(ctx, eff, res, d, roots=("self",))
        ctx.add_sites(res, ctx.sites(rules=("K-KEY",), funcs=[f]))
        # ---- S-HASHSORT: every append target list is filled inside a loop over sorted(...)
        appends = [n for n in walk_no_nested(v.fi.node) if isinstance(n, ast.Call) and isinstance(n.func, ast.Attribute) and n.func.attr == "append" and isinstance(n.func.value, ast.Name)]
        if not appends:
            raise AnalysisError(f"{f}: list-building idiom not recognised")
        for a in appends:
            lp = v.enclosing(a, (ast.For,))
            ok = lp is not None and isinstance(lp.iter, ast.Call) and isinstance(lp.iter.func, ast.Name) and lp.iter.func.id == "sorted" and not lp.iter.keywords
            res.check(ok, "S-HASHSORT", f, norm(lp.iter) if lp is not None else norm(a), a.func.value.id, f"the `{a.func.value.id}` list of the pre-image is not built by iterating sorted(...): insertion order leaks into the hash", loc(v.fi, a))
        # ---- S-HASHFIELDS
        ret = [n for n in walk_no_nested(v.fi.node) if isinstance(n, ast.Return) and isinstance(n.value, ast.Dict)]
        if not ret:
            raise AnalysisError(f"{f}: returned dict literal not found")
        rd = {k.value: val for k, val in zip(ret[0].value.keys, ret[0].value.values) if isinstance(k, ast.Constant)}
        for key in ("type", "weighted", "hypergraph_metadata", "edges", "nodes"):
            res.check(key in rd, "S-HASHFIELDS", f, f'"{key}"', "top-level", f"`{key}` is missing from the hash pre-image: two hypergraphs differing only in it get the same hash", loc(v.fi, ret[0]))
        if "type" in rd:
            res.check(isinstance(rd["type"], ast.Constant) and rd["type"].value == cls, "S-HASHFIELDS", f, norm(rd["type"]), "type-tag", "the type tag is not the class name", loc(v.fi, ret[0]))
        if "weighted" in rd:
            res.check(is_self_attr(rd["weighted"], "_weighted"), "S-HASHFIELDS", f, norm(rd["weighted"]), "weighted", "weightedness is not taken from self._weighted", loc(v.fi, ret[0]))
        if "hypergraph_metadata" in rd:
            res.check(is_self_attr(rd["hypergraph_metadata"], "_hypergraph_metadata"), "S-HASHFIELDS", f, norm(rd["hypergraph_metadata"]), "hypergraph_metadata", "hypergraph metadata is not taken from self._hypergraph_metadata", loc(v.fi, ret[0]))
        recs = {}
        for a in appends:
            if a.args and isinstance(a.args[0], ast.Dict):
                recs[a.func.value.id] = (a, {k.value: val for k, val in zip(a.args[0].keys, a.args[0].values) if isinstance(k, ast.Constant)})
        edge_list_name = rd["edges"].id if isinstance(rd.get("edges"), ast.Name) else None
        node_list_name = rd["nodes"].id if isinstance(rd.get("nodes"), ast.Name) else None
        if edge_list_name not in recs or node_list_name not in recs:
            raise AnalysisError(f"{f}: edge / node record idiom not recognised")
        a, er = recs[edge_list_name]
        for key in ("nodes", "weight", "metadata"):
            res.check(key in er, "S-HASHFIELDS", f, f'edge record "{key}"', "edge-record", f"hyperedge `{key}` is missing from the hash pre-image", loc(v.fi, a))
        if "nodes" in er:
            k = unrole(v.kind(er["nodes"]))
            want = unrole(T.KEY_C[cls])
            verdict = _shape_ok(k, want)
            res.add("S-HASHFIELDS", f, norm(er["nodes"]), "edge-key", verdict, "" if verdict == "ok" else f"the hashed hyperedge identity has kind {k!r}; the record key is {want!r} (a component such as time / layer / one role is lost)", loc(v.fi, a))
        if "weight" in er:
            k = strip_none(v.kind(er["weight"]))
            vv = fits(k, WEIGHT)
            res.add("S-HASHFIELDS", f, norm(er["weight"]), "edge-weight", "violation" if isinstance(vv, Mismatch) else ("unknown" if isinstance(k, _Top) else "ok"), getattr(vv, "reason", ""), loc(v.fi, a))
        if "metadata" in er:
            k = strip_none(v.kind(er["metadata"]))
            vv = fits(k, META)
            res.add("S-HASHFIELDS", f, norm(er["metadata"]), "edge-metadata", "violation" if isinstance(vv, Mismatch) else ("unknown" if isinstance(k, _Top) else "ok"), getattr(vv, "reason", ""), loc(v.fi, a))
        a, nr = recs[node_list_name]
        for key in ("node", "metadata"):
            res.check(key in nr, "S-HASHFIELDS", f, f'node record "{key}"', "node-record", f"node `{key}` is missing from the hash pre-image", loc(v.fi, a))
        if "node" in nr:
            k = v.kind(nr["node"])
            res.add("S-HASHFIELDS", f, norm(nr["node"]), "node-label", "ok" if isinstance(k, Atom) and k.name == "NODE" else ("unknown" if isinstance(k, _Top) else "violation"), f"kind {k!r}", loc(v.fi, a))
        if "metadata" in nr:
            k = strip_none(v.kind(nr["metadata"]))
            res.add("S-HASHFIELDS", f, norm(nr["metadata"]), "node-metadata", "ok" if k == META else ("unknown" if isinstance(k, _Top) else "violation"), f"kind {k!r}", loc(v.fi, a))
        # ---- S-HASHSTALE: tables read by the hash are pruned by the removal operations
        pruned = set()
        for m in ("remove_edge", "remove_node"):
            if m in ctx.methods(cls):
                for o in ctx.view(f"{cls}.{m}").ops(with_calls=True):
                    if o.op in ("del", "remove", "clear"):
                        pruned.add(o.table)
        scalars = {"_weighted", "_hypergraph_metadata", "_next_edge_id"}
        read = {o.table for o in v.ops() if o.op in ("read", "iter", "member")}
        for n in walk_no_nested(v.fi.node):
            if is_self_attr(n) and n.attr in ctx.interp.class_tables[cls]:
                read.add(n.attr)
        for t in sorted(read - scalars):
            res.check(t in pruned, "S-HASHSTALE", f, f"self.{t}", "pruned", f"the hash reads {t}, which remove_edge / remove_node never prune: content reached through an insert-then-remove detour hashes differently", loc(v.fi, v.fi.node))
        if "clear" in ctx.methods(cls):
            cleared = {o.table for o in ctx.view(f"{cls}.clear").ops() if o.op == "clear"}
            for t in sorted(read - {"_weighted", "_next_edge_id"}):
                res.check(t in cleared, "S-HASHSTALE", f, f"self.{t}", "cleared", f"the hash reads {t}, which clear() leaves populated", loc(v.fi, v.fi.node))
        # the joint-update rules that keep the hashed tables in step (shared with C01-C04)
        with res.guard("RC.check_remove_edgectx, res, cls"):
            RC.check_remove_edge(ctx, res, cls)
        with res.guard("RC.check_remove_nodectx, res, cls"):
            RC.check_remove_node(ctx, res, cls)
    res.rules["P-DEL"] = "remove_edge prunes every id-keyed table and the incidence lists (hash reads them)"
    res.rules["P-NODE"] = "remove_node prunes every node table (hash enumerates nodes from them)"
    res.assumptions += ["SHA-256 / json.dumps are trusted; collision freedom is not decided", "labels and metadata are JSON-representable and mutually comparable (property quantifier)"]
    return res


def v_parent(root, node):
    for n in ast.walk(root):
        for ch in ast.iter_child_nodes(n):
            if ch is node:
                return n
    return None


def _shape_ok(k, want) -> str:
    """the hashed identity must carry every component of the record key (lists are fine where tuples are expected)."""
    if isinstance(k, _Top):
        return "unknown"
    if isinstance(want, Seq):
        if isinstance(k, (Seq, Lst)) and isinstance(k.elem, Atom) and k.elem.name == "NODE":
            return "ok"
        return "violation"
    if isinstance(want, Tup):
        if isinstance(k, Tup) and len(k.items) == len(want.items):
            parts = [_shape_ok(a, b) if isinstance(b, (Seq, Tup)) else ("ok" if a == b else ("unknown" if isinstance(a, _Top) else "violation")) for a, b in zip(k.items, want.items)]
            if "violation" in parts:
                return "violation"
            return "unknown" if "unknown" in parts else "ok"
        return "violation"
    return "unknown"

import ast

from ..kinds import SIZE
from ..model import AnalysisError, loc, norm, walk_no_nested
from ..report import Result
from ..rules_container import _atoms, _implied_branch
from ..tableops import FuncView
from ._containers import KIND_RULES

LEVEL_TEXT = (
    "Structural necessary conditions of C13, decided statically as proof obligations of the algorithms' own invariants: in the "
    "pairwise reshuffle both outputs start as copies of the intersection, every append to g_k is control-dependent on "
    "len(g_k) < len(f_k) for the SAME k, each residual element is appended on at most one branch and only residual elements are "
    "appended, and (g1, g2) is returned in that order; the MH step writes the results back to the positions the inputs were read "
    "from; with a size argument the re-added hyperedges are exactly those failing the selection; in the directed model each step is "
    "an exchange at the nodes' own indices, on one role component, dominated by the would-duplicate refusal for both sets.  "
    "Decides the structure, not exact preservation for every random outcome."
)


def _resolve_len(v: FuncView, e):
    """name of the sequence whose length `e` denotes: len(X) -> X ; n -> X if n = len(X) (also via tuple assignment)"""
    if isinstance(e, ast.Call) and isinstance(e.func, ast.Name) and e.func.id == "len" and e.args:
        return norm(e.args[0])
    if isinstance(e, ast.Name):
        for n in walk_no_nested(v.fi.node):
            if isinstance(n, ast.Assign) and len(n.targets) == 1:
                t = n.targets[0]
                if isinstance(t, ast.Name) and t.id == e.id:
                    return _resolve_len(v, n.value) if not isinstance(n.value, ast.Name) else None
                if isinstance(t, ast.Tuple) and isinstance(n.value, ast.Tuple) and len(t.elts) == len(n.value.elts):
                    for a, b in zip(t.elts, n.value.elts):
                        if isinstance(a, ast.Name) and a.id == e.id:
                            return _resolve_len(v, b)
    return None


def check_reshuffle(ctx, res: Result):
    fi = ctx.require("configuration_model._cm_MCMC.<locals>.__pairwise_reshuffle")
    v = ctx.view(fi)
    f = v.fi.short
    params = [a.arg for a in fi.params]
    rets = [n for n in walk_no_nested(fi.node) if isinstance(n, ast.Return)]
    if len(params) != 2 or len(rets) != 1 or not isinstance(rets[0].value, ast.Tuple) or len(rets[0].value.elts) != 2:
        raise AnalysisError(f"{f}: signature / return shape changed")
    outs = []
    for e in rets[0].value.elts:
        # (through `new_f1 = tuple(sorted(g1))`-style temporaries: the accumulator is the list that is appended to)
        raw = [x.id for x in ast.walk(e) if isinstance(x, ast.Name) and x.id not in ("tuple", "sorted", "list")]
        names = raw if len(raw) == 1 else [x.id for x in ast.walk(v.inline(e)) if isinstance(x, ast.Name) and x.id not in ("tuple", "sorted", "list")]
        outs.append(names[0] if len(names) == 1 else None)
    if None in outs:
        raise AnalysisError(f"{f}: returned pair not recognised")
    pair = dict(zip(outs, params))  # g1 -> f1, g2 -> f2 (position in the return <-> position of the parameter)
    res.ok("P-LINEAR", f, norm(rets[0]), "returns (g1, g2) for (f1, f2)", loc(fi, rets[0]))
    # both outputs start as copies of the intersection of the inputs
    for g in outs:
        defs = [n for n in walk_no_nested(fi.node) if isinstance(n, ast.Assign) and isinstance(n.targets[0], ast.Name) and n.targets[0].id == g]
        ok = len(defs) == 1 and isinstance(defs[0].value, ast.Call) and (norm(defs[0].value.func).endswith(".copy") or norm(defs[0].value.func) == "list")
        src = norm(defs[0].value.func.value) if ok and isinstance(defs[0].value.func, ast.Attribute) else (norm(defs[0].value.args[0]) if ok and defs[0].value.args else None)
        inter = False
        if src:
            sdefs = [n for n in walk_no_nested(fi.node) if isinstance(n, ast.Assign) and isinstance(n.targets[0], ast.Name) and n.targets[0].id == src]
            txt = " ".join(norm(d.value) for d in sdefs)
            for d in sdefs:
                for x in ast.walk(d.value):
                    if isinstance(x, ast.Name):
                        d2 = [n for n in walk_no_nested(fi.node) if isinstance(n, ast.Assign) and isinstance(n.targets[0], ast.Name) and n.targets[0].id == x.id]
                        txt += " " + " ".join(norm(y.value) for y in d2)
            inter = "intersection" in txt and all(p in txt for p in params)
        empty = len(defs) == 1 and ((isinstance(defs[0].value, (ast.List, ast.Tuple, ast.Set)) and not defs[0].value.elts) or (isinstance(defs[0].value, ast.Call) and norm(defs[0].value.func) in ("list", "set") and not defs[0].value.args))
        res.add("P-GUARDCAP", f, norm(defs[0]) if defs else g, g + ":init", "ok" if ok and inter else ("violation" if empty else "unknown"), "" if ok and inter else (f"{g} does not start as a copy of the intersection of the two hyperedges (common nodes must stay in both)" if empty else f"how {g} is initialised was not recognised"), loc(fi, defs[0] if defs else fi.node))
    # appends
    apps = [n for n in walk_no_nested(fi.node) if isinstance(n, ast.Call) and isinstance(n.func, ast.Attribute) and n.func.attr in ("append", "extend", "insert", "add") and isinstance(n.func.value, ast.Name) and n.func.value.id in outs]
    if not apps:
        # outputs assembled from SLICES of one shuffled pool of the free nodes: `g1 = ix + free[:k]; g2 = ix + free[k:]`.  Each
        # hyperedge keeps its size only when k is that hyperedge's own free capacity (len(f1) - len(ix)); a split point computed
        # from the pool alone (`len(free) // 2`) averages the two sizes
        sl = []
        for g in outs:
            for d in [n for n in walk_no_nested(fi.node) if isinstance(n, ast.Assign) and isinstance(n.targets[0], ast.Name) and n.targets[0].id == g]:
                for x in ast.walk(d.value):
                    if isinstance(x, ast.Subscript) and isinstance(x.slice, ast.Slice):
                        sl.append((g, d, x))
        if sl:
            for g, d, x in sl:
                bounds = [b for b in (x.slice.lower, x.slice.upper) if b is not None]
                txt = " ".join(norm(v.inline(b, depth=3)) for b in bounds)
                own = any(isinstance(y, ast.Call) and isinstance(y.func, ast.Name) and y.func.id == "len" and y.args and isinstance(y.args[0], ast.Name) and y.args[0].id in params for b in bounds for y in ast.walk(v.inline(b, depth=3)))
                res.add("P-GUARDCAP", f, norm(d)[:80], g + ":capacity", "unknown" if own else "violation", "the split point mentions the hyperedges' own sizes; that each output keeps its size was not decided" if own else f"`{g}` receives the slice `{norm(x)[:40]}` of the shuffled free nodes, and the split point `{txt[:40]}` is computed from the pool alone: two hyperedges of different sizes come back with averaged sizes (a (2, 4) pair as (3, 3)) - the size sequence is not preserved", loc(fi, d))
            return
        raise AnalysisError(f"{f}: no append to the outputs found")
    loops = {id(v.enclosing(a, (ast.For,))) for a in apps}
    loop = v.enclosing(apps[0], (ast.For,))
    res.check(len(loops) == 1 and loop is not None and isinstance(loop.target, ast.Name), "P-LINEAR", f, norm(loop.iter) if loop is not None else "for v in f", "one-loop", "the residual nodes are not distributed in one loop over the residual list", loc(fi, fi.node))
    for a in apps:
        g = a.func.value.id
        aid = v.cfg_id(a)
        # P-LINEAR: the appended value is the loop variable
        res.check(a.func.attr == "append" and len(a.args) == 1 and isinstance(a.args[0], ast.Name) and loop is not None and a.args[0].id == loop.target.id, "P-LINEAR", f, norm(a), g + ":element", "something other than the current residual node is appended (a node would be duplicated or invented)", loc(fi, a))
        # P-GUARDCAP: some governing condition is len(g) < len(paired f)
        caps = []
        undecided_guard = False
        for i in v.enclosing_all(a, (ast.If,)):
            test_i = v.inline(i.test)
            if not any(isinstance(x, ast.Compare) for x in ast.walk(test_i)):
                undecided_guard = undecided_guard or any(isinstance(x, ast.Name) for x in ast.walk(test_i))
            for atom, _ in _atoms(test_i, True):
                if isinstance(atom, ast.Compare) and len(atom.ops) == 1:
                    lab = _implied_branch(test_i, atom, True)
                    if lab and v.cfg.branch_dominated(v.cfg.by_ast[id(i.test)], lab, aid):
                        l, op, r = atom.left, atom.ops[0], atom.comparators[0]
                        if isinstance(op, ast.Lt) and _resolve_len(v, l) == g:
                            caps.append(_resolve_len(v, r))
                        elif isinstance(op, ast.Gt) and _resolve_len(v, r) == g:
                            caps.append(_resolve_len(v, l))
        res.add("P-GUARDCAP", f, norm(a), g + ":capacity", "ok" if pair[g] in caps else ("unknown" if undecided_guard and not caps else "violation"), "" if pair[g] in caps else f"the append to {g} is not guarded by len({g}) < len({pair[g]}) (it is guarded by capacity of {caps or 'nothing'}): {g} can outgrow / undershoot the hyperedge it replaces", loc(fi, a))
    # at most one append per iteration
    head = v.cfg.by_ast[id(loop)] if loop is not None else None
    for i, a in enumerate(apps):
        for b in apps[i + 1:]:
            ia, ib = v.cfg_id(a), v.cfg_id(b)
            both = v.cfg.reaches_without(ia, ib, {head}) or v.cfg.reaches_without(ib, ia, {head})
            res.check(not both, "P-LINEAR", f, f"{norm(a)} / {norm(b)}", "exclusive", "a residual node can be appended to both outputs in one iteration (its degree would increase)", loc(fi, a))


def check_writeback(ctx, res: Result):
    try:
        prop = ctx.require("configuration_model._cm_MCMC.<locals>.proposal_generator.<locals>.__proposal")
        step = ctx.require("configuration_model._cm_MCMC.<locals>.stub_edge_mh.<locals>.mh_step")
    except AnalysisError as e:
        res.unknown("P-WRITEBACK", "configuration_model._cm_MCMC", "mh_step / __proposal", "anchors", str(e))
        return
    pv, sv = ctx.view(prop), ctx.view(step)
    rets = [n for n in walk_no_nested(prop.node) if isinstance(n, ast.Return) and isinstance(n.value, ast.Tuple)]
    unp = [n for n in walk_no_nested(step.node) if isinstance(n, ast.Assign) and isinstance(n.targets[0], ast.Tuple) and isinstance(n.value, ast.Call)]
    if len(rets) != 1 or len(unp) != 1 or len(rets[0].value.elts) != len(unp[0].targets[0].elts):
        res.unknown("P-WRITEBACK", step.short, "i, j, f1, f2, g1, g2 = proposal(c_new)", "shape", "correspondence between the proposal and the MH step cannot be followed")
        return
    rnames = [norm(e) for e in rets[0].value.elts]
    unames = [norm(e) for e in unp[0].targets[0].elts]
    # in the proposal: which index each f was read from, which f each g replaces
    read_from = {}
    for n in walk_no_nested(prop.node):
        if isinstance(n, ast.Assign) and isinstance(n.targets[0], ast.Tuple) and isinstance(n.value, ast.Tuple) and len(n.targets[0].elts) == len(n.value.elts):
            for t, val in zip(n.targets[0].elts, n.value.elts):
                if isinstance(val, ast.Subscript) and isinstance(val.slice, ast.Name):
                    read_from[norm(t)] = val.slice.id
        # (canonical form: one plain assignment per component)
        if isinstance(n, ast.Assign) and len(n.targets) == 1 and isinstance(n.targets[0], ast.Name) and isinstance(n.value, ast.Subscript) and isinstance(n.value.slice, ast.Name):
            read_from[n.targets[0].id] = n.value.slice.id
    replaces = {}
    for n in walk_no_nested(prop.node):
        if isinstance(n, ast.Assign) and isinstance(n.targets[0], ast.Tuple) and isinstance(n.value, ast.Call) and "pairwise_reshuffle" in norm(n.value.func):
            for t, a in zip(n.targets[0].elts, n.value.args):
                replaces[norm(t)] = norm(a)
    stores = [n for n in walk_no_nested(step.node) if isinstance(n, ast.Assign) and isinstance(n.targets[0], ast.Subscript) and isinstance(n.targets[0].slice, ast.Name)]
    if not stores or not read_from or not replaces:
        res.unknown("P-WRITEBACK", step.short, "c_new[i] = sorted(g1)", "idiom", "write-back idiom not recognised")
        return
    to_ret = dict(zip(unames, rnames))  # name in mh_step -> name in the proposal's return
    for s in stores:
        idx = to_ret.get(s.targets[0].slice.id)
        gs = [to_ret.get(x.id) for x in ast.walk(s.value) if isinstance(x, ast.Name) and x.id in to_ret]
        g = gs[0] if gs else None
        ok = g is not None and idx is not None and read_from.get(replaces.get(g)) == idx
        res.check(ok, "P-WRITEBACK", step.short, norm(s), "position", f"the reshuffled hyperedge {g} (which replaces {replaces.get(g)}, read from position {read_from.get(replaces.get(g))}) is written to position {idx}: another hyperedge is overwritten and one is duplicated", loc(step, s))
    # detailed: the proposal loop only exits on equal sizes
    whiles = [n for n in walk_no_nested(prop.node) if isinstance(n, ast.While)]
    good = [w for w in whiles if isinstance(w.test, ast.Compare) and isinstance(w.test.ops[0], ast.NotEq) and all(isinstance(x, ast.Call) and norm(x.func) == "len" for x in (w.test.left, w.test.comparators[0]))]
    res.check(bool(good) and all(any(norm(i.test) == "detailed" for i in pv.enclosing_all(w, (ast.If,))) for w in good), "P-WRITEBACK", prop.short, norm(good[0].test) if good else "while len(f1) != len(f2)", "detailed", "with detailed=True the proposal can pair hyperedges of different sizes", loc(prop, prop.node))


def check_complement(ctx, res: Result):
    v = ctx.view("configuration_model.configuration_model")
    f = v.fi.short
    sel = [n for n in walk_no_nested(v.fi.node) if isinstance(n, ast.Call) and isinstance(n.func, ast.Attribute) and n.func.attr == "get_edges" and any(k.arg == "subhypergraph" for k in n.keywords)]
    if len(sel) != 1:
        raise AnalysisError(f"{f}: selection call not recognised")
    kw = {k.arg: k.value for k in sel[0].keywords}
    from ..kinds import strip_none as _sn

    size_arg = kw.get("size")
    size_ok = size_arg is not None and (norm(size_arg) == "size" or _sn(v.kind(size_arg)) == SIZE)
    upto_ok = isinstance(kw.get("up_to"), ast.Constant) and kw["up_to"].value is False
    sel_bad = (size_arg is None) or (isinstance(kw.get("up_to"), ast.Constant) and kw["up_to"].value is True) or (size_arg is not None and not size_ok and not isinstance(_sn(v.kind(size_arg)), type(_sn(v.kind(ast.Name(id="__none__", ctx=ast.Load()))))))
    res.add("M-COMPLEMENT", f, norm(sel[0]), "selection", "ok" if size_ok and upto_ok else ("violation" if (size_arg is None or (isinstance(kw.get("up_to"), ast.Constant) and kw["up_to"].value is True) or "up_to" not in kw) else "unknown"), "" if size_ok and upto_ok else "the reshuffled part is not exactly the hyperedges of the requested size", loc(v.fi, sel[0]))
    res.check(isinstance(kw.get("keep_isolated_nodes"), ast.Constant) and kw["keep_isolated_nodes"].value is True, "M-COMPLEMENT", f, norm(sel[0]), "nodes-kept", "nodes without a hyperedge of that size are dropped from the result", loc(v.fi, sel[0]))
    readds = [n for n in walk_no_nested(v.fi.node) if isinstance(n, ast.Call) and isinstance(n.func, ast.Attribute) and n.func.attr == "add_edge"]
    if not readds:
        raise AnalysisError(f"{f}: re-add idiom not recognised")
    for r in readds:
        ifs = v.enclosing_all(r, (ast.If,))
        lp = v.enclosing(r, (ast.For,))
        lit_ = (v.resolve(lp.iter) if isinstance(lp.iter, ast.Name) else lp.iter) if lp is not None else None  # `all_edges = hypergraph.get_edges(); for e in all_edges:`
        ok_loop = lp is not None and isinstance(lit_, ast.Call) and isinstance(lit_.func, ast.Attribute) and lit_.func.attr == "get_edges" and not lit_.args and not lit_.keywords and norm(lit_.func.value) == "hypergraph"
        res.check(ok_loop, "M-COMPLEMENT", f, norm(lp.iter) if lp is not None else norm(r), "over-all-edges", "the untouched hyperedges are not taken from all hyperedges of the input", loc(v.fi, r))
        # the re-add is control-dependent on `len(e) != size`: inside `if len(e) != size:` or after `if len(e) == size: continue`
        rid = v.cfg_id(r)
        tests = [i for i in (ast.walk(lp) if lp is not None else []) if isinstance(i, ast.If) and isinstance(i.test, ast.Compare) and len(i.test.ops) == 1 and {v.kind(i.test.left), v.kind(i.test.comparators[0])} <= {SIZE} and "size" in (norm(i.test.left), norm(i.test.comparators[0]))]
        good, wrong = [], []
        for i in tests:
            op = i.test.ops[0]
            tid = v.cfg.by_ast[id(i.test)]
            for lab in ("T", "F"):
                if v.cfg.branch_dominated(tid, lab, rid):
                    means_ne = (isinstance(op, ast.NotEq) and lab == "T") or (isinstance(op, ast.Eq) and lab == "F")
                    (good if means_ne else wrong).append(i)
        any_if = [i for i in (ast.walk(lp) if lp is not None else []) if isinstance(i, ast.If)]
        if good:
            res.ok("M-COMPLEMENT", f, norm(good[0].test), "negated-selection", loc(v.fi, r))
        elif wrong or not any_if:
            res.violation("M-COMPLEMENT", f, norm(wrong[0].test) if wrong else norm(r), "negated-selection", "the re-added hyperedges are not exactly those that fail the selection `size == size` (some are lost or duplicated)", loc(v.fi, r))
        else:
            res.unknown("M-COMPLEMENT", f, norm(r), "negated-selection", "the condition under which hyperedges are re-added was not recognised", loc(v.fi, r))
        res.check(lp is not None and r.args and norm(r.args[0]) == norm(lp.target), "M-COMPLEMENT", f, norm(r), "same-edge", "a different hyperedge than the tested one is re-added", loc(v.fi, r))
        # ---- paired guards: the complement is re-added under exactly the conditions under which the chain was restricted to the
        # selection; when the re-add runs under strictly FEWER conditions there is an option combination for which the chain ran on
        # the whole hypergraph and the other sizes are added on top of their reshuffled versions
        from ..rules_container import _atoms, _implied_branch

        def conds(node):
            out = set()
            nid = v.cfg_id(node)
            for i in walk_no_nested(v.fi.node):
                if not isinstance(i, ast.If) or (lp is not None and any(i is y for y in ast.walk(lp))):
                    continue
                tid = v.cfg.by_ast.get(id(i.test))
                if tid is None or nid is None:
                    continue
                for atom, _pos in _atoms(i.test, True):
                    for want in (True, False):
                        lab = _implied_branch(i.test, atom, want)
                        if lab and v.cfg.branch_dominated(tid, lab, nid):
                            out.add((norm(atom), want))
            return out

        if lp is not None:
            s_c, r_c = conds(sel[0]), conds(lp)
            extra = s_c - r_c
            if r_c < s_c and extra:
                res.violation("M-COMPLEMENT", f, norm(lp.iter)[:80], "paired-guards", f"the chain is restricted to the selection only when {' and '.join(('' if w else 'not ') + '`' + a + '`' for a, w in sorted(extra))}, but the hyperedges outside the selection are re-added without that condition: for the other option combinations the whole hypergraph is reshuffled and the originals of the other sizes are added on top", loc(v.fi, lp))
            elif r_c == s_c:
                res.ok("M-COMPLEMENT", f, norm(lp.iter)[:80], "paired-guards", loc(v.fi, lp))
            else:
                res.unknown("M-COMPLEMENT", f, norm(lp.iter)[:80], "paired-guards", "restriction and re-add stand under different tests; their equivalence was not decided", loc(v.fi, lp))


def check_directed_swap(ctx, res: Result):
    v = ctx.view("directed_configuration_model.directed_configuration_model")
    f = v.fi.short
    loops = [n for n in v.fi.node.body if isinstance(n, ast.For) and isinstance(n.iter, ast.Call) and norm(n.iter.func) == "range"]
    if len(loops) != 2:
        raise AnalysisError(f"{f}: expected the source loop and the target loop")
    for comp, lp in zip((0, 1), loops):
        role = ("source", "target")[comp]
        sets = {}
        for n in ast.walk(lp):
            if isinstance(n, ast.Assign) and isinstance(n.targets[0], ast.Name) and isinstance(n.value, ast.Subscript) and isinstance(n.value.slice, ast.Constant) and isinstance(n.value.value, ast.Subscript):
                sets[n.targets[0].id] = (norm(n.value.value.slice), n.value.slice.value)
        res.check(len(sets) == 2 and all(c == comp for _, c in sets.values()) and len({i for i, _ in sets.values()}) == 2, "P-SWAP", f, f"{role} loop: " + ", ".join(f"{k}=[{i}][{c}]" for k, (i, c) in sets.items()), role + ":component", f"the {role} loop does not exchange nodes between the {role} sets of two different hyperedges", loc(v.fi, lp))
        picks = {}
        for n in ast.walk(lp):
            if isinstance(n, ast.Assign) and isinstance(n.targets[0], ast.Name) and isinstance(n.value, ast.Call) and (norm(n.value.func) == "random.choice" or (isinstance(n.value.func, ast.Name) and norm(v.resolve(n.value.func)) == "random.choice")) and n.value.args:
                picks[n.targets[0].id] = norm(n.value.args[0])
        stores = [n for n in ast.walk(lp) if isinstance(n, ast.Assign) and isinstance(n.targets[0], ast.Subscript) and isinstance(n.targets[0].slice, ast.Call) and norm(n.targets[0].slice.func).endswith(".index")]
        res.check(len(stores) == 2, "P-SWAP", f, role + " loop stores", role + ":two-stores", "a swap step is not made of exactly two stores", loc(v.fi, lp))
        for s in stores:
            A = norm(s.targets[0].value)
            own = norm(s.targets[0].slice.args[0]) if s.targets[0].slice.args else None
            other = norm(s.value)
            ok = norm(s.targets[0].slice.func.value) == A and picks.get(own) == A and other in picks and picks.get(other) != A
            res.check(ok, "P-SWAP", f, norm(s), role + ":exchange", "a store does not put the OTHER set's node at the index of this set's own chosen node (a node is lost or duplicated)", loc(v.fi, s))
        # refusal guard dominates both stores
        guards = [n for n in ast.walk(lp) if isinstance(n, ast.If) and isinstance(n.test, ast.BoolOp) and isinstance(n.test.op, ast.Or) and all(isinstance(x, ast.Compare) and isinstance(x.ops[0], ast.In) for x in n.test.values) and any(isinstance(b, ast.Continue) for b in n.body)]
        okg = False
        for g in guards:
            pairs = {(norm(x.left), norm(x.comparators[0])) for x in g.test.values}
            want = set()
            names = list(picks)
            for nm in names:
                for sname in sets:
                    if picks[nm] != sname:
                        want.add((nm, sname))
            okg = okg or (pairs == want and all(g.lineno < s.lineno for s in stores))
        res.check(okg, "P-SWAP", f, norm(guards[0].test) if guards else "if node2 in set1 or node1 in set2: continue", role + ":refusal", f"the {role} swap is not refused exactly when it would duplicate a node in one of the two sets", loc(v.fi, lp))
        same = [n for n in ast.walk(lp) if isinstance(n, ast.If) and isinstance(n.test, ast.Compare) and isinstance(n.test.ops[0], ast.Eq) and any(isinstance(b, ast.Continue) for b in n.body)]
        res.check(bool(same), "P-SWAP", f, norm(same[0].test) if same else "if id1 == id2: continue", role + ":distinct", "a hyperedge can be paired with itself", loc(v.fi, lp))
    # final rebuild with both roles: the pairs handed to the DirectedHypergraph constructor are (source side, target side)
    ctor = [n for n in walk_no_nested(v.fi.node) if isinstance(n, ast.Call) and isinstance(n.func, ast.Name) and n.func.id == "DirectedHypergraph"]
    pairs = []  # (node, loop variable(s), pair expression)
    for c in ctor:
        arg = next((k.value for k in c.keywords if k.arg == "edge_list"), c.args[0] if c.args else None)
        if arg is None:
            continue
        e = v.resolve(arg) if isinstance(arg, ast.Name) else arg
        if isinstance(e, (ast.ListComp, ast.GeneratorExp)) and len(e.generators) == 1:
            pairs.append((e, e.generators[0].target, e.elt))
        elif isinstance(arg, ast.Name):
            for n in walk_no_nested(v.fi.node):
                if isinstance(n, ast.Call) and isinstance(n.func, ast.Attribute) and n.func.attr == "append" and norm(n.func.value) == arg.id and n.args:
                    lp = v.enclosing(n, (ast.For,))
                    if lp is not None:
                        pairs.append((n, lp.target, n.args[0]))
    if not pairs:
        res.unknown("P-SWAP", f, "final_hyperedges.append(...)", "rebuild", "the construction of the final hyperedge list was not recognised", loc(v.fi, v.fi.node))
    for node, target, pexpr in pairs:
        # strip an outer tuple(...) call
        pe = pexpr
        while isinstance(pe, ast.Call) and norm(pe.func) == "tuple" and len(pe.args) == 1:
            pe = pe.args[0]
        if not (isinstance(pe, ast.Tuple) and len(pe.elts) == 2):
            res.unknown("P-SWAP", f, norm(node)[:120], "rebuild", "the rebuilt hyperedge is not written as a pair", loc(v.fi, node))
            continue

        def side(x):
            """0 / 1: which component of the working pair the expression is built from"""
            if isinstance(target, ast.Tuple) and len(target.elts) == 2 and all(isinstance(t, ast.Name) for t in target.elts):
                names = {y.id for y in ast.walk(x) if isinstance(y, ast.Name)}
                hit = [i for i, t in enumerate(target.elts) if t.id in names]
                return hit[0] if len(hit) == 1 else None
            if isinstance(target, ast.Name):
                idx = {y.slice.value for y in ast.walk(x) if isinstance(y, ast.Subscript) and isinstance(y.value, ast.Name) and y.value.id == target.id and isinstance(y.slice, ast.Constant)}
                return idx.pop() if len(idx) == 1 else None
            return None

        sides = [side(pe.elts[0]), side(pe.elts[1])]
        st = "ok" if sides == [0, 1] else ("violation" if None not in sides else "unknown")
        res.add("P-SWAP", f, norm(node)[:120], "rebuild", st, "" if st == "ok" else "the final hyperedges are not rebuilt as (source, target) from the swapped lists", loc(v.fi, node))


def _index_store(n):
    """`X[X.index(a)] = b`: (X text, a, b) or None"""
    if isinstance(n, ast.Assign) and len(n.targets) == 1 and isinstance(n.targets[0], ast.Subscript):
        t = n.targets[0]
        sl = t.slice
        if isinstance(sl, ast.Call) and isinstance(sl.func, ast.Attribute) and sl.func.attr == "index" and norm(sl.func.value) == norm(t.value):
            return norm(t.value)
    return None


def check_swap_atomic(ctx, res: Result, relpath="hypergraphx/generation/directed_configuration_model.py"):
    """P-SWAPATOMIC: a swap step replaces one node in each of two sets.  Once the first replacement has been done the second is
    done on every path to the end of the step: a second half that can still be refused (a conditional replacement, a helper
    that declines) leaves one node with a slot more and one with a slot less - a degree changes."""
    files = {relpath}
    mods = [m for m in ctx.prog.modules.values() if m.relpath in files]
    for m in list(mods):
        for imp in m.imports.values():
            if imp[0] == "symbol" and imp[1] in ctx.prog.modules and imp[1].split(".")[-1].startswith("_") and imp[1].rsplit(".", 1)[0] == m.name.rsplit(".", 1)[0]:
                mods.append(ctx.prog.modules[imp[1]])
    fis = [fi for fi in ctx.prog.functions.values() if fi.module in mods and fi.cls is None]
    # helpers that perform an index-store on one of their parameters: 'must' (on every normal path) / 'may'
    summary = {}
    for fi in fis:
        v = ctx.view(fi)
        pn = {a.arg for a in fi.params}
        stores = [n for n in walk_no_nested(fi.node) if _index_store(n) in pn]
        if not stores:
            continue
        ids = {v.cfg_id(n) for n in stores} - {None}
        must = not v.cfg.reaches_without(v.cfg.entry, v.cfg.exit, ids)
        # does the helper report what it did?  True is returned only after a store, False / None only without one
        rets = [n for n in walk_no_nested(fi.node) if isinstance(n, ast.Return)]
        flag = bool(rets)
        for r in rets:
            rid = v.cfg_id(r)
            val = r.value.value if isinstance(r.value, ast.Constant) else ("?" if r.value is not None else None)
            after = rid is not None and any(v.cfg.reachable(i, rid) for i in ids)
            avoid = rid is not None and v.cfg.reaches_without(v.cfg.entry, rid, ids)
            if val is True and avoid:
                flag = False
            elif val in (False, None) and after and not avoid:
                flag = False
            elif val == "?":
                flag = False
        summary[fi.qualname] = ("must" if must else "may", flag and not must)
    n_units = 0
    for fi in fis:
        v = ctx.view(fi)
        events = []  # (cfg id, node, kind, flag)
        for n in walk_no_nested(fi.node):
            if _index_store(n) is not None:
                events.append((v.cfg_id(n), n, "must", False))
            elif isinstance(n, ast.Call):
                for c in ctx.callees(fi, n):
                    if c.qualname in summary and c is not fi:
                        events.append((v.cfg_id(n), n, *summary[c.qualname]))
        events = [e for e in events if e[0] is not None]
        if len(events) < 2:
            continue
        # group by innermost enclosing loop (a step is one iteration); outside loops: the function body
        groups = {}
        for e in events:
            lp = v.enclosing(e[1], (ast.For, ast.While))
            groups.setdefault(id(lp) if lp is not None else 0, (lp, []))[1].append(e)
        for lp, evs in groups.values():
            if len(evs) < 2:
                continue
            n_units += 1
            end = v.cfg.exit if lp is None else (v.cfg.by_ast[id(lp)] if isinstance(lp, ast.For) else v.cfg.by_ast[id(lp.test)])
            firsts = [e for e in evs if not any(o is not e and o[0] != e[0] and v.cfg.reaches_without(o[0], e[0], {end}) for o in evs)]
            for s1 in firsts:
                others = [o for o in evs if o is not s1]
                must_ids = {o[0] for o in others if o[2] == "must"}
                starts = [s1[0]]
                if s1[2] == "may" and s1[3]:
                    # `if helper(...):` - only the True edge is a path on which the first half was done
                    node = v.cfg.nodes.get(s1[0]) if hasattr(v.cfg, "nodes") else None
                    succ_t = v.cfg.succ(s1[0], "T")
                    if succ_t and v.cfg.succ(s1[0], "F"):
                        starts = succ_t
                        if any(x in must_ids for x in starts):
                            res.ok("P-SWAPATOMIC", fi.short, norm(s1[1]), "second-half", loc(fi, s1[1]))
                            continue
                elif s1[2] == "may":
                    res.unknown("P-SWAPATOMIC", fi.short, norm(s1[1]), "second-half", "the first replacement is done by a helper that may decline and whose report is not used as a branch condition", loc(fi, s1[1]))
                    continue
                escapes = any(v.cfg.reaches_without(st, end, must_ids) or (lp is not None and v.cfg.reaches_without(st, v.cfg.exit, must_ids | {end})) for st in starts)
                if not escapes:
                    res.ok("P-SWAPATOMIC", fi.short, norm(s1[1]), "second-half", loc(fi, s1[1]))
                    continue
                may_after = [o for o in others if o[2] == "may" and any(st == o[0] or v.cfg.reaches_without(st, o[0], {end}) for st in starts)]
                cond_after = [o for o in others if o[2] == "must" and any(st == o[0] or v.cfg.reaches_without(st, o[0], {end}) for st in starts)]
                if may_after or cond_after:
                    o = (may_after or cond_after)[0]
                    why = "is done by a helper that can decline" if may_after else "is conditional"
                    res.violation("P-SWAPATOMIC", fi.short, norm(o[1]), "second-half", f"after the first replacement `{norm(s1[1])[:80]}` of a swap step, the second one {why}: when it is skipped one node has gained a slot and the other lost one (a degree changes)", loc(fi, o[1]))
                else:
                    res.unknown("P-SWAPATOMIC", fi.short, norm(s1[1]), "second-half", "no second replacement found on the paths after the first", loc(fi, s1[1]))
    if n_units == 0:
        res.unknown("P-SWAPATOMIC", relpath, "swap step", "second-half", "no swap step made of two replacements was recognised", relpath)


def run(ctx):
    res = Result("C13")
    res.rules.update({k: KIND_RULES[k] for k in ("C-SIG", "K-ARG", "K-SIZE")})
    res.rules.update({
        "P-GUARDCAP": "outputs start as the intersection; every append to g_k is control-dependent on len(g_k) < len(f_k) for the same k",
        "P-LINEAR": "each residual node is appended on at most one branch per iteration and nothing else is appended; (g1, g2) is returned for (f1, f2)",
        "P-WRITEBACK": "MH step: results are written back to the positions their inputs were read from; detailed => same-size pairs",
        "M-COMPLEMENT": "size-restricted model: re-added hyperedges are exactly those failing the selection; nodes are kept",
        "P-SWAP": "directed model: each step exchanges two nodes at their own indices, on one role component, under the would-duplicate refusal",
    })
    files = ["hypergraphx/generation/configuration_model.py", "hypergraphx/generation/directed_configuration_model.py"]
    ctx.add_sites(res, ctx.sites(rules=("C-SIG", "K-ARG", "K-SIZE"), files=files))
    from .. import cmpshape as M

    res.rules["M-NONE"] = "order / size are tested with `is None`, never by truthiness (order 0 is a legitimate restriction)"
    res.rules["M-EXCL"] = "order and size together are rejected"
    with res.guard("M.check_none_testsctx, res, configuration_model.configuration_model"):
        M.check_none_tests(ctx, res, "configuration_model.configuration_model")
    with res.guard("M.check_exclusionctx, res, configuration_model.configuration_model"):
        M.check_exclusion(ctx, res, "configuration_model.configuration_model")
    with res.guard("check_reshufflectx, res"):
        check_reshuffle(ctx, res)
    with res.guard("check_writebackctx, res"):
        check_writeback(ctx, res)
    with res.guard("check_complementctx, res"):
        check_complement(ctx, res)
    with res.guard("check_complement_none(ctx, res)"):
        check_complement_none(ctx, res)
    # the directed model rebuilds its result through DirectedHypergraph(edge_list=...) -> add_edge: a reshuffled hyperedge may carry
    # a node on both sides, and add_edge has to store it as it is
    from .. import rules_container as RC

    res.rules["K-SIDES"] = "DirectedHypergraph.add_edge stores source and target as given: neither side is filtered by membership in the other"
    with res.guard("RC.check_sides_kept(ctx, res)"):
        RC.check_sides_kept(ctx, res)
    with res.guard("check_directed_swapctx, res"):
        check_directed_swap(ctx, res)
    with res.guard("G-REUSE"):
        from ..lints import check_iterator_reuse

        for d_ in ("configuration_model.configuration_model", "configuration_model._cm_MCMC", "directed_configuration_model.directed_configuration_model"):
            check_iterator_reuse(ctx, res, d_)
    res.rules["P-SWAPATOMIC"] = "directed model: once the first node replacement of a swap step is done, the second is done on every path (no half swap)"
    with res.guard("check_swap_atomic"):
        check_swap_atomic(ctx, res)
    res.assumptions += ["the vertex-labelled sampler is outside the property's quantifier (label in {'edge','stub'})", "an unrecognised rewrite of these functions is an ANALYSIS-ERROR (exit 2), not a violation"]
    with res.guard("general lint pack over the property's files"):
        from ..lints import check_pack

        check_pack(ctx, res, "C13")
    return res


def check_complement_none(ctx, res: Result):
    """The hyperedges outside the selection are picked by comparing `len(e)` with the requested size.  When the size that
    is compared can be None where the comparison runs (the caller gave `order`, and the conversion `size = order + 1` is
    missing on that path), `len(e) != None` holds for every hyperedge: the selected ones are re-added next to their
    reshuffled versions.  Decided from the flow-sensitive kind of the compared value, in configuration_model itself and in
    the repo helpers it hands the value to."""
    from ..kinds import Union, only_none

    def can_be_none(k):
        return only_none(k) or (isinstance(k, Union) and any(only_none(m) for m in k.members))

    fi = ctx.require("configuration_model.configuration_model")
    f = fi.short

    def len_compares(node, names):
        out = []
        for c in ast.walk(node):
            if isinstance(c, ast.Compare) and len(c.ops) == 1 and isinstance(c.ops[0], (ast.Eq, ast.NotEq)):
                l, r = c.left, c.comparators[0]
                for a, b in ((l, r), (r, l)):
                    if isinstance(a, ast.BinOp) and isinstance(a.op, (ast.Add, ast.Sub)) and isinstance(a.right, ast.Constant):
                        a = a.left  # `len(e) - 1 != order`
                    if isinstance(a, ast.Call) and isinstance(a.func, ast.Name) and a.func.id == "len" and isinstance(b, ast.Name) and b.id in names:
                        out.append((c, b))
        return out

    n = 0
    # in configuration_model itself
    for c, b in len_compares(fi.node, {"size", "order"}):
        k = ctx.interp.kind_at(fi, b)
        n += 1
        res.check(not can_be_none(k), "M-COMPLEMENT", f, norm(c), "size-known", f"`{b.id}` can be None where `{norm(c)}` runs (the caller gave the other of order / size and no conversion dominates): the comparison is then constantly true / false and the complement is every hyperedge or none", loc(fi, c))
    # in helpers that are handed the value
    for cf in ctx.interp.callfacts:
        if cf.caller.qualname != fi.qualname or cf.callee.module is not fi.module:
            continue
        params = {a.arg for a in cf.callee.params}
        guarded = {x.left.id for x in ast.walk(cf.callee.node) if isinstance(x, ast.Compare) and isinstance(x.left, ast.Name) and any(isinstance(o, (ast.Is, ast.IsNot)) for o in x.ops)}
        for c, b in len_compares(cf.callee.node, params - guarded):
            if b.id not in cf.bound:
                continue
            n += 1
            res.check(not can_be_none(cf.bound[b.id]), "M-COMPLEMENT", f, norm(cf.node)[:80], "size-known", f"`{cf.callee.short}` compares `{norm(c)}`, and the `{b.id}` it is handed here can be None (the caller gave `order`; no `size = order + 1` dominates the call): `{norm(c)}` then holds for every hyperedge and the selected ones are re-added next to their reshuffled versions", loc(fi, cf.node))
    if n == 0:
        res.unknown("M-COMPLEMENT", f, "len(e) != size", "size-known", "no comparison of a hyperedge length with the requested size found in configuration_model or the helpers it hands the size to", loc(fi, fi.node))

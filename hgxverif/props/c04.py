from ._containers import run_container

LEVEL_TEXT = (
    "Structural necessary conditions of C04 on MultiplexHypergraph, decided statically: kind inference (units-of-measure for node / "
    "edge id / canonical key / weight / time / layer / size / order) over every table access and call of the class, plus CFG "
    "dominance / must-pass-through rules for the joint update of the tables.  Decides the structure, not the behavioural "
    "equivalence with the abstract model."
)


def run(ctx):
    res = run_container(ctx, "C04", "MultiplexHypergraph")
    return extra(ctx, res)


def extra(ctx, res):
    import ast

    from .. import rules_container as RC
    from ..effects import Effects, check_pure
    from ..model import AnalysisError, loc, norm, walk_no_nested
    from ._clients import DEGREE, check_filter_clients
    from .c03 import check_uniq

    cls = "MultiplexHypergraph"
    res.rules.update({
        "P-LAYERREG": "every record creation registers its layer",
        "K-UNIQ": "the no-repeats guard of a weighted batch ranges over (edge, layer) records, not over node tuples",
        "F-LAYERS": "edge_overlap ranges over all registered layers and accumulates the weight of the same hyperedge in each",
    })
    with res.guard("RC.check_layer_registryctx, res"):
        RC.check_layer_registry(ctx, res)
    # aggregated_hypergraph builds its result through Hypergraph.add_edge and hands it the multiplex's own per-record metadata
    # dicts: "aggregation leaves the multiplex unchanged" rests on Hypergraph.add_edge never updating a stored dict in place
    from ._containers import PATH_RULES

    for r_ in ("P-FRESH", "P-EMETA", "P-ACCUM", "P-ID", "P-ADJ1"):
        res.rules.setdefault(r_, PATH_RULES.get(r_, r_))
    with res.guard("RC.check_add_edge(ctx, res, Hypergraph) - the insertion primitive of aggregated_hypergraph"):
        RC.check_add_edge(ctx, res, "Hypergraph")
    with res.guard("check_uniqctx, res, cls, LAYER"):
        check_uniq(ctx, res, cls, "LAYER")
    eff = Effects(ctx)
    with res.guard("check_purectx, eff, res, overlap.edge_overlap, rootsh,"):
        check_pure(ctx, eff, res, "overlap.edge_overlap", roots=("h",))
    # edge_overlap: loop over get_existing_layers(), accumulate get_weight(edge, layer)
    with res.guard("edge_overlap ranges over the registered layers"):
        v = ctx.view("overlap.edge_overlap")
        loops = [n for n in walk_no_nested(v.fi.node) if isinstance(n, ast.For) and isinstance(v.inline(n.iter), ast.Call) and isinstance(v.inline(n.iter).func, ast.Attribute) and v.inline(n.iter).func.attr == "get_existing_layers"]
        if loops:
            res.ok("F-LAYERS", v.fi.short, "for layer in h.get_existing_layers()", "loop", loc(v.fi, loops[0]))
        else:
            gens = [g for n in ast.walk(v.fi.node) if isinstance(n, (ast.GeneratorExp, ast.ListComp)) for g in n.generators if isinstance(g.iter, ast.Call) and isinstance(g.iter.func, ast.Attribute) and g.iter.func.attr == "get_existing_layers"]
            other_loops = [n for n in walk_no_nested(v.fi.node) if isinstance(n, ast.For)]
            res.add("F-LAYERS", v.fi.short, "for layer in h.get_existing_layers()", "loop", "unknown" if gens or not other_loops else "violation", "edge_overlap does not range over the registered layers", loc(v.fi, v.fi.node))
        for lp in loops:
            tgt = lp.target.id if isinstance(lp.target, ast.Name) else None
            calls = [c for c in ast.walk(lp) if isinstance(c, ast.Call) and ((isinstance(c.func, ast.Attribute) and c.func.attr == "get_weight") or any(cal.short.endswith(".get_weight") for cal in ctx.callees(v.fi, c)))]
            def layer_arg(c):
                kw = {k.arg: k.value for k in c.keywords}
                return kw.get("layer", c.args[1] if len(c.args) >= 2 else None)
            okc = [c for c in calls if isinstance(layer_arg(c), ast.Name) and layer_arg(c).id == tgt]
            bad = [c for c in calls if c not in okc and layer_arg(c) is not None]
            res.add("F-LAYERS", v.fi.short, norm(lp.iter), "weight-of-layer", "ok" if okc and not bad else ("violation" if bad else "unknown"), "" if okc and not bad else "the weight is not looked up for the layer of the current iteration", loc(v.fi, lp))
            augs = [a for a in ast.walk(lp) if isinstance(a, ast.AugAssign) and isinstance(a.op, ast.Add)]
            adds = [a for a in ast.walk(lp) if isinstance(a, ast.Assign) and isinstance(a.value, ast.BinOp) and isinstance(a.value.op, ast.Add)]
            wrong = [a for a in ast.walk(lp) if isinstance(a, ast.AugAssign) and not isinstance(a.op, ast.Add)]
            res.add("F-LAYERS", v.fi.short, norm(lp.iter), "accumulate", "ok" if augs or adds else ("violation" if wrong else "unknown"), "" if augs or adds else "per-layer weights are not summed", loc(v.fi, lp))
    with res.guard("check_filter_clientsctx, res, DEGREE:2"):
        check_filter_clients(ctx, res, DEGREE[:2])
    with res.guard("general lint pack over the property's files"):
        from ..lints import check_pack

        check_pack(ctx, res, "C04")
    return res

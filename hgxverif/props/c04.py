from ._containers import run_container

LEVEL_TEXT = (
    "Structural necessary conditions of C04 on MultiplexHypergraph, decided statically: kind inference (units-of-measure for node / "
    "edge id / canonical key / weight / time / layer / size / order) over every table access and call of the class, plus CFG "
    "dominance / must-pass-through rules for the joint update of the tables.  Decides the structure, not the behavioural "
    "equivalence with the abstract model."
)


def run(ctx):
    res = run_container(ctx, "C04", "MultiplexHypergraph")
    return extra(ctx, res)


def extra(ctx, res):
    import ast

    from .. import rules_container as RC
    from ..effects import Effects, check_pure
    from ..model import AnalysisError, loc, norm, walk_no_nested
    from ._clients import DEGREE, check_filter_clients
    from .c03 import check_uniq

    cls = "MultiplexHypergraph"
    res.rules.update({
        "P-LAYERREG": "every record creation registers its layer",
        "K-UNIQ": "the no-repeats guard of a weighted batch ranges over (edge, layer) records, not over node tuples",
        "F-LAYERS": "edge_overlap ranges over all registered layers and accumulates the weight of the same hyperedge in each",
    })
    with res.guard("RC.check_layer_registryctx, res"):
        RC.check_layer_registry(ctx, res)
    with res.guard("check_uniqctx, res, cls, LAYER"):
        check_uniq(ctx, res, cls, "LAYER")
    eff = Effects(ctx)
    with res.guard("check_purectx, eff, res, overlap.edge_overlap, rootsh,"):
        check_pure(ctx, eff, res, "overlap.edge_overlap", roots=("h",))
    # edge_overlap: loop over get_existing_layers(), accumulate get_weight(edge, layer)
    v = ctx.view("overlap.edge_overlap")
    loops = [n for n in walk_no_nested(v.fi.node) if isinstance(n, ast.For) and isinstance(n.iter, ast.Call) and isinstance(n.iter.func, ast.Attribute) and n.iter.func.attr == "get_existing_layers"]
    res.check(bool(loops), "F-LAYERS", v.fi.short, "for layer in h.get_existing_layers()", "loop", "edge_overlap does not range over the registered layers", loc(v.fi, v.fi.node))
    for lp in loops:
        tgt = lp.target.id if isinstance(lp.target, ast.Name) else None
        calls = [c for c in ast.walk(lp) if isinstance(c, ast.Call) and isinstance(c.func, ast.Attribute) and c.func.attr == "get_weight"]
        okc = [c for c in calls if len(c.args) >= 2 and isinstance(c.args[1], ast.Name) and c.args[1].id == tgt]
        res.check(bool(okc), "F-LAYERS", v.fi.short, norm(lp.iter), "weight-of-layer", "the weight is not looked up for the layer of the current iteration", loc(v.fi, lp))
        augs = [a for a in ast.walk(lp) if isinstance(a, ast.AugAssign) and isinstance(a.op, ast.Add)]
        res.check(bool(augs), "F-LAYERS", v.fi.short, norm(lp.iter), "accumulate", "per-layer weights are not summed", loc(v.fi, lp))
    with res.guard("check_filter_clientsctx, res, DEGREE:2"):
        check_filter_clients(ctx, res, DEGREE[:2])
    return res

import ast

from .. import cmpshape as M
from .. import forward as F
from ..kinds import Atom, elem_of
from ..model import AnalysisError, loc, norm, walk_no_nested
from ..report import Result
from ..rules_container import _atoms, _implied_branch
from ._containers import KIND_RULES

LEVEL_TEXT = (
    "Structural necessary conditions of C12, decided statically: in/out degree read the source / target incidence of the node with "
    "the order/size filter forwarded and their sequences range over every node once; the signature vector indexes rows by the source "
    "size and columns by the target size, adds exactly one per listed hyperedge and bounds the listing by the bound that sized the "
    "array; in the three reciprocity siblings every accumulator update of the counting loop is control-dependent on the size guard "
    "2 <= size <= bound, counts are incremented by one, ratios are guarded against empty sizes, and exact reciprocity looks up the "
    "swapped pair.  Decides the structure, not exact <= strong <= weak."
)

ROLE_OF = {"in_degree": "get_source_edges", "out_degree": "get_target_edges"}  # C12 statement: in = "is a source", out = "is a target"
SIBLINGS = ["reciprocity.exact_reciprocity", "reciprocity.strong_reciprocity", "reciprocity.weak_reciprocity"]


def _accumulators(fn):
    """names bound at function level (before / outside loops) to dict / set displays or comprehensions"""
    out = set()
    for st in fn.body:
        if isinstance(st, ast.Assign) and len(st.targets) == 1 and isinstance(st.targets[0], ast.Name) and isinstance(st.value, (ast.Dict, ast.DictComp, ast.Set, ast.SetComp, ast.List, ast.ListComp, ast.Call)):
            out.add(st.targets[0].id)
    return out


def _writes_to(names, loop):
    """(node, name) for every write to one of `names` inside `loop`"""
    out = []
    for n in ast.walk(loop):
        if isinstance(n, (ast.Assign, ast.AugAssign)):
            tg = n.targets if isinstance(n, ast.Assign) else [n.target]
            for t in tg:
                base = t
                while isinstance(base, ast.Subscript):
                    base = base.value
                if isinstance(base, ast.Name) and base.id in names and isinstance(t, (ast.Subscript, ast.Name)):
                    out.append((n, base.id))
        if isinstance(n, ast.Call) and isinstance(n.func, ast.Attribute) and n.func.attr in ("add", "update", "append", "setdefault", "extend", "pop", "remove", "discard"):
            base = n.func.value
            while isinstance(base, (ast.Subscript, ast.Call, ast.Attribute)):
                base = base.value if isinstance(base, (ast.Subscript, ast.Attribute)) else (base.func.value if isinstance(base.func, ast.Attribute) else base.func)
            if isinstance(base, ast.Name) and base.id in names:
                out.append((n, base.id))
    return out


def run(ctx):
    res = Result("C12")
    res.rules.update({k: KIND_RULES[k] for k in ("C-SIG", "K-ARG", "K-KEY-LOCAL")})
    res.rules.update({
        "K-ROLE": "in_degree counts get_source_edges, out_degree get_target_edges; signature rows <- source size, columns <- target size; exact reciprocity looks up (target, source)",
        "F-FWD": "the order/size filter is forwarded",
        "D-SEQ": "degree sequences range over every node of get_nodes() once and store the degree of that node",
        "G-DOM": "every accumulator update in the counting loop of a reciprocity function is control-dependent on the size guard",
        "M-SIZEGUARD": "the size guard is 2 <= size <= max_hyperedge_size with size = len(source) + len(target)",
        "D-INC": "counts are incremented by exactly one per hyperedge",
        "G-RATIO": "ratios are computed under a `tot != 0` guard and are 0 otherwise",
        "B-BOUND": "the signature listing is bounded by the same bound that sized the array",
    })
    files = ["hypergraphx/measures/directed/degree.py", "hypergraphx/measures/directed/hyperedge_signature.py", "hypergraphx/measures/directed/reciprocity.py"]
    ctx.add_sites(res, ctx.sites(rules=("C-SIG", "K-ARG", "K-KEY-LOCAL", "K-SIZE", "K-MEM"), files=files))

    # ---- degrees
    with res.guard("degrees"):
        for fn, meth in ROLE_OF.items():
            v = ctx.view(f"degree.{fn}")
            # (two modules are called degree.py: pick the directed one)
            if "directed" not in v.fi.module.name:
                v = ctx.view(ctx.prog.functions[f"hypergraphx.measures.directed.degree.{fn}"])
            f = v.fi.short
            calls = [n for n in ast.walk(v.fi.node) if isinstance(n, ast.Call) and isinstance(n.func, ast.Attribute) and n.func.attr in ("get_source_edges", "get_target_edges", "get_incident_edges")]
            res.check(bool(calls) and all(c.func.attr == meth for c in calls), "K-ROLE", f, norm(calls[0]) if calls else meth, "role", f"{fn} does not count the hyperedges returned by {meth}", loc(v.fi, v.fi.node))
            res.check(all(c.args and norm(c.args[0]) == "node" for c in calls), "K-ROLE", f, norm(calls[0]) if calls else meth, "same-node", "the incident list of another node is counted", loc(v.fi, v.fi.node))
            rets = [n for n in ast.walk(v.fi.node) if isinstance(n, ast.Return)]
            res.check(all(isinstance(r.value, ast.Call) and isinstance(r.value.func, ast.Name) and r.value.func.id == "len" for r in rets), "K-ROLE", f, norm(rets[0]), "len", "the degree is not the length of the role-specific incident list", loc(v.fi, rets[0]))
            with res.guard("F.check_usectx, res, v.fi, order, size"):
                F.check_use(ctx, res, v.fi, ("order", "size"))
            with res.guard("F.check_forwardingctx, res, v.fi"):
                F.check_forwarding(ctx, res, [v.fi])
            with res.guard("M.check_none_testsctx, res, v.fi"):
                M.check_none_tests(ctx, res, v.fi)
        for fn, inner in (("in_degree_sequence", "in_degree"), ("out_degree_sequence", "out_degree")):
            v = ctx.view(ctx.prog.functions[f"hypergraphx.measures.directed.degree.{fn}"])
            f = v.fi.short
            comps = [n for n in ast.walk(v.fi.node) if isinstance(n, ast.DictComp)]
            if not comps:
                raise AnalysisError(f"{f}: dict comprehension idiom not found")
            for c in comps:
                g = c.generators[0]
                tgt = g.target.id if isinstance(g.target, ast.Name) else None
                it_ok = isinstance(g.iter, ast.Call) and isinstance(g.iter.func, ast.Attribute) and g.iter.func.attr == "get_nodes" and not g.ifs
                val_ok = isinstance(c.value, ast.Call) and isinstance(c.value.func, ast.Name) and c.value.func.id == inner and len(c.value.args) >= 2 and norm(c.value.args[1]) == tgt and isinstance(c.key, ast.Name) and c.key.id == tgt
                res.check(it_ok, "D-SEQ", f, norm(c), "all-nodes", "the sequence does not list every node of get_nodes() once", loc(v.fi, c))
                res.check(val_ok, "D-SEQ", f, norm(c), "same-node", f"the value stored for a node is not {inner}(hg, <that node>)", loc(v.fi, c))
            with res.guard("F.check_forwardingctx, res, v.fi"):
                F.check_forwarding(ctx, res, [v.fi])
            with res.guard("F.check_usectx, res, v.fi, order, size"):
                F.check_use(ctx, res, v.fi, ("order", "size"))
    # ---- signature vector
    with res.guard("signature vector"):
        v = ctx.view("hyperedge_signature.hyperedge_signature_vector")
        f = v.fi.short
        augs = [n for n in walk_no_nested(v.fi.node) if isinstance(n, ast.AugAssign) and isinstance(n.target, ast.Subscript)]
        if len(augs) != 1:
            raise AnalysisError(f"{f}: accumulation idiom not recognised")
        a = augs[0]
        res.check(isinstance(a.op, ast.Add) and isinstance(a.value, ast.Constant) and a.value.value == 1, "D-INC", f, norm(a), "one-per-edge", "a hyperedge does not contribute exactly 1 to its cell", loc(v.fi, a))
        idx = a.target.slice.elts if isinstance(a.target.slice, ast.Tuple) else []
        roles = []
        for e in idx:
            role = None
            names = [x.id for x in ast.walk(e) if isinstance(x, ast.Name)]
            for nm in names:
                defs = [m for m in walk_no_nested(v.fi.node) if isinstance(m, ast.Assign) and isinstance(m.targets[0], ast.Name) and m.targets[0].id == nm]
                for dfn in defs:
                    for x in ast.walk(dfn.value):
                        if isinstance(x, ast.Subscript) and isinstance(x.slice, ast.Constant) and x.slice.value in (0, 1):
                            k = elem_of(v.kind(x))
                            role = (k.role if isinstance(k, Atom) and k.role else {0: "SRC", 1: "TGT"}[x.slice.value])
            off = isinstance(e, ast.BinOp) and isinstance(e.op, ast.Sub) and isinstance(e.right, ast.Constant) and e.right.value == 1
            roles.append((role, off))
        res.check(len(roles) == 2 and roles[0][0] == "SRC" and roles[1][0] == "TGT", "K-ROLE", f, norm(a.target), "row=source,col=target", f"the signature cell is indexed by ({roles[0][0] if roles else '?'}, {roles[1][0] if len(roles) > 1 else '?'}) sizes instead of (source, target)", loc(v.fi, a))
        res.check(len(roles) == 2 and all(o for _, o in roles), "K-ROLE", f, norm(a.target), "size-1", "cell indices are not (size - 1)", loc(v.fi, a))
        lp = v.enclosing(a, (ast.For,))
        zeros = [n for n in walk_no_nested(v.fi.node) if isinstance(n, ast.Call) and isinstance(n.func, ast.Attribute) and n.func.attr == "zeros"]
        bound_names = {x.id for z in zeros for x in ast.walk(z) if isinstance(x, ast.Name)} - {"np"}
        ok = False
        why = "the listing of hyperedges is not bounded by the bound that sized the array: a larger hyperedge indexes outside the array (or is counted)"
        if lp is not None and isinstance(lp.iter, ast.Call) and isinstance(lp.iter.func, ast.Attribute) and lp.iter.func.attr == "get_edges":
            kw = {k.arg: k.value for k in lp.iter.keywords}
            ok = "size" in kw and norm(kw["size"]) in bound_names and "up_to" in kw and isinstance(kw["up_to"], ast.Constant) and kw["up_to"].value is True
        if not ok and lp is not None:
            # explicit guard idiom inside the loop
            for n in ast.walk(lp):
                if isinstance(n, ast.If) and any(nm in norm(n.test) for nm in bound_names) and ("<=" in norm(n.test) or ">" in norm(n.test)):
                    ok = True
        res.check(ok, "B-BOUND", f, norm(lp.iter) if lp is not None else "for hyperedge in ...", "bounded-listing", why, loc(v.fi, lp if lp is not None else v.fi.node))
    # ---- reciprocity siblings
    with res.guard("reciprocity siblings"):
        for d in SIBLINGS:
            v = ctx.view(d)
            f = v.fi.short
            accs = _accumulators(v.fi.node)
            loops = [n for n in v.fi.node.body if isinstance(n, ast.For)]
            if len(loops) < 3:
                raise AnalysisError(f"{f}: expected counting / matching / ratio loops")
            first = loops[0]
            guards = []
            for n in ast.walk(first):
                if isinstance(n, ast.If):
                    for atom, _ in _atoms(n.test, True):
                        if isinstance(atom, ast.Compare) and len(atom.ops) == 2 and norm(atom.comparators[1]) == "max_hyperedge_size":
                            guards.append((n, atom))
            res.check(len(guards) == 1, "M-SIZEGUARD", f, norm(guards[0][1]) if guards else "2 <= size <= max_hyperedge_size", "exists", "the counting loop has no (single) size guard against max_hyperedge_size", loc(v.fi, first))
            for ifn, atom in guards:
                ok = isinstance(atom.left, ast.Constant) and atom.left.value == 2 and all(isinstance(o, ast.LtE) for o in atom.ops)
                res.check(ok, "M-SIZEGUARD", f, norm(atom), "2<=size<=B", "the size guard is not `2 <= size <= max_hyperedge_size`", loc(v.fi, ifn))
                sz = atom.comparators[0]
                defs = [m for m in ast.walk(first) if isinstance(m, ast.Assign) and isinstance(m.targets[0], ast.Name) and isinstance(sz, ast.Name) and m.targets[0].id == sz.id]
                k = v.kind(defs[-1].value) if defs else None
                from ..kinds import SIZE

                res.add("M-SIZEGUARD", f, norm(defs[-1]) if defs else norm(sz), "size=|src|+|tgt|", "ok" if k == SIZE else "unknown", "" if k == SIZE else f"kind {k!r}", loc(v.fi, ifn))
                lab = _implied_branch(ifn.test, atom, True)
                tid = v.cfg.by_ast[id(ifn.test)]
                for w, name in _writes_to(accs, first):
                    wid = v.cfg_id(w)
                    dom = lab is not None and v.cfg.branch_dominated(tid, lab, wid)
                    res.check(dom, "G-DOM", f, norm(w), name, f"`{name}` is updated for hyperedges that fail the size guard: hyperedges larger than the bound influence the result", loc(v.fi, w))
            # D-INC: tot / rec incremented by 1
            for lp_ in loops[:2]:
                for n in ast.walk(lp_):
                    if isinstance(n, ast.AugAssign) and isinstance(n.target, ast.Subscript) and norm(n.target.value) in ("tot", "rec"):
                        res.check(isinstance(n.op, ast.Add) and isinstance(n.value, ast.Constant) and n.value.value == 1, "D-INC", f, norm(n), norm(n.target.value), "a hyperedge is not counted exactly once", loc(v.fi, n))
                        depth = len([x for x in v.enclosing_all(n, (ast.For, ast.While))])
                        res.check(depth == 1, "D-INC", f, norm(n), norm(n.target.value) + ":depth", "the count is incremented inside an inner loop: a hyperedge can be counted several times", loc(v.fi, n))
            # G-RATIO
            last = loops[-1]
            divs = [n for n in ast.walk(last) if isinstance(n, ast.BinOp) and isinstance(n.op, ast.Div)]
            res.check(bool(divs), "G-RATIO", f, "rec[size] / tot[size]", "ratio", "the ratio rec/tot is not computed", loc(v.fi, last))
            for dv in divs:
                ifs = v.enclosing_all(dv, (ast.If,))
                ok = any("tot" in norm(i.test) and ("!= 0" in norm(i.test) or "> 0" in norm(i.test)) and any(dv is x for b in i.body for x in ast.walk(b)) for i in ifs)
                res.check(ok and norm(dv.left).startswith("rec") and norm(dv.right).startswith("tot"), "G-RATIO", f, norm(dv), "guarded", "the ratio is not rec/tot under a `tot != 0` guard", loc(v.fi, dv))
                for i in ifs:
                    z = [x for b in i.orelse for x in ast.walk(b) if isinstance(x, ast.Assign) and isinstance(x.value, ast.Constant) and x.value.value == 0]
                    res.check(bool(z), "G-RATIO", f, norm(i.test), "zero-otherwise", "sizes without hyperedges do not yield 0", loc(v.fi, i))
    # ---- E-SHAREDVAL: values stored into an accumulator inside a loop are created in that very iteration
    with res.guard("E-SHAREDVAL: values stored into an accumulator inside a loop are created in that very iteration"):
        res.rules["E-SHAREDVAL"] = "a mutable object stored as the value of several accumulator entries is created per entry (no one set shared between keys) when entries are later updated in place"
        for d in SIBLINGS:
            v = ctx.view(d)
            f = v.fi.short
            accs = _accumulators(v.fi.node)
            inplace = set()
            for n in ast.walk(v.fi.node):
                if isinstance(n, ast.Call) and isinstance(n.func, ast.Attribute) and n.func.attr in ("update", "add", "append", "extend", "discard", "remove", "intersection_update", "difference_update") and isinstance(n.func.value, ast.Subscript) and isinstance(n.func.value.value, ast.Name) and n.func.value.value.id in accs:
                    inplace.add(n.func.value.value.id)
                if isinstance(n, ast.AugAssign) and isinstance(n.target, ast.Subscript) and isinstance(n.target.value, ast.Name) and n.target.value.id in accs and isinstance(n.op, (ast.BitOr, ast.BitAnd, ast.Sub)):
                    inplace.add(n.target.value.id)
            n_checked = 0
            for n in ast.walk(v.fi.node):
                if isinstance(n, ast.Assign) and isinstance(n.targets[0], ast.Subscript) and isinstance(n.targets[0].value, ast.Name) and n.targets[0].value.id in accs and isinstance(n.value, ast.Name):
                    acc, val = n.targets[0].value.id, n.value.id
                    loops = v.enclosing_all(n, (ast.For, ast.While))
                    if not loops:
                        continue
                    inner = loops[0]
                    defs = [m for m in ast.walk(v.fi.node) if isinstance(m, ast.Assign) and isinstance(m.targets[0], ast.Name) and m.targets[0].id == val]
                    mutable = [m for m in defs if isinstance(m.value, (ast.Set, ast.List, ast.Dict, ast.SetComp, ast.ListComp, ast.DictComp)) or (isinstance(m.value, ast.Call) and isinstance(m.value.func, ast.Name) and m.value.func.id in ("set", "list", "dict"))]
                    outside = [m for m in mutable if not any(m is x for x in ast.walk(inner))]
                    if mutable:
                        n_checked += 1
                        bad = bool(outside) and acc in inplace
                        res.check(not bad, "E-SHAREDVAL", f, norm(n), acc, f"`{val}` is created once outside the loop over the keys and stored under each of them, and entries of `{acc}` are updated in place elsewhere: an update of one entry leaks into all entries sharing the object", loc(v.fi, n))
            res.ok("E-SHAREDVAL", f, f"{n_checked} aliasing stores examined; in-place updated accumulators: {sorted(inplace)}", "scan", loc(v.fi, v.fi.node))
        # exact: swapped pair
        v = ctx.view("reciprocity.exact_reciprocity")
        sw = [n for n in walk_no_nested(v.fi.node) if isinstance(n, ast.Tuple) and len(n.elts) == 2 and all(isinstance(e, ast.Subscript) and isinstance(e.slice, ast.Constant) for e in n.elts) and [e.slice.value for e in n.elts] == [1, 0] and norm(n.elts[0].value) == norm(n.elts[1].value)]
        res.check(bool(sw), "K-ROLE", v.fi.short, norm(sw[0]) if sw else "(edge[1], edge[0])", "swapped-pair", "exact reciprocity does not look up the hyperedge with source and target exchanged", loc(v.fi, v.fi.node))
    res.assumptions += ["in_degree counts hyperedges in which the node is a SOURCE and out_degree those in which it is a TARGET - the property's own wording, frozen in ROLE_OF"]
    return res

import ast

from .. import cmpshape as M
from .. import forward as F
from ..kinds import Atom, elem_of
from ..model import AnalysisError, loc, norm, walk_no_nested
from ..report import Result
from ..rules_container import _atoms, _implied_branch
from ._containers import KIND_RULES

LEVEL_TEXT = (
    "Structural necessary conditions of C12, decided statically: in/out degree read the source / target incidence of the node with "
    "the order/size filter forwarded and their sequences range over every node once; the signature vector indexes rows by the source "
    "size and columns by the target size, adds exactly one per listed hyperedge and bounds the listing by the bound that sized the "
    "array; in the three reciprocity siblings every accumulator update of the counting loop is control-dependent on the size guard "
    "2 <= size <= bound, counts are incremented by one, ratios are guarded against empty sizes, and exact reciprocity looks up the "
    "swapped pair.  Decides the structure, not exact <= strong <= weak."
)

ROLE_OF = {"in_degree": "get_source_edges", "out_degree": "get_target_edges"}  # C12 statement: in = "is a source", out = "is a target"
SIBLINGS = ["reciprocity.exact_reciprocity", "reciprocity.strong_reciprocity", "reciprocity.weak_reciprocity"]


def _accumulators(fn):
    """names bound at function level (before / outside loops) to dict / set displays or comprehensions"""
    out = set()
    for st in fn.body:
        if isinstance(st, ast.Assign) and len(st.targets) == 1 and isinstance(st.targets[0], ast.Name) and isinstance(st.value, (ast.Dict, ast.DictComp, ast.Set, ast.SetComp, ast.List, ast.ListComp, ast.Call)):
            out.add(st.targets[0].id)
    return out


def _writes_to(names, loop):
    """(node, name) for every write to one of `names` inside `loop`"""
    out = []
    for n in ast.walk(loop):
        if isinstance(n, (ast.Assign, ast.AugAssign)):
            tg = n.targets if isinstance(n, ast.Assign) else [n.target]
            for t in tg:
                base = t
                while isinstance(base, ast.Subscript):
                    base = base.value
                if isinstance(base, ast.Name) and base.id in names and isinstance(t, (ast.Subscript, ast.Name)):
                    out.append((n, base.id))
        if isinstance(n, ast.Call) and isinstance(n.func, ast.Attribute) and n.func.attr in ("add", "update", "append", "setdefault", "extend", "pop", "remove", "discard"):
            base = n.func.value
            while isinstance(base, (ast.Subscript, ast.Call, ast.Attribute)):
                base = base.value if isinstance(base, (ast.Subscript, ast.Attribute)) else (base.func.value if isinstance(base.func, ast.Attribute) else base.func)
            if isinstance(base, ast.Name) and base.id in names:
                out.append((n, base.id))
    return out


def _counted_call(e):
    """the call whose result is counted by `e`: len(X) / len(list(X)) / sum(1 for _ in X), else None"""
    if isinstance(e, ast.Call) and isinstance(e.func, ast.Name) and e.func.id == "len" and len(e.args) == 1:
        inner = e.args[0]
        if isinstance(inner, ast.Call) and isinstance(inner.func, ast.Name) and inner.func.id in ("list", "tuple") and inner.args:
            inner = inner.args[0]
        return inner if isinstance(inner, ast.Call) else None
    if isinstance(e, ast.Call) and isinstance(e.func, ast.Name) and e.func.id == "sum" and len(e.args) == 1 and isinstance(e.args[0], ast.GeneratorExp):
        g = e.args[0]
        if isinstance(g.elt, ast.Constant) and g.elt.value == 1 and len(g.generators) == 1 and not g.generators[0].ifs and isinstance(g.generators[0].iter, ast.Call):
            return g.generators[0].iter
    return None


def _exact_bound(res, v, f, acc, guards, bound_names, role_of):
    """The explicit size guard in front of the accumulation, as a truth table over (|source|, |target|, bound): the cell is
    reached exactly when |source| + |target| <= bound (the hyperedges of total size up to the bound)."""
    import copy

    from .. import predtab

    aid = v.cfg_id(acc)

    class Sub(ast.NodeTransformer):
        def visit_Call(self, n):
            if isinstance(n.func, ast.Name) and n.func.id == "len" and n.args:
                r = role_of(n)
                if r in ("SRC", "TGT"):
                    return ast.Name(id="s" if r == "SRC" else "t", ctx=ast.Load())
            return self.generic_visit(n)

        def visit_Name(self, n):
            return ast.Name(id="B", ctx=ast.Load()) if n.id in bound_names else n

    conds = []
    for i in guards:
        tid = v.cfg.by_ast.get(id(i.test))
        for lab in ("T", "F"):
            if tid is not None and v.cfg.branch_dominated(tid, lab, aid):
                t = Sub().visit(v.inline(i.test))
                conds.append(t if lab == "T" else ast.UnaryOp(op=ast.Not(), operand=t))
    if not conds:
        return
    test = conds[0] if len(conds) == 1 else ast.BoolOp(op=ast.And(), values=conds)
    tab = predtab.table(test, ["s", "t", "B"], lo=1, hi=7)
    if tab is None:
        res.unknown("B-BOUND", f, norm(guards[0].test), "total-size<=bound", "the size guard is not a plain comparison of the two side sizes with the bound", loc(v.fi, guards[0]))
        return
    over = [k for k, val in tab.items() if k[2] >= 2 and val and k[0] + k[1] > k[2]]
    under = [k for k, val in tab.items() if k[2] >= 2 and not val and k[0] + k[1] <= k[2]]
    if over:
        s_, t_, b_ = over[0]
        res.violation("B-BOUND", f, norm(guards[0].test), "total-size<=bound", f"the guard lets a hyperedge with |source|={s_}, |target|={t_} (total size {s_ + t_}) through for bound {b_}: hyperedges larger than the bound are counted", loc(v.fi, guards[0]))
    elif under:
        s_, t_, b_ = under[0]
        res.violation("B-BOUND", f, norm(guards[0].test), "total-size<=bound", f"the guard drops a hyperedge with |source|={s_}, |target|={t_} (total size {s_ + t_}) for bound {b_}: hyperedges within the bound are not counted", loc(v.fi, guards[0]))
    else:
        res.ok("B-BOUND", f, norm(guards[0].test), "total-size<=bound", loc(v.fi, guards[0]))


def run(ctx):
    res = Result("C12")
    res.rules.update({k: KIND_RULES[k] for k in ("C-SIG", "K-ARG", "K-KEY-LOCAL")})
    res.rules.update({
        "K-ROLE": "in_degree counts get_source_edges, out_degree get_target_edges; signature rows <- source size, columns <- target size; exact reciprocity looks up (target, source)",
        "F-FWD": "the order/size filter is forwarded",
        "D-SEQ": "degree sequences range over every node of get_nodes() once and store the degree of that node",
        "G-DOM": "every accumulator update in the counting loop of a reciprocity function is control-dependent on the size guard",
        "M-SIZEGUARD": "the size guard is 2 <= size <= max_hyperedge_size with size = len(source) + len(target)",
        "D-INC": "counts are incremented by exactly one per hyperedge",
        "G-RATIO": "ratios are computed under a `tot != 0` guard and are 0 otherwise",
        "B-BOUND": "the signature listing is bounded by the same bound that sized the array",
    })
    files = ["hypergraphx/measures/directed/degree.py", "hypergraphx/measures/directed/hyperedge_signature.py", "hypergraphx/measures/directed/reciprocity.py"]
    ctx.add_sites(res, ctx.sites(rules=("C-SIG", "K-ARG", "K-KEY-LOCAL", "K-SIZE", "K-MEM"), files=files))

    # ---- degrees
    with res.guard("degrees"):
        for fn, meth in ROLE_OF.items():
            v = ctx.view(ctx.prog.functions[f"hypergraphx.measures.directed.degree.{fn}"])
            f = v.fi.short
            calls = [n for n in ast.walk(v.fi.node) if isinstance(n, ast.Call) and isinstance(n.func, ast.Attribute) and n.func.attr in ("get_source_edges", "get_target_edges", "get_incident_edges")]
            if not calls:
                res.unknown("K-ROLE", f, meth, "role", f"no call of a role-specific incidence query found in {fn}", loc(v.fi, v.fi.node))
            else:
                res.check(all(c.func.attr == meth for c in calls), "K-ROLE", f, norm(calls[0]), "role", f"{fn} does not count the hyperedges returned by {meth}", loc(v.fi, v.fi.node))
                res.check(all(c.args and norm(v.inline(c.args[0])) == "node" for c in calls), "K-ROLE", f, norm(calls[0]), "same-node", "the incident list of another node is counted", loc(v.fi, v.fi.node))
            for r in [n for n in ast.walk(v.fi.node) if isinstance(n, ast.Return) and n.value is not None]:
                e = v.inline(r.value)
                inner = _counted_call(e)
                good = inner is not None and isinstance(inner.func, ast.Attribute) and inner.func.attr in ("get_source_edges", "get_target_edges")
                # positively another quantity: the count of something that is not a role-specific incident list
                other = inner is not None and isinstance(inner.func, ast.Attribute) and inner.func.attr in ("get_neighbors", "get_edges", "get_nodes", "get_incident_edges")
                res.add("K-ROLE", f, norm(r), "len", "ok" if good else ("violation" if other else "unknown"), "" if good else "the degree is not the length of the role-specific incident list", loc(v.fi, r))
            with res.guard("F.check_usectx, res, v.fi, order, size"):
                F.check_use(ctx, res, v.fi, ("order", "size"))
            with res.guard("F.check_forwardingctx, res, v.fi"):
                F.check_forwarding(ctx, res, [v.fi])
            with res.guard("M.check_none_testsctx, res, v.fi"):
                M.check_none_tests(ctx, res, v.fi)
        for fn, inner in (("in_degree_sequence", "in_degree"), ("out_degree_sequence", "out_degree")):
            v = ctx.view(ctx.prog.functions[f"hypergraphx.measures.directed.degree.{fn}"])
            f = v.fi.short
            forms = []
            for n in ast.walk(v.fi.node):
                if isinstance(n, ast.DictComp):
                    g = n.generators[0]
                    forms.append((n, g.iter, bool(g.ifs) or len(n.generators) != 1, g.target.id if isinstance(g.target, ast.Name) else None, n.key, n.value))
                if isinstance(n, ast.For) and isinstance(n.target, ast.Name):
                    for st in ast.walk(n):
                        if isinstance(st, ast.Assign) and len(st.targets) == 1 and isinstance(st.targets[0], ast.Subscript) and isinstance(st.targets[0].value, ast.Name):
                            forms.append((n, n.iter, st not in n.body, n.target.id, st.targets[0].slice, st.value))
            if not forms:
                rets = [r for r in ast.walk(v.fi.node) if isinstance(r, ast.Return) and isinstance(r.value, ast.Call) and ctx.callees(v.fi, r.value)]
                names = {x.id for r in rets for x in ast.walk(r.value) if isinstance(x, ast.Name)}
                other = {"in_degree", "out_degree"} - {inner}
                if rets and (names & other) and inner not in names:
                    res.violation("D-SEQ", f, norm(rets[0]), "same-node", f"the sequence is built from {sorted(names & other)[0]} instead of {inner}", loc(v.fi, rets[0]))
                else:
                    res.unknown("D-SEQ", f, "{node: degree(node) for node in hg.get_nodes()}", "all-nodes", "neither a dict comprehension nor a filling loop found (delegated to a helper?)", loc(v.fi, v.fi.node))
            for c, it, filtered, tgt, key, val in forms:
                it = v.inline(it)
                it_ok = isinstance(it, ast.Call) and isinstance(it.func, ast.Attribute) and it.func.attr == "get_nodes" and not filtered
                val = v.inline(val)
                key_ok = isinstance(key, ast.Name) and key.id == tgt
                val_st = "unknown"
                if isinstance(val, ast.Call) and isinstance(val.func, ast.Name) and val.func.id in ("in_degree", "out_degree"):
                    val_st = "ok" if val.func.id == inner and len(val.args) >= 2 and norm(val.args[1]) == tgt else "violation"
                else:
                    # the count written out in place: the role-specific incident list of the same node
                    cc = _counted_call(val)
                    want = ROLE_OF.get(inner)
                    if cc is not None and isinstance(cc.func, ast.Attribute) and cc.func.attr in ("get_source_edges", "get_target_edges"):
                        val_st = "ok" if cc.func.attr == want and cc.args and norm(cc.args[0]) == tgt else "violation"
                res.check(it_ok, "D-SEQ", f, norm(c)[:160], "all-nodes", "the sequence does not list every node of get_nodes() once", loc(v.fi, c))
                st_ = "ok" if key_ok and val_st == "ok" else ("violation" if val_st == "violation" or (isinstance(key, ast.Name) and not key_ok) else "unknown")
                res.add("D-SEQ", f, norm(c)[:160], "same-node", st_, "" if st_ == "ok" else f"the value stored for a node is not {inner}(hg, <that node>)", loc(v.fi, c))
            with res.guard("F.check_forwardingctx, res, v.fi"):
                F.check_forwarding(ctx, res, [v.fi])
            with res.guard("F.check_usectx, res, v.fi, order, size"):
                F.check_use(ctx, res, v.fi, ("order", "size"))
    # ---- signature vector
    with res.guard("signature vector"):
        v = ctx.view("hyperedge_signature.hyperedge_signature_vector")
        f = v.fi.short
        augs = [n for n in walk_no_nested(v.fi.node) if isinstance(n, ast.AugAssign) and isinstance(n.target, ast.Subscript)]
        if len(augs) != 1:
            raise AnalysisError(f"{f}: accumulation idiom not recognised")
        a = augs[0]
        one = isinstance(a.op, ast.Add) and isinstance(a.value, ast.Constant) and a.value.value == 1
        tallied = False
        if isinstance(a.op, ast.Add) and isinstance(a.value, ast.Name):
            # `for cell, count in Counter(<one cell per hyperedge>).items(): signature[cell] += count`
            lp_ = v.enclosing(a, (ast.For,))
            it_ = v.inline(lp_.iter) if lp_ is not None else None
            tallied = lp_ is not None and isinstance(lp_.target, ast.Tuple) and len(lp_.target.elts) == 2 and norm(lp_.target.elts[1]) == a.value.id and isinstance(it_, ast.Call) and isinstance(it_.func, ast.Attribute) and it_.func.attr == "items" and isinstance(it_.func.value, ast.Call) and norm(it_.func.value.func).split(".")[-1] == "Counter"
        res.add("D-INC", f, norm(a), "one-per-edge", "ok" if one or tallied else ("violation" if isinstance(a.value, ast.Constant) or not isinstance(a.op, ast.Add) else "unknown"), "" if one or tallied else "a hyperedge does not contribute exactly 1 to its cell", loc(v.fi, a))
        idx = a.target.slice.elts if isinstance(a.target.slice, ast.Tuple) else []

        def role_of(e):
            """role of the side whose size indexes the cell: from the kind of what len() measures, else from [0]/[1]"""
            e = v.inline(e)
            for x in ast.walk(e):
                if isinstance(x, ast.Call) and isinstance(x.func, ast.Name) and x.func.id == "len" and x.args:
                    k = elem_of(v.kind(x.args[0]))
                    if isinstance(k, Atom) and k.role:
                        return k.role
                    for y in ast.walk(x.args[0]):
                        if isinstance(y, ast.Subscript) and isinstance(y.slice, ast.Constant) and y.slice.value in (0, 1):
                            return {0: "SRC", 1: "TGT"}[y.slice.value]
            return None

        roles = [role_of(e) for e in idx]
        offs = []
        for e in idx:
            ie = v.inline(e)
            offs.append(True if (isinstance(ie, ast.BinOp) and isinstance(ie.op, ast.Sub) and isinstance(ie.right, ast.Constant) and ie.right.value == 1) else (False if isinstance(ie, (ast.Call, ast.Name)) or (isinstance(ie, ast.BinOp) and isinstance(ie.right, ast.Constant)) else None))
        if len(roles) == 2 and None not in roles:
            res.check(roles == ["SRC", "TGT"], "K-ROLE", f, norm(a.target), "row=source,col=target", f"the signature cell is indexed by ({roles[0]}, {roles[1]}) sizes instead of (source, target)", loc(v.fi, a))
        else:
            res.unknown("K-ROLE", f, norm(a.target), "row=source,col=target", "the sides whose sizes index the cell were not identified", loc(v.fi, a))
        if len(offs) == 2 and None not in offs:
            res.check(all(offs), "K-ROLE", f, norm(a.target), "size-1", "cell indices are not (size - 1)", loc(v.fi, a))
        else:
            res.unknown("K-ROLE", f, norm(a.target), "size-1", "index offsets not recognised", loc(v.fi, a))
        lp = v.enclosing(a, (ast.For,))
        zeros = [n for n in walk_no_nested(v.fi.node) if isinstance(n, ast.Call) and isinstance(n.func, ast.Attribute) and n.func.attr == "zeros"]
        bound_names = {x.id for z in zeros for x in ast.walk(v.inline(z)) if isinstance(x, ast.Name)} - {"np"}
        why = "the listing of hyperedges is not bounded by the bound that sized the array: a larger hyperedge indexes outside the array (or is counted)"
        st = "unknown"
        if lp is not None:
            it = v.inline(lp.iter)
            ifs_with_bound = [n for n in ast.walk(lp) if isinstance(n, ast.If) and any(isinstance(x, ast.Name) and x.id in bound_names for x in ast.walk(v.inline(n.test)))]
            if isinstance(it, ast.Call) and isinstance(it.func, ast.Attribute) and it.func.attr == "get_edges":
                kw = {k.arg: k.value for k in it.keywords}
                if "size" in kw and any(isinstance(x, ast.Name) and x.id in bound_names for x in ast.walk(v.inline(kw["size"]))) and "up_to" in kw and isinstance(kw["up_to"], ast.Constant) and kw["up_to"].value is True and norm(v.inline(kw["size"])) in bound_names:
                    st = "ok"
                elif ifs_with_bound:
                    # explicit guard idiom inside the loop: the accumulation must be control-dependent on it
                    aid = v.cfg_id(a)
                    dom = any(v.cfg.branch_dominated(v.cfg.by_ast[id(i.test)], lab, aid) for i in ifs_with_bound for lab in ("T", "F"))
                    st = "ok" if dom else "violation"
                    if dom:
                        _exact_bound(res, v, f, a, ifs_with_bound, bound_names, role_of)
                elif not it.args and (not kw or set(kw) <= {"size", "order", "up_to"}):
                    st = "violation"
        res.add("B-BOUND", f, norm(lp.iter) if lp is not None else "for hyperedge in ...", "bounded-listing", st, why if st != "ok" else "", loc(v.fi, lp if lp is not None else v.fi.node))
    # ---- G-SCOPE: every listing of hyperedges a reciprocity function consults is restricted to the bound.  The per-node
    #      queries (get_source_edges / get_target_edges / get_incident_edges) only filter by an exact size, so their result
    #      has to pass a size guard that mentions the bound before it is used.
    with res.guard("G-SCOPE"):
        from ..schema import closure as _closure

        res.rules["G-SCOPE"] = "a reciprocity function consults only hyperedges within the size bound: per-node incidence queries are followed by a size guard on the bound"
        for d in SIBLINGS:
            top = ctx.view(d)
            bparams = [a.arg for a in top.fi.params[1:]]
            n_q = 0
            for fi_ in _closure(ctx, top.fi, prefix="hypergraphx.measures.directed"):
                qv = ctx.view(fi_)
                for c in walk_no_nested(fi_.node):
                    if isinstance(c, ast.Call) and isinstance(c.func, ast.Attribute) and c.func.attr in ("get_source_edges", "get_target_edges", "get_incident_edges", "get_neighbors"):
                        n_q += 1
                        # the loop / comprehension that consumes the result, and a size guard on the bound inside it
                        guarded = False
                        holder = qv.enclosing(c, (ast.For, ast.ListComp, ast.SetComp, ast.GeneratorExp, ast.DictComp))
                        tests = []
                        if isinstance(holder, ast.For):
                            tests = [i_.test for i_ in ast.walk(holder) if isinstance(i_, ast.If)]
                        elif holder is not None:
                            tests = [t_ for g in holder.generators for t_ in g.ifs]
                        for t_ in tests:
                            ti = qv.inline(t_)
                            if any(isinstance(x, ast.Name) and x.id in bparams for x in ast.walk(ti)) and any(isinstance(x, ast.Call) and norm(x.func) == "len" for x in ast.walk(ti)):
                                guarded = True
                        res.add("G-SCOPE", fi_.short, norm(c), "bounded", "ok" if guarded else "violation", "" if guarded else f"`{norm(c)}` lists the hyperedges of a node whatever their size, and nothing restricts them to the bound afterwards: hyperedges larger than max_hyperedge_size decide whether an in-bound hyperedge counts as reciprocated", loc(fi_, c))
            if not n_q:
                res.ok("G-SCOPE", top.fi.short, "no per-node incidence query", "bounded", loc(top.fi, top.fi.node))
    # ---- reciprocity siblings
    with res.guard("reciprocity siblings"):
        from .. import predtab
        from ..kinds import SIZE
        from ..schema import closure

        for d in SIBLINGS:
            top = ctx.view(d)
            f = top.fi.short
            fis = closure(ctx, top.fi, prefix="hypergraphx.measures.directed")
            n_guards = n_ratio = n_inc = 0
            for fi in fis:
                v = ctx.view(fi)
                params = [p.arg for p in fi.params]
                accs = _accumulators(fi.node)
                counters = {st.targets[0].id for st in fi.node.body if isinstance(st, ast.Assign) and isinstance(st.targets[0], ast.Name) and isinstance(st.value, ast.DictComp) and isinstance(st.value.value, ast.Constant) and st.value.value.value == 0}
                # counters handed back by a helper: `rec, tot, edges = _collect(...)`
                for st in fi.node.body:
                    if isinstance(st, ast.Assign) and isinstance(st.targets[0], ast.Tuple) and isinstance(st.value, ast.Call) and ctx.callees(fi, st.value):
                        for t in st.targets[0].elts:
                            if isinstance(t, ast.Name):
                                accs.add(t.id)
                # ---- the counting loop(s): loops over the hyperedges that contain a test against the bound parameter
                for lp in [n for n in walk_no_nested(fi.node) if isinstance(n, ast.For)]:
                    if v.enclosing(lp, (ast.For, ast.While)) is not None:
                        continue
                    for ifn in [n for n in ast.walk(lp) if isinstance(n, ast.If)]:
                        names = sorted({x.id for x in ast.walk(ifn.test) if isinstance(x, ast.Name)})
                        bound = [n for n in names if n in params]
                        sizev = [n for n in names if n not in params]
                        if len(bound) != 1 or len(sizev) != 1:
                            continue
                        if not any(isinstance(x, ast.Compare) for x in ast.walk(ifn.test)):
                            continue
                        defs = [m for m in ast.walk(lp) if isinstance(m, ast.Assign) and isinstance(m.targets[0], ast.Name) and m.targets[0].id == sizev[0]]
                        k = v.kind(defs[-1].value) if defs else None
                        if k != SIZE:
                            continue  # not a test of a hyperedge size
                        n_guards += 1
                        lab = predtab.same(ifn.test, [sizev[0], bound[0]], lambda s_, b_: 2 <= s_ <= b_)
                        if lab is None:
                            res.unknown("M-SIZEGUARD", fi.short, norm(ifn.test), "2<=size<=B", "the size guard is not a plain comparison predicate", loc(fi, ifn))
                            continue
                        res.check(lab in ("T", "F"), "M-SIZEGUARD", fi.short, norm(ifn.test), "2<=size<=B", f"the size guard is not `2 <= size <= {bound[0]}` (its truth table differs)", loc(fi, ifn))
                        res.ok("M-SIZEGUARD", fi.short, norm(defs[-1]), "size=|src|+|tgt|", loc(fi, ifn))
                        if lab not in ("T", "F"):
                            continue
                        tid = v.cfg.by_ast[id(ifn.test)]
                        for w, name in _writes_to(accs, lp):
                            wid = v.cfg_id(w)
                            dom = v.cfg.branch_dominated(tid, lab, wid)
                            res.check(dom, "G-DOM", fi.short, norm(w), name, f"`{name}` is updated for hyperedges that fail the size guard: hyperedges larger than the bound influence the result", loc(fi, w))
                # ---- an accumulator filled by a pass over ALL hyperedges in which the bound is never consulted
                bparams_ = [p_ for p_ in params if "size" in p_ or "max" in p_ or "bound" in p_]
                if bparams_ and fi is top.fi:
                    for lp in [n for n in walk_no_nested(fi.node) if isinstance(n, ast.For) and v.enclosing(n, (ast.For, ast.While)) is None]:
                        it_ = v.inline(lp.iter, depth=2)
                        raw = any(isinstance(x, ast.Call) and isinstance(x.func, ast.Attribute) and x.func.attr == "get_edges" and not any(k.arg in ("size", "order") for k in x.keywords) for x in ast.walk(it_))
                        if not raw:
                            continue
                        ws = [(w, nm) for w, nm in _writes_to(accs, lp)]
                        if not ws:
                            continue
                        consults = any(isinstance(x, ast.Name) and x.id in bparams_ for t_ in ast.walk(lp) if isinstance(t_, (ast.If, ast.IfExp, ast.comprehension, ast.While)) for x in ast.walk(t_.test if not isinstance(t_, ast.comprehension) else ast.Tuple(elts=list(t_.ifs), ctx=ast.Load())))
                        if consults or any(isinstance(x, ast.Name) and x.id in bparams_ for x in ast.walk(v.inline(lp.iter, depth=4))):
                            continue  # (the iterated collection was already restricted by the bound)
                        # is what it fills read when the result is computed?  (the accumulator is mentioned after the loop)
                        for w, nm in ws:
                            later = any(isinstance(x, ast.Name) and x.id == nm and getattr(x, "lineno", 0) > lp.end_lineno for x in ast.walk(fi.node))
                            if later:
                                n_guards += 1
                                res.violation("G-DOM", fi.short, norm(w), nm, f"`{nm}` is filled by a pass over all hyperedges in which `{bparams_[0]}` is never consulted: hyperedges larger than the bound influence the result", loc(fi, w))
                                break
                # ---- D-INC: counters are incremented by 1, once per hyperedge
                for n in walk_no_nested(fi.node):
                    if isinstance(n, ast.AugAssign) and isinstance(n.target, ast.Subscript) and isinstance(n.target.value, ast.Name) and (n.target.value.id in counters or (n.target.value.id in accs and isinstance(n.value, ast.Constant))):
                        if isinstance(n.op, ast.Div):
                            continue
                        n_inc += 1
                        nm = n.target.value.id
                        res.check(isinstance(n.op, ast.Add) and isinstance(n.value, ast.Constant) and n.value.value == 1, "D-INC", fi.short, norm(n), nm, "a hyperedge is not counted exactly once", loc(fi, n))
                        depth = len(v.enclosing_all(n, (ast.For, ast.While)))
                        res.check(depth == 1, "D-INC", fi.short, norm(n), nm + ":depth", "the count is incremented inside an inner loop: a hyperedge can be counted several times", loc(fi, n))
                # ---- G-RATIO: every division of a count by a total is control-dependent on `total != 0`
                for dv in [n for n in walk_no_nested(fi.node) if isinstance(n, ast.BinOp) and isinstance(n.op, ast.Div) and isinstance(n.left, ast.Subscript) and isinstance(n.right, ast.Subscript)]:
                    n_ratio += 1
                    den = norm(dv.right)
                    did = v.cfg_id(dv)
                    ok = False
                    # conditional expression: `rec / tot if tot != 0 else 0`
                    par_ = v.parent.get(id(dv))
                    while par_ is not None and not isinstance(par_, (ast.IfExp, ast.stmt)):
                        par_ = v.parent.get(id(par_))
                    if isinstance(par_, ast.IfExp):
                        t_ = par_.test
                        in_body = any(dv is x for x in ast.walk(par_.body))
                        if isinstance(t_, ast.Compare) and len(t_.ops) == 1 and den in (norm(t_.left), norm(t_.comparators[0])):
                            other_ = t_.comparators[0] if norm(t_.left) == den else t_.left
                            if isinstance(other_, ast.Constant) and other_.value == 0:
                                nz = isinstance(t_.ops[0], (ast.NotEq, ast.Gt)) or (isinstance(t_.ops[0], ast.Lt) and norm(t_.left) != den)
                                ok = (nz and in_body) or (isinstance(t_.ops[0], ast.Eq) and not in_body)
                        elif norm(t_) == den and in_body:
                            ok = True
                    for i in [n for n in walk_no_nested(fi.node) if isinstance(n, ast.If)]:
                        for atom, _ in _atoms(i.test, True):
                            if isinstance(atom, ast.Compare) and len(atom.ops) == 1 and den in (norm(atom.left), norm(atom.comparators[0])):
                                other = atom.comparators[0] if norm(atom.left) == den else atom.left
                                zero = isinstance(other, ast.Constant) and other.value == 0
                                if not zero:
                                    continue
                                nonzero_when = True if isinstance(atom.ops[0], (ast.NotEq, ast.Gt)) else (False if isinstance(atom.ops[0], ast.Eq) else None)
                                if isinstance(atom.ops[0], ast.Lt) and norm(atom.left) != den:
                                    nonzero_when = True  # 0 < tot
                                if nonzero_when is None:
                                    continue
                                lab = _implied_branch(i.test, atom, nonzero_when)
                                if lab and v.cfg.branch_dominated(v.cfg.by_ast[id(i.test)], lab, did):
                                    ok = True
                            elif isinstance(atom, ast.Subscript) and norm(atom) == den:
                                lab = _implied_branch(i.test, atom, True)
                                if lab and v.cfg.branch_dominated(v.cfg.by_ast[id(i.test)], lab, did):
                                    ok = True
                    res.check(ok, "G-RATIO", fi.short, norm(dv), "guarded", "the ratio is computed without a `total != 0` guard (division by zero for a size without hyperedges)", loc(fi, dv))
            if n_guards == 0:
                res.unknown("M-SIZEGUARD", f, "2 <= size <= max_hyperedge_size", "exists", "no test of a hyperedge size against the bound was recognised in the function or its helpers", loc(top.fi, top.fi.node))
            if n_ratio == 0:
                res.unknown("G-RATIO", f, "rec[size] / tot[size]", "ratio", "the ratio rec/tot was not recognised", loc(top.fi, top.fi.node))
            if n_inc == 0:
                res.unknown("D-INC", f, "tot[size] += 1", "count", "no counter increments recognised", loc(top.fi, top.fi.node))
    # ---- E-SHAREDVAL: values stored into an accumulator inside a loop are created in that very iteration
    with res.guard("E-SHAREDVAL: values stored into an accumulator inside a loop are created in that very iteration"):
        res.rules["E-SHAREDVAL"] = "a mutable object stored as the value of several accumulator entries is created per entry (no one set shared between keys) when entries are later updated in place"
        for d in SIBLINGS:
            v = ctx.view(d)
            f = v.fi.short
            accs = _accumulators(v.fi.node)
            inplace = set()
            for n in ast.walk(v.fi.node):
                if isinstance(n, ast.Call) and isinstance(n.func, ast.Attribute) and n.func.attr in ("update", "add", "append", "extend", "discard", "remove", "intersection_update", "difference_update") and isinstance(n.func.value, ast.Subscript) and isinstance(n.func.value.value, ast.Name) and n.func.value.value.id in accs:
                    inplace.add(n.func.value.value.id)
                if isinstance(n, ast.AugAssign) and isinstance(n.target, ast.Subscript) and isinstance(n.target.value, ast.Name) and n.target.value.id in accs and isinstance(n.op, (ast.BitOr, ast.BitAnd, ast.Sub)):
                    inplace.add(n.target.value.id)
            n_checked = 0
            for n in ast.walk(v.fi.node):
                if isinstance(n, ast.Assign) and isinstance(n.targets[0], ast.Subscript) and isinstance(n.targets[0].value, ast.Name) and n.targets[0].value.id in accs and isinstance(n.value, ast.Name):
                    acc, val = n.targets[0].value.id, n.value.id
                    loops = v.enclosing_all(n, (ast.For, ast.While))
                    if not loops:
                        continue
                    inner = loops[0]
                    defs = [m for m in ast.walk(v.fi.node) if isinstance(m, ast.Assign) and isinstance(m.targets[0], ast.Name) and m.targets[0].id == val]
                    mutable = [m for m in defs if isinstance(m.value, (ast.Set, ast.List, ast.Dict, ast.SetComp, ast.ListComp, ast.DictComp)) or (isinstance(m.value, ast.Call) and isinstance(m.value.func, ast.Name) and m.value.func.id in ("set", "list", "dict"))]
                    outside = [m for m in mutable if not any(m is x for x in ast.walk(inner))]
                    if mutable:
                        n_checked += 1
                        bad = bool(outside) and acc in inplace
                        res.check(not bad, "E-SHAREDVAL", f, norm(n), acc, f"`{val}` is created once outside the loop over the keys and stored under each of them, and entries of `{acc}` are updated in place elsewhere: an update of one entry leaks into all entries sharing the object", loc(v.fi, n))
            res.ok("E-SHAREDVAL", f, f"{n_checked} aliasing stores examined; in-place updated accumulators: {sorted(inplace)}", "scan", loc(v.fi, v.fi.node))
    # exact: swapped pair
    with res.guard("exact reciprocity looks up the swapped pair"):
        v = ctx.view("reciprocity.exact_reciprocity")
        found = 0
        for n in walk_no_nested(v.fi.node):
            if isinstance(n, ast.Compare) and len(n.ops) == 1 and isinstance(n.ops[0], (ast.In, ast.NotIn)):
                e = v.inline(n.left)
                if not (isinstance(e, ast.Tuple) and len(e.elts) == 2):
                    continue
                roles = []
                for x in e.elts:
                    k = elem_of(v.kind(x))
                    r = k.role if isinstance(k, Atom) and k.role else None
                    if r is None:
                        for y in ast.walk(x):
                            if isinstance(y, ast.Subscript) and isinstance(y.slice, ast.Constant) and y.slice.value in (0, 1):
                                r = {0: "SRC", 1: "TGT"}[y.slice.value]
                    roles.append(r)
                if None in roles:
                    lp = v.enclosing(n, (ast.For,))
                    if lp is not None and isinstance(lp.target, ast.Tuple) and len(lp.target.elts) == 2 and all(isinstance(t, ast.Name) for t in lp.target.elts) and all(isinstance(x, ast.Name) for x in e.elts):
                        order = [t.id for t in lp.target.elts]
                        if {x.id for x in e.elts} == set(order):
                            roles = ["SRC" if x.id == order[0] else "TGT" for x in e.elts]
                found += 1
                if None in roles:
                    res.unknown("K-ROLE", v.fi.short, norm(n), "swapped-pair", "the sides of the looked-up pair were not identified", loc(v.fi, n))
                else:
                    res.check(roles == ["TGT", "SRC"], "K-ROLE", v.fi.short, norm(n), "swapped-pair", "exact reciprocity does not look up the hyperedge with source and target exchanged", loc(v.fi, n))
        if not found:
            res.unknown("K-ROLE", v.fi.short, "(edge[1], edge[0]) in edge_set", "swapped-pair", "no membership test of a (target, source) pair recognised", loc(v.fi, v.fi.node))
    res.assumptions += ["in_degree counts hyperedges in which the node is a SOURCE and out_degree those in which it is a TARGET - the property's own wording, frozen in ROLE_OF"]
    # ---- Q-STRONG: a hyperedge is strongly reciprocated when EVERY SOURCE node is reached from SOME target node: the decisive test
    #      is a subset test with the sources on the left (`set(source) <= covered`, covered = what the targets reach).  The crossed
    #      quantifier - `all(<the reach of t meets the sources> for t in target)`: every target points back to some source - is a
    #      different relation that still lies between exact and weak
    with res.guard("Q-STRONG"):
        res.rules["Q-STRONG"] = "strong reciprocity tests that every source node is among the nodes reached from the targets (sources on the subset side), not that every target reaches some source"
        sv_ = ctx.view("reciprocity.strong_reciprocity")
        incs = [n for n in walk_no_nested(sv_.fi.node) if isinstance(n, ast.AugAssign) and isinstance(n.target, ast.Subscript) and isinstance(n.op, ast.Add)]
        tests = []
        for n in incs:
            for i_ in sv_.enclosing_all(n, (ast.If,)):
                tests.append(i_.test)
        verdict, why, at = "unknown", "the test that decides strong reciprocity was not recognised", sv_.fi.node
        for t in tests:
            ti = sv_.inline(t, depth=2)
            for c in ast.walk(ti):
                if isinstance(c, ast.Call) and isinstance(c.func, ast.Attribute) and c.func.attr == "issubset" and "source" in norm(sv_.inline(c.func.value, depth=2)):
                    verdict, why, at = "ok", "", t
                if isinstance(c, ast.Compare) and len(c.ops) == 1 and isinstance(c.ops[0], (ast.LtE,)) and "source" in norm(sv_.inline(c.left, depth=2)):
                    verdict, why, at = "ok", "", t
                if isinstance(c, ast.Call) and isinstance(c.func, ast.Name) and c.func.id == "all" and c.args and isinstance(c.args[0], (ast.GeneratorExp, ast.ListComp)):
                    g = c.args[0]
                    over = norm(sv_.inline(g.generators[0].iter, depth=2))
                    meets = any((isinstance(x, ast.Call) and isinstance(x.func, ast.Attribute) and x.func.attr in ("isdisjoint", "intersection")) or (isinstance(x, ast.BinOp) and isinstance(x.op, ast.BitAnd)) for x in ast.walk(g.elt))
                    if "target" in over and "source" not in over and meets and verdict != "ok":
                        verdict, why, at = "violation", f"`{norm(t)[:70]}` asks that every TARGET node reaches some source node; the definition asks that every SOURCE node is reached from some target node (`set(source) <= covered`): a hyperedge whose targets all point back to one source while another source is unreached is counted, and one with an idle target is not", t
        res.add("Q-STRONG", sv_.fi.short, norm(at)[:90] if at is not sv_.fi.node else "set(source).issubset(covered)", "sources-covered", verdict, why, loc(sv_.fi, at))
    with res.guard("general lint pack over the property's files"):
        from ..lints import check_pack

        check_pack(ctx, res, "C12")
    return res

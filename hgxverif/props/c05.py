from .. import forward as F
from .. import rules_extract as X
from ..effects import Effects, check_deepcopy, check_pure
from ..report import Result
from ._containers import KIND_RULES

LEVEL_TEXT = (
    "Structural necessary conditions of C05, decided statically: effect analysis (the source is never written, directly, "
    "through callees or through lent references), must-flow rules on the CFG (weights, hyperedge metadata, node metadata "
    "and weightedness reach the extract on every returning path), kind checks on the arguments handed to the extract, "
    "and copy() == deepcopy(self).  Decides the structure, not equality of the extracted edge set for every selection."
)

EXTRACTORS = [
    "Hypergraph.subhypergraph",
    "Hypergraph.subhypergraph_by_orders",
    "Hypergraph.get_edges",
    "DirectedHypergraph.get_edges",
]
ALSO_PURE = ["Hypergraph.subhypergraph_largest_component", "Hypergraph.copy", "DirectedHypergraph.copy", "cc.largest_component", "cc.connected_components"]


def run(ctx):
    res = Result("C05")
    res.rules.update(KIND_RULES)
    res.rules.update({
        "E-PURE": "extraction never modifies the source (self), directly, via callees or via lent references",
        "E-FRESHCOPY": "copy() is copy.deepcopy(self)",
        "X-FLAG": "the extract is constructed with weighted=self._weighted / self.is_weighted()",
        "X-WEIGHT": "every insertion into the extract carries the source weight unless it sits on the not-weighted branch",
        "X-EMETA": "every inserted hyperedge receives the source metadata (argument or following transfer loop) on every returning path",
        "X-NMETA": "every node of the extract receives the source node metadata: no node is created after / without the transfer loop",
        "X-NODES": "whole-node-set insertions into the extract take all nodes of the source (or the requested node list)",
        "X-DELEG": "an extractor that delegates to another one hands over the requested selection (an up_to range starts at order 0 / size 1)",
        "X-SUBSET": "induced sub-hypergraph keeps hyperedges that are subsets of the requested node set",
        "F-FWD": "subhypergraph_largest_component forwards its order/size filter",
    })
    eff = Effects(ctx)
    funcs = [ctx.require(d).short for d in EXTRACTORS + ALSO_PURE]
    ctx.add_sites(res, ctx.sites(rules=("K-ARG", "K-KEY", "K-VAL", "C-SIG", "K-SIZE"), funcs=funcs))
    for d in EXTRACTORS + ALSO_PURE:
        fi = ctx.require(d)
        root = "self" if fi.cls is not None else "hg"
        with res.guard("check_purectx, eff, res, d, rootsroot,"):
            check_pure(ctx, eff, res, d, roots=(root,))
    for d in EXTRACTORS:
        with res.guard("X.check_extractionctx, res, d"):
            X.check_extraction(ctx, res, d)
    for d in EXTRACTORS:
        with res.guard(f"X.check_nodes_before_return({d})"):
            X.check_nodes_before_return(ctx, res, d)
    with res.guard("X.check_subset_orientationctx, res, Hypergraph.subhypergraph"):
        X.check_subset_orientation(ctx, res, "Hypergraph.subhypergraph")
    with res.guard("check_deepcopyctx, res, Hypergraph.copy"):
        check_deepcopy(ctx, res, "Hypergraph.copy")
    with res.guard("check_deepcopyctx, res, DirectedHypergraph.copy"):
        check_deepcopy(ctx, res, "DirectedHypergraph.copy")
    with res.guard("B-LARGEST (shared with C08): subhypergraph_largest_component extracts a maximum-size component"):
        from .c08 import check_largest_component

        check_largest_component(ctx, res)
    with res.guard("F.check_forwardingctx, res, Hypergraph.subhypergraph_largest_component"):
        F.check_forwarding(ctx, res, ["Hypergraph.subhypergraph_largest_component", "cc.largest_component"])
    res.assumptions += [
        "the extract is built through the public add_node(s)/add_edge(s)/set_*_metadata API, whose own correctness is C01/C02",
        "sharing of metadata dict objects between source and extract is not reported (C05 claims independence only for copy())",
    ]
    with res.guard("general lint pack over the property's files"):
        from ..lints import check_pack

        check_pack(ctx, res, "C05")
    return res

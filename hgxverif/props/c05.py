from .. import forward as F
from .. import rules_extract as X
from ..effects import Effects, check_deepcopy, check_pure
from ..report import Result
from ._containers import KIND_RULES

LEVEL_TEXT = (
    "Structural necessary conditions of C05, decided statically: effect analysis (the source is never written, directly, "
    "through callees or through lent references), must-flow rules on the CFG (weights, hyperedge metadata, node metadata "
    "and weightedness reach the extract on every returning path), kind checks on the arguments handed to the extract, "
    "and copy() == deepcopy(self).  Decides the structure, not equality of the extracted edge set for every selection."
)

EXTRACTORS = [
    "Hypergraph.subhypergraph",
    "Hypergraph.subhypergraph_by_orders",
    "Hypergraph.get_edges",
    "DirectedHypergraph.get_edges",
]
ALSO_PURE = ["Hypergraph.subhypergraph_largest_component", "Hypergraph.copy", "DirectedHypergraph.copy", "cc.largest_component", "cc.connected_components"]


def run(ctx):
    res = Result("C05")
    res.rules.update(KIND_RULES)
    res.rules.update({
        "E-PURE": "extraction never modifies the source (self), directly, via callees or via lent references",
        "E-FRESHCOPY": "copy() is copy.deepcopy(self)",
        "X-FLAG": "the extract is constructed with weighted=self._weighted / self.is_weighted()",
        "X-WEIGHT": "every insertion into the extract carries the source weight unless it sits on the not-weighted branch",
        "X-EMETA": "every inserted hyperedge receives the source metadata (argument or following transfer loop) on every returning path",
        "X-NMETA": "every node of the extract receives the source node metadata: no node is created after / without the transfer loop",
        "X-NODES": "whole-node-set insertions into the extract take all nodes of the source (or the requested node list)",
        "X-DELEG": "an extractor that delegates to another one hands over the requested selection (an up_to range starts at order 0 / size 1)",
        "X-SUBSET": "induced sub-hypergraph keeps hyperedges that are subsets of the requested node set",
        "F-FWD": "subhypergraph_largest_component forwards its order/size filter",
    })
    eff = Effects(ctx)
    funcs = [ctx.require(d).short for d in EXTRACTORS + ALSO_PURE]
    ctx.add_sites(res, ctx.sites(rules=("K-ARG", "K-KEY", "K-VAL", "C-SIG", "K-SIZE"), funcs=funcs))
    for d in EXTRACTORS + ALSO_PURE:
        fi = ctx.require(d)
        root = "self" if fi.cls is not None else "hg"
        with res.guard("check_purectx, eff, res, d, rootsroot,"):
            check_pure(ctx, eff, res, d, roots=(root,))
    for d in EXTRACTORS:
        with res.guard("X.check_extractionctx, res, d"):
            X.check_extraction(ctx, res, d)
    for d in EXTRACTORS:
        with res.guard(f"X.check_nodes_before_return({d})"):
            X.check_nodes_before_return(ctx, res, d)
    # ---- X-ONCE: every selected hyperedge enters the extract ONCE.  add_edge on an existing key ADDS the weight, so an insertion
    #      reached once per member of the hyperedge (a walk over the incidence lists of the selected nodes) multiplies the weights
    res.rules["X-ONCE"] = "a selected hyperedge is inserted into the extract once (not once per member through the incidence lists): add_edge sums the weights of repeats"
    import ast as _ast

    from ..model import loc as _loc, norm as _norm, walk_no_nested as _wnn

    for d in EXTRACTORS:
        with res.guard(f"X-ONCE of {d}"):
            xv = ctx.view(d)
            n_ins = 0
            for c in _wnn(xv.fi.node):
                if not (isinstance(c, _ast.Call) and isinstance(c.func, _ast.Attribute) and c.func.attr == "add_edge" and not (isinstance(c.func.value, _ast.Name) and c.func.value.id == "self")):
                    continue
                n_ins += 1
                loops = xv.enclosing_all(c, (_ast.For,))
                per_member = None
                for inner in loops:
                    it = xv.inline(inner.iter, depth=1)
                    inc = isinstance(it, _ast.Call) and isinstance(it.func, _ast.Attribute) and it.func.attr in ("get_incident_edges",) and it.args and isinstance(it.args[0], _ast.Name)
                    inc = inc or (isinstance(it, _ast.Subscript) and isinstance(it.value, _ast.Attribute) and it.value.attr.startswith("_adj") and isinstance(it.slice, _ast.Name))
                    if not inc:
                        continue
                    key = it.args[0].id if isinstance(it, _ast.Call) else it.slice.id
                    if any(isinstance(o.target, _ast.Name) and o.target.id == key for o in loops if o is not inner):
                        per_member = inner
                if per_member is None:
                    res.ok("X-ONCE", xv.fi.short, _norm(c)[:80], "once", _loc(xv.fi, c))
                    continue
                # a visited set that is tested and filled in the loop makes the walk visit each hyperedge once
                seen_guard = any(isinstance(x, _ast.Call) and isinstance(x.func, _ast.Attribute) and x.func.attr == "add" and isinstance(x.func.value, _ast.Name) for x in _ast.walk(per_member)) and any(isinstance(x, _ast.Compare) and any(isinstance(o_, (_ast.In, _ast.NotIn)) for o_ in x.ops) and isinstance(x.comparators[0], _ast.Name) for i_ in _ast.walk(per_member) if isinstance(i_, _ast.If) for x in _ast.walk(i_.test))
                if seen_guard:
                    res.unknown("X-ONCE", xv.fi.short, _norm(c)[:80], "once", "hyperedges are reached through the incidence lists of the selected nodes under a visited-set test; that each is inserted once was not established", _loc(xv.fi, c))
                else:
                    res.violation("X-ONCE", xv.fi.short, _norm(c)[:80], "once", f"the hyperedge is inserted inside `for ... in {_norm(per_member.iter)[:50]}` nested in a loop over the selected nodes: a hyperedge with k selected members is inserted k times, and add_edge ADDS the weight of a repeat - the extract carries k times the source's weight", _loc(xv.fi, c))
            if n_ins == 0:
                res.unknown("X-ONCE", xv.fi.short, "h.add_edge(...)", "once", "no direct insertion into the extract in this function (it delegates)", _loc(xv.fi, xv.fi.node))
    with res.guard("X.check_subset_orientationctx, res, Hypergraph.subhypergraph"):
        X.check_subset_orientation(ctx, res, "Hypergraph.subhypergraph")
    with res.guard("check_deepcopyctx, res, Hypergraph.copy"):
        check_deepcopy(ctx, res, "Hypergraph.copy")
    with res.guard("check_deepcopyctx, res, DirectedHypergraph.copy"):
        check_deepcopy(ctx, res, "DirectedHypergraph.copy")
    with res.guard("B-LARGEST (shared with C08): subhypergraph_largest_component extracts a maximum-size component"):
        from .c08 import check_largest_component

        check_largest_component(ctx, res)
    # the order / size filter of subhypergraph_largest_component chooses which hyperedges define CONNECTIVITY; what is returned is the
    # sub-hypergraph INDUCED by the component's nodes - all hyperedges inside it, of every size
    with res.guard("X-INDUCED"):
        res.rules["X-INDUCED"] = "subhypergraph_largest_component hands its order / size filter to the component search only, never to the induced-sub-hypergraph extraction"
        lv_ = ctx.view("Hypergraph.subhypergraph_largest_component")
        bad_ = [c_ for c_ in _wnn(lv_.fi.node) if isinstance(c_, _ast.Call) and isinstance(c_.func, _ast.Attribute) and c_.func.attr == "subhypergraph" and any(k.arg in ("order", "size", "orders", "sizes") for k in c_.keywords)]
        if bad_:
            res.violation("X-INDUCED", lv_.fi.short, _norm(bad_[0])[:90], "filter-not-forwarded", f"`{_norm(bad_[0])[:60]}` restricts the extract to hyperedges of the requested size: hyperedges of other sizes that lie inside the component are dropped with their weights and metadata, so the result is not the induced sub-hypergraph", _loc(lv_.fi, bad_[0]))
        else:
            res.ok("X-INDUCED", lv_.fi.short, "self.subhypergraph(<component nodes>)", "filter-not-forwarded", _loc(lv_.fi, lv_.fi.node))
    with res.guard("F.check_forwardingctx, res, Hypergraph.subhypergraph_largest_component"):
        F.check_forwarding(ctx, res, ["Hypergraph.subhypergraph_largest_component", "cc.largest_component"])
    res.assumptions += [
        "the extract is built through the public add_node(s)/add_edge(s)/set_*_metadata API, whose own correctness is C01/C02",
        "sharing of metadata dict objects between source and extract is not reported (C05 claims independence only for copy())",
    ]
    with res.guard("general lint pack over the property's files"):
        from ..lints import check_pack

        check_pack(ctx, res, "C05")
    return res

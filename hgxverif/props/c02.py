from ._containers import run_container

LEVEL_TEXT = (
    "Structural necessary conditions of C02 on DirectedHypergraph, decided statically: kind inference (units-of-measure for node / "
    "edge id / canonical key / weight / time / layer / size / order) over every table access and call of the class, plus CFG "
    "dominance / must-pass-through rules for the joint update of the tables.  Decides the structure, not the behavioural "
    "equivalence with the abstract model."
)


def run(ctx):
    res = run_container(ctx, "C02", "DirectedHypergraph")
    return extra(ctx, res)


def extra(ctx, res):
    import ast

    from ..kinds import BOOL, Atom, Const, Lst, Seq, Union, elem_of
    from ..model import loc, norm, walk_no_nested
    from ._clients import DEGREE, check_filter_clients

    cls = "DirectedHypergraph"
    from .. import rules_container as RC

    res.rules["K-SIDES"] = "DirectedHypergraph.add_edge stores source and target as given: neither side is filtered by membership in the other"
    with res.guard("RC.check_sides_kept(ctx, res)"):
        RC.check_sides_kept(ctx, res)
    res.rules["K-ROLE"] = "role-specific queries read only the adjacency table / key component of their own role"
    res.rules["K-BOOL"] = "membership queries return the membership test itself (a bool)"
    # role provenance (frozen pairing, one line of reason each)
    ROLE_TABLE = {
        "get_source_edges": ("_adj_source", "_adj_target"),  # docstring: hyperedges in which the node is a source
        "get_target_edges": ("_adj_target", "_adj_source"),
    }
    for m, (own, other) in ROLE_TABLE.items():
        v = ctx.view(f"{cls}.{m}")
        # every mention of an adjacency table (read, iterated, or handed to a helper) and every read done by a helper
        ment = [(tab, n) for _, tab, n, may in v.mentions() if tab in (own, other) and not may]
        # (a helper that is HANDED the incidence list - `self._edges_by_ids(self._adj_target[node], ...)` - reads whatever list it is
        # given: its reads are attributed through the argument, which `ment` already holds, not through the other callers' tables)
        handed = {id(c) for c in walk_no_nested(v.fi.node) if isinstance(c, ast.Call) and any(isinstance(x, ast.Attribute) and x.attr in (own, other) for a_ in list(c.args) + [k.value for k in c.keywords] for x in ast.walk(a_))}
        via = [(o.table, o.node) for o in v.call_ops() if o.table in (own, other) and not o.may and id(o.node) not in handed]
        seen = ment + via
        if any(t == own for t, _ in seen):
            res.ok("K-ROLE", v.fi.short, f"reads {own}", own, loc(v.fi, v.fi.node))
        elif not any(t == other for t, _ in seen):
            res.unknown("K-ROLE", v.fi.short, f"reads {own}", own, f"no reference to {own} found in {m} or its helpers", loc(v.fi, v.fi.node))
        for t, n in seen:
            if t == other:
                res.violation("K-ROLE", v.fi.short, norm(n), other, f"{m} reads {other}: source and target roles are mixed up", loc(v.fi, n))
    for m, role in (("get_sources", "SRC"), ("get_targets", "TGT")):
        fi = ctx.require(f"{cls}.{m}")
        k = ctx.interp.analyse_entry(fi)
        e = elem_of(elem_of(k))
        good = isinstance(e, Atom) and e.name == "NODE" and e.role == role
        bad = isinstance(e, Atom) and e.name == "NODE" and e.role not in (None, role)
        res.add("K-ROLE", fi.short, "return kind " + repr(k), role, "ok" if good else ("violation" if bad else "unknown"), f"{m} returns the {e.role} component" if bad else "", loc(fi, fi.node))
    for m in ("check_node", "check_edge", "is_weighted", "is_uniform"):
        fi = ctx.require(f"{cls}.{m}")
        k = ctx.interp.analyse_entry(fi)
        boolish = k == BOOL or (isinstance(k, Const) and isinstance(k.value, bool)) or (isinstance(k, Union) and all(x == BOOL or (isinstance(x, Const) and isinstance(x.value, bool)) for x in k.members))
        res.check(boolish, "K-BOOL", fi.short, "return kind " + repr(k), "bool", f"{m} can return a non-boolean object (a truthy table for an absent item)", loc(fi, fi.node))
    with res.guard("check_filter_clientsctx, res, DEGREE  cc.isolated_nodes, cc.is_isolate"):
        check_filter_clients(ctx, res, DEGREE[:2])
    # the directed degree module (an anchor of C02): kind discipline of everything in the file (an edge id is not a position in
    # get_edges() / get_sizes()), filters forwarded, the hypergraph left untouched
    from ._containers import KIND_RULES

    ddeg = "hypergraphx/measures/directed/degree.py"
    ctx.add_sites(res, ctx.sites(rules=KIND_RULES.keys(), files=[ddeg]))
    from .. import forward as F
    from ..effects import Effects, check_pure

    eff = Effects(ctx)
    dfuncs = [fi for q, fi in sorted(ctx.prog.functions.items()) if fi.module.relpath == ddeg and fi.parent is None and fi.cls is None]
    for fi in dfuncs:
        if fi.params and not fi.name.startswith("_"):
            with res.guard(f"E-PURE of {fi.short}"):
                check_pure(ctx, eff, res, fi, roots=(fi.params[0].arg,))
    with res.guard("F-FWD in the directed degree module"):
        F.check_forwarding(ctx, res, dfuncs)
    with res.guard("general lint pack over the property's files"):
        from ..lints import check_pack

        check_pack(ctx, res, "C02")
    return res

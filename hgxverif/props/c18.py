import ast

from ..model import AnalysisError, loc, norm, walk_no_nested
from ..report import Result
from ._containers import KIND_RULES
from .c10 import _loop_pairs

LEVEL_TEXT = (
    "Structural necessary conditions of C18, decided statically: the contagion sweep obeys a double-buffer discipline (the state of "
    "other nodes is read only from the old buffer, writes go only to the new one, the new buffer is a fresh copy made inside the "
    "time loop and handed over by copy), pairwise attempts use order-1 neighbours and triadic ones order-2 hyperedges, the series "
    "starts at the initial count and is divided by the population size; the transition weights are accumulated symmetrically over "
    "i<j pairs with (size-1) and row-normalised; each density is the previous one times K; a walk steps with the row of its last "
    "node.  Decides the structure, not stochasticity, stationarity or exact trajectories."
)


def run(ctx):
    res = Result("C18")
    res.rules.update({k: KIND_RULES[k] for k in ("C-SIG", "K-ARG")})
    res.rules.update({
        "E-DBUF": "double buffer: other nodes' state read from the old buffer only, writes to the new buffer only, fresh copy per sweep, hand-over by copy",
        "D-ORDER": "pairwise infection uses get_neighbors(order=1), triadic infection get_incident_edges(order=2)",
        "D-SERIES": "the series starts at the initial infected count, records the count after each sweep and is divided by the population size",
        "D-SYM": "transition weights: both (i,j) and (j,i) receive the same increment len(l) - 1 over all i<j pairs; rows are normalised by their sums",
        "D-STEP": "density: s <- s @ K and the new s is what gets appended; walk: next node drawn with the row of the last node and appended",
    })
    files = ["hypergraphx/dynamics/contagion.py", "hypergraphx/dynamics/randwalk.py"]
    ctx.add_sites(res, ctx.sites(rules=("C-SIG", "K-ARG"), files=files))
    # ---- D-SYNC: the update is synchronous: inside the sweep over the nodes, the state table whose entries of OTHER nodes are read
    #      (`I_old[neigh] == 1`) is not written (`I_old[node] = 0`): a recovery written straight into it is seen by the nodes that come
    #      later in the same sweep
    with res.guard("D-SYNC"):
        res.rules["D-SYNC"] = "inside one sweep the state table that is read for the neighbours is never written (recoveries and infections take effect together, after the sweep)"
        cv_ = ctx.view("contagion.simplicial_contagion")
        n_sw = 0
        for lp_ in [n for n in walk_no_nested(cv_.fi.node) if isinstance(n, ast.For) and isinstance(n.target, ast.Name) and cv_.enclosing(n, (ast.While, ast.For)) is not None]:
            node_ = lp_.target.id
            subs = [x for x in ast.walk(lp_) if isinstance(x, ast.Subscript) and isinstance(x.value, ast.Name)]
            read_other = {x.value.id for x in subs if isinstance(x.ctx, ast.Load) and not (isinstance(x.slice, ast.Name) and x.slice.id == node_)}
            stores = [x for x in subs if isinstance(x.ctx, ast.Store) and x.value.id in read_other]
            if not read_other:
                continue
            n_sw += 1
            if stores:
                res.violation("D-SYNC", cv_.fi.short, norm(cv_.stmt_of(stores[0]) or stores[0])[:80], stores[0].value.id, f"`{norm(stores[0])}` is written during the sweep over the nodes, and `{stores[0].value.id}` is also what the sweep reads for the OTHER nodes: a node updated earlier in the sweep (a recovery) already counts as changed for the nodes that follow - the update is no longer synchronous", loc(cv_.fi, stores[0]))
            else:
                res.ok("D-SYNC", cv_.fi.short, f"for {node_} in {norm(lp_.iter)[:30]}", "read-table-not-written", loc(cv_.fi, lp_))
        if n_sw == 0:
            res.unknown("D-SYNC", cv_.fi.short, "for node in nodes", "read-table-not-written", "no sweep that reads the state of other nodes was recognised", loc(cv_.fi, cv_.fi.node))
    with res.guard("simplicial contagion: double buffer, orders, series, loop guard"):
        v = ctx.view("contagion.simplicial_contagion")
        f = v.fi.short
        whiles = [n for n in walk_no_nested(v.fi.node) if isinstance(n, ast.While)]
        if len(whiles) != 1:
            raise AnalysisError(f"{f}: time loop not recognised")
        wl = whiles[0]
        sweeps = [n for n in wl.body if isinstance(n, ast.For)]
        if len(sweeps) > 1:
            # the sweep is the loop that writes the state (other loops of the time step only collect information)
            sweeps = [n for n in sweeps if any(isinstance(x, ast.Subscript) and isinstance(x.ctx, ast.Store) for x in ast.walk(n))]
        if len(sweeps) != 1 or not isinstance(sweeps[0].target, ast.Name):
            raise AnalysisError(f"{f}: node sweep not recognised")
        sw = sweeps[0]
        node = sw.target.id
        # the buffers: the one assigned from a copy inside the loop before the sweep is NEW, its source is OLD
        pre = [n for n in wl.body if isinstance(n, ast.Assign) and n.lineno < sw.lineno and isinstance(n.targets[0], ast.Name)]
        creators = [n for n in walk_no_nested(v.fi.node) if isinstance(n, ast.Assign) and isinstance(n.targets[0], ast.Name) and isinstance(n.value, ast.Call) and norm(n.value.func).endswith(".copy") and n.lineno < sw.lineno]
        # names subscripted inside the sweep
        used = {}
        for n in ast.walk(sw):
            if isinstance(n, ast.Subscript) and isinstance(n.value, ast.Name):
                used.setdefault(n.value.id, []).append(n)
        written = {name for name, subs in used.items() if any(isinstance(s.ctx, ast.Store) for s in subs)}
        if len(written) != 1:
            raise AnalysisError(f"{f}: expected exactly one buffer written inside the sweep, found {sorted(written)}")
        new = written.pop()
        new_defs = [n for n in creators if n.targets[0].id == new]
        res.check(bool(new_defs), "E-DBUF", f, f"{new} = <old>.copy()", "fresh-copy", f"the new buffer `{new}` is not created as a copy of the old state", loc(v.fi, wl))
        old = norm(new_defs[-1].value.func.value) if new_defs else None
        per_sweep = bool(new_defs) and all(any(d is x for x in wl.body) for d in new_defs)
        # reads inside the sweep
        for name, subs in used.items():
            for s in subs:
                if isinstance(s.ctx, ast.Store):
                    res.check(name == new and norm(s.slice) == node, "E-DBUF", f, norm(s), "write-new-own", f"the sweep writes `{norm(s)}`: only the new buffer at the node being updated may be written", loc(v.fi, s))
                elif name == new:
                    res.check(norm(s.slice) == node, "E-DBUF", f, norm(s), "read-new-own", f"the state of another node is read from the NEW buffer (`{norm(s)}`): updates of this sweep leak into it (asynchronous update)", loc(v.fi, s))
                elif name == old:
                    res.ok("E-DBUF", f, norm(s), "read-old", loc(v.fi, s))
        # hand-over after the sweep
        post = [n for n in wl.body if isinstance(n, ast.Assign) and n.lineno > sw.end_lineno and isinstance(n.targets[0], ast.Name) and n.targets[0].id == old]
        res.check(len(post) == 1, "E-DBUF", f, f"{old} = {new}.copy()", "hand-over", "the old buffer is not replaced by the new state after the sweep", loc(v.fi, wl))
        for p in post:
            val = p.value
            is_copy = isinstance(val, ast.Call) and (norm(val.func) == f"{new}.copy" or (norm(val.func) in ("dict", "copy.copy", "copy.deepcopy", "np.copy") and val.args and norm(val.args[0]) == new))
            is_alias = isinstance(val, ast.Name) and val.id == new
            # two sound disciplines: (A) the new buffer is re-created from the old one in every sweep (hand-over may then alias),
            # (B) the new buffer lives across sweeps and the old one receives a COPY of it.  Neither => one shared object.
            res.check((per_sweep and (is_copy or is_alias)) or (not per_sweep and is_copy), "E-DBUF", f, f"{norm(new_defs[-1]) if new_defs else new} ... {norm(p)}", "distinct-buffers", "old and new state become one object from the second sweep on (the new buffer is not re-created per sweep and the hand-over is an alias): nodes updated later in a sweep see this sweep's infections", loc(v.fi, p))
        # D-ORDER
        calls = {}
        for n in ast.walk(sw):
            if isinstance(n, ast.Call) and isinstance(n.func, ast.Attribute) and n.func.attr in ("get_neighbors", "get_incident_edges"):
                calls.setdefault(n.func.attr, []).append(n)
        # look-ups hoisted out of the time loop: `links = {n: hg.get_neighbors(n, order=1) for n in nodes}` ... `links[node]`
        hoisted = {}
        for lp_ in [x for x in ast.walk(sw) if isinstance(x, ast.For) and x is not sw]:
            it_ = lp_.iter
            if isinstance(it_, ast.Subscript) and isinstance(it_.value, ast.Name) and norm(it_.slice) == node:
                tab_ = v.resolve(it_.value)
                if isinstance(tab_, ast.DictComp) and len(tab_.generators) == 1 and isinstance(tab_.generators[0].target, ast.Name) and norm(tab_.key) == tab_.generators[0].target.id:
                    for n in ast.walk(tab_.value):
                        if isinstance(n, ast.Call) and isinstance(n.func, ast.Attribute) and n.func.attr in ("get_neighbors", "get_incident_edges"):
                            hoisted.setdefault(n.func.attr, []).append((n, tab_.generators[0].target.id))
        for meth, want in (("get_neighbors", 1), ("get_incident_edges", 2)):
            cs = [(c, node) for c in calls.get(meth, [])] + hoisted.get(meth, [])
            res.check(len(cs) == 1, "D-ORDER", f, meth, "present", f"the sweep does not consult {meth} exactly once", loc(v.fi, sw))
            for c, who in cs:
                kw = {k.arg: k.value for k in c.keywords}
                o = kw.get("order")
                sz = kw.get("size")
                ok = (isinstance(o, ast.Constant) and o.value == want) or (isinstance(sz, ast.Constant) and sz.value == want + 1)
                res.check(ok and c.args and norm(c.args[0]) == who, "D-ORDER", f, norm(c), f"order={want}", f"{meth} is not restricted to order {want} of the node being updated", loc(v.fi, c))
        # D-TRIAD: the three-body rule looks up the state of BOTH other members of the 3-node hyperedge in the old state, not in a
        # population restricted to the pairwise neighbours
        res.rules["D-TRIAD"] = "the three-body infection tests the old state of both other members of the hyperedge (not a set restricted to pairwise neighbours)"
        tri_loops = []
        for lp in ast.walk(sw):
            if isinstance(lp, ast.For):
                it = v.inline(lp.iter)
                if any(isinstance(x, ast.Call) and isinstance(x.func, ast.Attribute) and x.func.attr == "get_incident_edges" for x in ast.walk(it)):
                    tri_loops.append(lp)
        def _from_pairwise(e, depth=0):
            """does the value of `e` derive from get_neighbors(...) - following, for names with several definitions, the
            definitions that reach the place where the name is read"""
            src = v.inline(e)
            if any(isinstance(y, ast.Call) and isinstance(y.func, ast.Attribute) and y.func.attr == "get_neighbors" for y in ast.walk(src)):
                return True
            if depth > 3:
                return False
            for y in ast.walk(src):
                if isinstance(y, ast.Name) and isinstance(y.ctx, ast.Load):
                    use = getattr(y, "_orig", y)
                    uid = v.cfg_id(use)
                    defs = [d for d in walk_no_nested(v.fi.node) if isinstance(d, ast.Assign) and any(isinstance(t, ast.Name) and t.id == y.id for t in d.targets)]
                    if len(defs) < 2 or uid is None:
                        continue
                    ids = {v.cfg_id(d): d for d in defs}
                    for did, d in ids.items():
                        if did is not None and did != uid and v.cfg.reaches_without(did, uid, set(ids) - {did}) and _from_pairwise(d.value, depth + 1):
                            return True
            return False

        for lp in tri_loops:
            guards_ = [i for i in ast.walk(lp) if isinstance(i, ast.If) and any(isinstance(x, ast.Assign) and isinstance(x.targets[0], ast.Subscript) and norm(x.targets[0].value) == new for b_ in i.body for x in ast.walk(b_))]
            if not guards_:
                res.unknown("D-TRIAD", f, norm(lp.iter), "both-partners-old", "the condition of the three-body infection was not recognised", loc(v.fi, lp))
            for g_ in guards_:
                t_in = v.inline(g_.test, depth=1)
                old_reads = [x for x in ast.walk(t_in) if isinstance(x, ast.Subscript) and isinstance(x.value, ast.Name) and x.value.id == old]
                restricted = None
                for x in ast.walk(t_in):
                    if isinstance(x, ast.Compare) and any(isinstance(o, (ast.In, ast.NotIn)) for o in x.ops):
                        for c_ in x.comparators:
                            if _from_pairwise(c_):
                                restricted = c_
                    if isinstance(x, ast.Call) and isinstance(x.func, ast.Attribute) and x.func.attr in ("issubset", "issuperset", "isdisjoint", "intersection"):
                        for c_ in [x.func.value] + list(x.args):
                            if _from_pairwise(c_):
                                restricted = c_
                if restricted is not None:
                    res.violation("D-TRIAD", f, norm(g_.test)[:160], "both-partners-old", f"the other members of the 3-node hyperedge are looked up in `{norm(restricted)}`, which only holds pairwise (size-2) neighbours of the node: a member that is not also a pairwise neighbour never counts as infected, so the triangle does not spread", loc(v.fi, g_))
                elif len(old_reads) >= 2:
                    res.ok("D-TRIAD", f, norm(g_.test)[:160], "both-partners-old", loc(v.fi, g_))
                else:
                    res.unknown("D-TRIAD", f, norm(g_.test)[:160], "both-partners-old", "the condition does not read the old state of two members directly", loc(v.fi, g_))
        # the scan over the pairwise neighbours / the triangles of a susceptible node ends early only once the node IS infected:
        # every `break` of these loops follows the infection store in its block
        res.rules["D-SCAN"] = "the loops over a susceptible node's neighbours / 3-node hyperedges stop early only after the node was infected (every partner / triangle is examined otherwise)"
        for lp in [x for x in ast.walk(sw) if isinstance(x, ast.For) and x is not sw]:
            for b_ in ast.walk(lp):
                if not isinstance(b_, ast.Break) or v.enclosing(b_, (ast.For, ast.While)) is not lp:
                    continue
                blk = None
                par = v.parent.get(id(b_))
                for field in ("body", "orelse"):
                    if isinstance(getattr(par, field, None), list) and any(x is b_ for x in getattr(par, field)):
                        blk = getattr(par, field)
                before = blk[: next(i for i, x in enumerate(blk) if x is b_)] if blk else []
                infected = any(isinstance(x, ast.Assign) and isinstance(x.targets[0], ast.Subscript) and norm(x.targets[0].value) == new and isinstance(x.value, ast.Constant) and x.value.value == 1 for st_ in before for x in ast.walk(st_))
                # `if I_new[node] == 1: break` is the same thing spelled as a test
                tested = isinstance(par, ast.If) and any(isinstance(x, ast.Subscript) and norm(x.value) == new for x in ast.walk(par.test))
                res.add("D-SCAN", f, norm(par.test)[:120] if isinstance(par, ast.If) else "break", "break-after-infection", "ok" if infected or tested else "violation", "" if infected or tested else "the scan over the node's partners / triangles stops although the node was not infected: later pairs / 3-node hyperedges that could infect it are never examined", loc(v.fi, b_))
        if not tri_loops:
            res.unknown("D-TRIAD", f, "for triplet in get_incident_edges(node, order=2)", "both-partners-old", "the loop over the 3-node hyperedges was not recognised", loc(v.fi, sw))
        # D-SKIP: a susceptible node is passed over (`continue` of the sweep before its triangles were looked at) only on the
        # strength of its own state; a shortcut "no infected contact" must count the members of its 3-node hyperedges as contacts
        res.rules["D-SKIP"] = "a node is skipped before the three-body attempt only because of its own state, or by a contact test that includes the members of its 3-node hyperedges"
        for b_ in ast.walk(sw):
            if not isinstance(b_, ast.Continue) or v.enclosing(b_, (ast.For, ast.While)) is not sw:
                continue
            par = v.parent.get(id(b_))
            if not isinstance(par, ast.If):
                continue
            bid = v.cfg_id(b_)
            skips_tri = any(l_.lineno > b_.lineno and not any(b_ is y for y in ast.walk(l_)) for l_ in tri_loops)
            if not skips_tri:
                continue
            own_state = any(isinstance(x, ast.Subscript) and isinstance(x.value, ast.Name) and x.value.id in (new, old) and norm(x.slice) == node for x in ast.walk(par.test))
            if own_state:
                res.ok("D-SKIP", f, norm(par.test)[:120], "skip-before-triangles", loc(v.fi, b_))
                continue
            sets_ = [c_.comparators[0].id for c_ in ast.walk(par.test) if isinstance(c_, ast.Compare) and len(c_.ops) == 1 and isinstance(c_.ops[0], (ast.In, ast.NotIn)) and isinstance(c_.comparators[0], ast.Name) and norm(c_.left) == node]
            verdict, why = "unknown", "a node is skipped before its 3-node hyperedges were examined; the condition was not recognised"

            def kinds_of_test(e, depth=0):
                out = set()
                for x in ast.walk(e):
                    if isinstance(x, ast.Call) and isinstance(x.func, ast.Attribute) and x.func.attr in ("get_neighbors", "get_incident_edges"):
                        kw_ = {k.arg: k.value for k in x.keywords}
                        o_, s_ = kw_.get("order"), kw_.get("size")
                        pair = (isinstance(o_, ast.Constant) and o_.value == 1) or (isinstance(s_, ast.Constant) and s_.value == 2)
                        out.add("pairwise" if pair else "wider")
                    if isinstance(x, ast.Name) and depth < 3 and x.id not in (node,):
                        r_ = v.resolve(x)
                        if r_ is x and depth == 0:
                            r2 = v.reaching(x)  # a name with several definitions: the one that reaches the test
                            r_ = r2 if r2 is not None else x
                        if r_ is not x:
                            out |= kinds_of_test(r_, depth + 1)
                return out

            ks0 = kinds_of_test(par.test)
            if ks0 == {"pairwise"} and not sets_:
                verdict, why = "violation", f"a susceptible node is passed over when `{norm(par.test)[:60]}` - a test of its PAIRWISE neighbourhood (order 1) only - before the three-body attempt: a node that sits in 3-node hyperedges but in no pair, or whose pairwise neighbours are all healthy, is never infected through its triangles"
            for sname in sets_:
                srcs = []
                for g_ in walk_no_nested(v.fi.node):
                    if isinstance(g_, ast.Call) and isinstance(g_.func, ast.Attribute) and g_.func.attr in ("update", "add") and isinstance(g_.func.value, ast.Name) and g_.func.value.id == sname and g_.args:
                        srcs.append(g_.args[0])
                    if isinstance(g_, ast.AugAssign) and isinstance(g_.target, ast.Name) and g_.target.id == sname:
                        srcs.append(g_.value)
                if not srcs:
                    continue

                def kinds_of(e, depth=0):
                    out = set()
                    for x in ast.walk(e):
                        if isinstance(x, ast.Call) and isinstance(x.func, ast.Attribute) and x.func.attr in ("get_neighbors", "get_incident_edges"):
                            kw_ = {k.arg: k.value for k in x.keywords}
                            o_ = kw_.get("order")
                            s_ = kw_.get("size")
                            pair = (isinstance(o_, ast.Constant) and o_.value == 1) or (isinstance(s_, ast.Constant) and s_.value == 2)
                            out.add("pairwise" if pair else "wider")
                        if isinstance(x, ast.Name) and depth < 3:
                            r_ = v.resolve(x)
                            if r_ is not x:
                                out |= kinds_of(r_, depth + 1)
                    return out

                ks = set()
                for e_ in srcs:
                    ks |= kinds_of(e_)
                if ks == {"pairwise"}:
                    verdict, why = "violation", f"susceptible nodes outside `{sname}` are skipped before the three-body attempt, and `{sname}` is filled from the PAIRWISE neighbourhoods (order 1) only: a node whose two partners in a 3-node hyperedge are infected but which has no infected pairwise neighbour is never infected"
                elif "wider" in ks:
                    verdict, why = "unknown", "the contact set also draws on wider neighbourhoods; whether it covers all 3-node hyperedges was not decided"
            res.add("D-SKIP", f, norm(par.test)[:120], "skip-before-triangles", verdict, why, loc(v.fi, b_))
        # D-SERIES
        rets = [n for n in walk_no_nested(v.fi.node) if isinstance(n, ast.Return)]
        series = None
        for r in rets:
            if isinstance(r.value, ast.BinOp) and isinstance(r.value.op, ast.Div) and isinstance(r.value.left, ast.Name):
                series = r.value.left.id
                den = norm(r.value.right)
                dv = norm(v.inline(r.value.right))
                pop = dv in ("len(I_0)", "len(nodes)", "hypergraph.num_nodes()", "len(hypergraph.get_nodes())")
                res.add("D-SERIES", f, norm(r), "divisor", "ok" if pop else ("violation" if isinstance(v.inline(r.value.right), ast.Constant) or dv in ("T", "t", "Infected") else "unknown"), "" if pop else "the infected counts are not divided by the population size", loc(v.fi, r))
        if series is None:
            raise AnalysisError(f"{f}: return idiom not recognised")
        st = [n for n in walk_no_nested(v.fi.node) if isinstance(n, ast.Assign) and isinstance(n.targets[0], ast.Subscript) and norm(n.targets[0].value) == series]
        first = [s for s in st if isinstance(s.targets[0].slice, ast.Constant) and s.targets[0].slice.value == 0]
        res.check(len(first) == 1 and wl not in v.enclosing_all(first[0], (ast.While,)), "D-SERIES", f, norm(first[0]) if first else f"{series}[0] = Infected", "initial", "the series does not start at the initial infected count", loc(v.fi, v.fi.node))
        if first:
            src = norm(first[0].value)
            d0 = [n for n in walk_no_nested(v.fi.node) if isinstance(n, ast.Assign) and norm(n.targets[0]) == src and n.lineno < first[0].lineno]
            val0 = norm(d0[-1].value) if d0 else norm(v.inline(first[0].value))
            good0 = val0 in ("sum(I_0.values())", "sum(I_old.values())")
            res.add("D-SERIES", f, norm(d0[-1]) if d0 else src, "initial-count", "ok" if good0 else ("violation" if val0.startswith(("len(", "0", "1")) or val0.isdigit() else "unknown"), "" if good0 else "the initial value is not the number of initially infected nodes", loc(v.fi, first[0]))
        # early termination only in the state that is absorbing for every rate triple (nobody infected)
        res.rules["G-ABSORB"] = "the time loop runs while `Infected > 0 and t < T`: the only early exit is the die-out state, which is absorbing for all rates"
        t_ = wl.test
        vals = t_.values if isinstance(t_, ast.BoolOp) and isinstance(t_.op, ast.And) else [t_]
        params = {a.arg for a in v.fi.params}
        # the infected-count variable: a local assigned from sum(<state>.values())
        counts = {n.targets[0].id for n in walk_no_nested(v.fi.node) if isinstance(n, ast.Assign) and isinstance(n.targets[0], ast.Name) and isinstance(n.value, ast.Call) and norm(n.value.func) == "sum" and n.value.args and isinstance(n.value.args[0], ast.Call) and isinstance(n.value.args[0].func, ast.Attribute) and n.value.args[0].func.attr == "values"}
        kinds_ = []
        for a in vals:
            k_ = "other"
            if isinstance(a, ast.Name) and a.id in counts:
                k_ = "alive"
            elif isinstance(a, ast.Compare) and len(a.ops) > 1:
                operands = [a.left] + list(a.comparators)
                if any(isinstance(x, ast.Name) and x.id in counts for x in operands):
                    # 0 < Infected < N and the like: the count is bounded by something else than 0
                    k_ = "count-vs-other" if any(not (isinstance(x, ast.Constant) and x.value == 0) and not (isinstance(x, ast.Name) and x.id in counts) for x in operands) else "other"
            elif isinstance(a, ast.Compare) and len(a.ops) == 1:
                l, op, r = a.left, a.ops[0], a.comparators[0]
                if isinstance(l, ast.Name) and l.id in counts and isinstance(r, ast.Constant) and r.value == 0 and isinstance(op, (ast.Gt, ast.NotEq)):
                    k_ = "alive"
                elif isinstance(r, ast.Name) and r.id in counts and isinstance(l, ast.Constant) and l.value == 0 and isinstance(op, (ast.Lt, ast.NotEq)):
                    k_ = "alive"
                elif (isinstance(l, ast.Name) and l.id in counts) or (isinstance(r, ast.Name) and r.id in counts):
                    k_ = "count-vs-other"  # e.g. Infected < N: stops when everybody is infected
                elif (isinstance(r, ast.Name) and r.id in params and isinstance(op, ast.Lt) and isinstance(l, ast.Name)) or (isinstance(l, ast.Name) and l.id in params and isinstance(op, ast.Gt) and isinstance(r, ast.Name)):
                    k_ = "time"
            kinds_.append(k_)
        is_or = isinstance(t_, ast.BoolOp) and isinstance(t_.op, ast.Or)
        if "count-vs-other" in kinds_ or is_or and any(k_ in ("alive", "count-vs-other") for k_ in [*kinds_, "alive" if is_or and any(isinstance(x, ast.Name) and x.id in counts for x in ast.walk(t_)) else ""]):
            res.violation("G-ABSORB", f, norm(wl.test), "loop-guard", "the simulation stops early in a state that is not absorbing for every rate triple (e.g. everybody infected, while recovery can still happen)", loc(v.fi, wl))
        elif "time" in kinds_ and all(k_ in ("alive", "time") for k_ in kinds_):
            res.ok("G-ABSORB", f, norm(wl.test), "loop-guard", loc(v.fi, wl))
        else:
            res.unknown("G-ABSORB", f, norm(wl.test), "loop-guard", "the loop guard was not recognised as `infected > 0 and t < T`", loc(v.fi, wl))
        inner = [s for s in st if s not in first and wl in v.enclosing_all(s, (ast.While,))]
        res.check(len(inner) == 1 and any(inner[0] is x for x in wl.body) and inner[0].lineno > sw.end_lineno, "D-SERIES", f, norm(inner[0]) if inner else f"{series}[t] = Infected", "per-step", "the count is not recorded once per step after the sweep", loc(v.fi, wl))
        if inner:
            src = norm(inner[0].value)
            dd = [n for n in wl.body if isinstance(n, ast.Assign) and norm(n.targets[0]) == src]
            valn = norm(dd[-1].value) if dd else src
            goodn = valn == f"sum({new}.values())"
            # positively the wrong state: the count of the OLD buffer before the hand-over / of the initial state
            badn = valn in (f"sum({old}.values())", "sum(I_0.values())") and not any(isinstance(p_, ast.Assign) and norm(p_.targets[0]) == old and p_.lineno < inner[0].lineno and p_.lineno > sw.end_lineno for p_ in wl.body)
            res.add("D-SERIES", f, norm(dd[-1]) if dd else src, "count-of-new", "ok" if goodn else ("violation" if badn else "unknown"), "" if goodn else "the recorded count is not the number of infected nodes of the new state", loc(v.fi, inner[0]))

    with res.guard("N-FANCYAUG in transition_matrix"):
        from ..lints import check_fancy_augassign

        res.rules["N-FANCYAUG"] = "weights are accumulated per hyperedge: no `+=` through array-valued indices (repeated pairs would be written once)"
        check_fancy_augassign(ctx, res, "randwalk.transition_matrix")
    # ---- transition matrix
    with res.guard("transition matrix"):
        v = ctx.view("randwalk.transition_matrix")
        f = v.fi.short
        augs = [n for n in walk_no_nested(v.fi.node) if isinstance(n, ast.AugAssign) and isinstance(n.target, ast.Subscript)]
        if len(augs) != 2:
            raise AnalysisError(f"{f}: accumulation idiom not recognised")
        a, b = augs
        ia = [norm(x) for x in a.target.slice.elts] if isinstance(a.target.slice, ast.Tuple) else []
        ib = [norm(x) for x in b.target.slice.elts] if isinstance(b.target.slice, ast.Tuple) else []
        res.check(len(ia) == 2 and ia == ib[::-1] and ia[0] != ia[1], "D-SYM", f, f"{norm(a.target)} / {norm(b.target)}", "transposed", "the two updates are not the (i,j) and (j,i) cells of the same pair", loc(v.fi, a))
        res.check(norm(a.value) == norm(b.value) and isinstance(a.op, ast.Add) and isinstance(b.op, ast.Add), "D-SYM", f, f"{norm(a)} / {norm(b)}", "same-increment", "(i,j) and (j,i) receive different increments: the weight matrix is not symmetric", loc(v.fi, a))
        lp = v.enclosing(a, (ast.For,))
        outer = v.enclosing_all(a, (ast.For,))[-1]
        lname = norm(outer.target)
        inc = v.inline(a.value)
        exact = norm(a.value) == f"len({lname}) - 1" or norm(inc) == f"len({lname}) - 1"
        size_only = isinstance(inc, ast.Call) and norm(inc.func) == "len"  # len(l): off by one
        const = isinstance(inc, ast.Constant)
        # the walk of the property hops with rates (size - 1), whatever the weights of the hyperedges: an increment that reads a
        # weight (`(len(l) - 1) * HG.get_weight(l) if weighted else len(l) - 1`, with `weighted` defaulting to "is the hypergraph
        # weighted") changes K for every caller that does not pass the flag
        weighty = any(isinstance(x, ast.Call) and isinstance(x.func, ast.Attribute) and x.func.attr in ("get_weight", "get_weights") for x in ast.walk(inc)) or any(isinstance(x, ast.Attribute) and x.attr == "_weights" for x in ast.walk(inc))
        res.add("D-SYM", f, norm(a.value), "size-1", "ok" if exact else ("violation" if size_only or const or weighty else "unknown"), "" if exact else ("the increment is not (hyperedge size - 1)" if not weighty else f"the increment `{norm(inc)[:60]}` reads the weight of the hyperedge: the transition matrix of the property is built from (size - 1) alone, and random_walk / RW_stationary_state / random_walk_density call transition_matrix without a flag"), loc(v.fi, a))
        with res.guard("_loop_pairsres, v, ruleDSYM"):
            _loop_pairs(res, v, rule="D-SYM")
        normed = [n for n in walk_no_nested(v.fi.node) if isinstance(n, ast.BinOp) and isinstance(n.op, ast.Div) and ("sum(axis=1)" in norm(n.right) or "sum(axis=1)" in norm(v.inline(n.right, depth=3)) or "sum(1)" in norm(v.inline(n.right, depth=3)))]
        res.check(bool(normed), "D-SYM", f, norm(normed[0]) if normed else "T / T.sum(axis=1)", "row-normalised", "rows are not divided by their sums", loc(v.fi, v.fi.node))
    # ---- density / walk
    def tm_name(v):
        """the local that holds the transition matrix of the given hypergraph: K = <...transition_matrix(<first param>)...>"""
        first = v.fi.params[0].arg if v.fi.params else None
        out = []
        for n in walk_no_nested(v.fi.node):
            if isinstance(n, ast.Assign) and isinstance(n.targets[0], ast.Name):
                calls = [c for c in ast.walk(n.value) if isinstance(c, ast.Call) and norm(c.func).endswith("transition_matrix")]
                if calls:
                    out.append((n.targets[0].id, n, all(c.args and norm(c.args[0]) == first for c in calls)))
        return out

    with res.guard("density"):
        v = ctx.view("randwalk.random_walk_density")
        f = v.fi.short
        tms = tm_name(v)
        if not tms:
            raise AnalysisError(f"{f}: transition matrix not recognised")
        K, kdef, of_given = tms[0]
        res.check(of_given, "D-STEP", f, norm(kdef), "K", "K is not the transition matrix of the given hypergraph", loc(v.fi, kdef))
        lp = [n for n in walk_no_nested(v.fi.node) if isinstance(n, ast.For)]
        upd = [n for l in lp for n in ast.walk(l) if isinstance(n, ast.Assign) and isinstance(n.value, ast.BinOp) and isinstance(n.value.op, ast.MatMult)]
        if not upd:
            res.unknown("D-STEP", f, "s = s @ K", "s<-sK", "the propagation step was not recognised", loc(v.fi, v.fi.node))
        for u in upd:
            right_is_k = norm(u.value.right) == K or any(isinstance(c_, ast.Call) and norm(c_.func).endswith("transition_matrix") for c_ in ast.walk(v.inline(u.value.right, depth=4)))
            good = norm(u.value.left) == norm(u.targets[0]) and right_is_k
            res.check(good, "D-STEP", f, norm(u), "s<-sK", "the density is not propagated as s <- s K (previous density times the transition matrix)", loc(v.fi, u))
            l_ = v.enclosing(u, (ast.For,))
            app = [n for n in ast.walk(l_) if isinstance(n, ast.Call) and isinstance(n.func, ast.Attribute) and n.func.attr == "append"] if l_ is not None else []
            if app:
                res.check(len(app) == 1 and norm(app[0].args[0]) == norm(u.targets[0]) and app[0].lineno >= u.lineno, "D-STEP", f, norm(app[0]), "append-new", "the appended density is not the one just computed", loc(v.fi, app[0]))
            else:
                res.unknown("D-STEP", f, "density_list.append(s)", "append-new", "the statement that records the new density was not recognised", loc(v.fi, u))
    with res.guard("walk"):
        v = ctx.view("randwalk.random_walk")
        f = v.fi.short
        tms = tm_name(v)
        ch = [n for n in walk_no_nested(v.fi.node) if isinstance(n, ast.Call) and norm(n.func) == "np.random.choice"]
        if len(ch) != 1 or not tms:
            raise AnalysisError(f"{f}: step idiom not recognised")
        K = tms[0][0]
        rets = [n for n in walk_no_nested(v.fi.node) if isinstance(n, ast.Return) and isinstance(n.value, ast.Name)]
        walk = rets[0].value.id if rets else None
        kw = {k.arg: k.value for k in ch[0].keywords}
        pexp = kw.get("p")
        if pexp is None or walk is None:
            res.add("D-STEP", f, norm(ch[0]), "row-of-last", "violation" if pexp is None else "unknown", "the next node is not drawn with the transition row of the last visited node", loc(v.fi, ch[0]))
        else:
            txt = norm(pexp)
            good = txt in (f"{K}[{walk}[-1], :]", f"{K}[{walk}[-1]]")
            bad = isinstance(pexp, ast.Subscript) and norm(pexp.value) == K and (f"{walk}[0]" in txt or ":, " in txt)
            res.add("D-STEP", f, norm(ch[0]), "row-of-last", "ok" if good else ("violation" if bad else "unknown"), "" if good else "the next node is not drawn with the transition row of the last visited node", loc(v.fi, ch[0]))
        asg = v.parent.get(id(ch[0]))
        app = [n for n in walk_no_nested(v.fi.node) if isinstance(n, ast.Call) and isinstance(n.func, ast.Attribute) and n.func.attr == "append" and norm(n.func.value) == walk]
        if isinstance(asg, ast.Assign) and app:
            res.check(len(app) == 1 and norm(app[0].args[0]) == norm(asg.targets[0]), "D-STEP", f, norm(app[0]), "append-drawn", "the drawn node is not what gets appended to the walk", loc(v.fi, ch[0]))
        elif isinstance(asg, ast.Call) and isinstance(asg.func, ast.Attribute) and asg.func.attr == "append" and norm(asg.func.value) == walk:
            res.ok("D-STEP", f, norm(asg), "append-drawn", loc(v.fi, ch[0]))
        else:
            res.unknown("D-STEP", f, "nodes.append(next_node)", "append-drawn", "the statement that extends the walk was not recognised", loc(v.fi, ch[0]))
    # ---- D-ROWALIGN: vectors that live next to the transition matrix are indexed like its rows - by node label.  A vector read off
    #      `<dict keyed by node>.values()` follows the order in which the nodes were first seen, which is the label order only for
    #      hypergraphs whose nodes were inserted in increasing order
    with res.guard("D-ROWALIGN"):
        from ..kinds import Atom as _A, Dct as _D, strip_none as _sn

        res.rules["D-ROWALIGN"] = "a state / density vector is never read off the values of a dict keyed by node label (insertion order is not row order)"
        mod = ctx.require("randwalk.transition_matrix").module
        n_v = 0
        for g in ctx.prog.functions.values():
            if g.module is not mod or g.parent is not None:
                continue
            gv = ctx.view(g)
            for c in walk_no_nested(g.node):
                if not (isinstance(c, ast.Call) and isinstance(c.func, ast.Attribute) and c.func.attr == "values" and not c.args):
                    continue
                try:
                    k = _sn(gv.kind(c.func.value))
                except Exception:
                    continue
                if not (isinstance(k, _D) and isinstance(k.key, _A) and k.key.name == "NODE"):
                    continue
                # consumed as an array / list (not merely summed or iterated for a reduction)
                par = gv.parent.get(id(c))
                arrayish = isinstance(par, ast.Call) and (norm(par.func).split(".")[-1] in ("array", "asarray", "fromiter", "list", "tuple", "hstack", "stack"))
                if arrayish:
                    n_v += 1
                    res.violation("D-ROWALIGN", g.short, norm(par)[:100], norm(c.func.value), f"the vector is read off `{norm(c)[:40]}`, a dict keyed by node label: entry k belongs to the k-th INSERTED node, while the rows of the transition matrix are indexed by label - the result is a permutation of the intended vector unless nodes were first seen in increasing order", loc(g, par))
        if n_v == 0:
            res.ok("D-ROWALIGN", "randwalk", "no vector read off a node-keyed dict", "scan", mod.relpath)
    res.assumptions += ["transition_matrix / random walks index by label (one-symbol exemption: the property restricts them to nodes 0..N-1)", "numeric stochasticity / stationarity are not decided"]
    with res.guard("general lint pack over the property's files"):
        from ..lints import check_pack

        check_pack(ctx, res, "C18")
    return res

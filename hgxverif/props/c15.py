import ast

from .. import rng as R
from ..model import AnalysisError, is_self_attr, loc, norm, walk_no_nested
from ..report import Result
from ..rules_container import _atoms, _implied_branch
from ._containers import KIND_RULES

LEVEL_TEXT = (
    "One clause of C15 is structural and is decided statically: fit() never changes a parameter supplied at construction. For "
    "each of u and w the flag that records 'was supplied' is set from `self.<p> is None`, every store to self.<p> inside fit is "
    "dominated by the branch on which the flag says 'not supplied', the initialiser is called only on that branch, and no function "
    "in fit's call closure stores to self.<p> or updates in place an array that aliases it.  The numeric clauses (Poisson "
    "parameters, kappa, expected statistics, symmetry, finiteness, likelihood ascent) are not decided."
)

PARAMS = ("w", "u")


def run(ctx):
    res = Result("C15")
    res.rules.update({k: KIND_RULES[k] for k in ("C-SIG",)})
    res.rules.update({
        "E-FIXED": "stores to a model parameter in fit() are dominated by its 'was not supplied' flag; the initialiser runs only on that branch",
        "E-NOINPLACE": "no function reachable from fit() stores to self.u / self.w, updates an alias of them in place, or updates in place an array it received (parameter / value returned by a self-method)",
    })
    v = ctx.view("HyMMSBM.fit")
    fi = v.fi
    f = fi.short
    ctx.add_sites(res, ctx.sites(rules=("C-SIG",), funcs=[f]))
    for p in PARAMS:
      with res.guard(f"E-FIXED for self.{p}"):
        # names whose truth value says whether `p` was supplied: (name, value that means NOT supplied)
        flags = {}
        flag_sites = {}
        for n in walk_no_nested(fi.node):
            # `if self.p is None: fixed_p = False ... else: fixed_p = True`
            if isinstance(n, ast.If) and norm(n.test) in (f"self.{p} is None", f"self.{p} is not None"):
                is_none_true = norm(n.test).endswith("is None")
                tb, fb = (n.body, n.orelse) if is_none_true else (n.orelse, n.body)
                for want_none, blk in ((True, tb), (False, fb)):
                    for st_ in blk:
                        for x in ast.walk(st_):
                            if isinstance(x, ast.Assign) and isinstance(x.targets[0], ast.Name) and isinstance(x.value, ast.Constant) and isinstance(x.value.value, bool):
                                flag_sites.setdefault(x.targets[0].id, []).append((want_none, x.value.value, n))
            # `infer_p = self.p is None` / `fixed_p = self.p is not None`
            if isinstance(n, ast.Assign) and isinstance(n.targets[0], ast.Name) and norm(n.value) in (f"self.{p} is None", f"self.{p} is not None"):
                flags[n.targets[0].id] = norm(n.value).endswith("is None")
                flag_sites.setdefault(n.targets[0].id, []).append(("alias", None, n))
        for name, sites in flag_sites.items():
            by = {wn: val for wn, val, _ in sites if wn in (True, False)}
            if True in by and False in by and by[True] != by[False]:
                flags[name] = by[True]  # the value the flag has when self.p is None
        # `fixed_p = False` up front, `else: fixed_p = True` in the test: the flag speaks about the caller's value only AFTER the test
        # has run - a use that the test does not dominate (an exception handler entered before it) sees the preset
        flag_needs_dom = {}
        presets = {}
        for name, sites in flag_sites.items():
            if name in flags:
                continue
            by = {wn: val for wn, val, _ in sites if wn in (True, False)}
            ifs_ = [s_[2] for s_ in sites if s_[0] in (True, False)]
            pre = [x for x in walk_no_nested(fi.node) if isinstance(x, ast.Assign) and any(isinstance(t, ast.Name) and t.id == name for t in x.targets) and isinstance(x.value, ast.Constant) and isinstance(x.value.value, bool) and not any(any(x is y for y in ast.walk(i_)) for i_ in ifs_)]
            if len(by) == 1 and pre and all(x.value.value == pre[0].value.value for x in pre):
                (wn, val), = by.items()
                if val != pre[0].value.value:
                    # value of the flag when self.p is None
                    flags[name] = pre[0].value.value if wn is False else val
                    flag_needs_dom[name] = ifs_[0]
                    presets[name] = {id(x) for x in pre}
        if not flags:
            raise AnalysisError(f"{f}: 'was supplied' flag for `{p}` not recognised (idiom changed)")
        # a flag must not be re-assigned elsewhere
        for name in flags:
            defining = {id(s_[2]) for s_ in flag_sites[name]}
            others = [x for x in walk_no_nested(fi.node) if isinstance(x, ast.Assign) and any(isinstance(t, ast.Name) and t.id == name for t in x.targets) and id(x) not in defining and id(x) not in presets.get(name, ()) and not any(id(i) in defining for i in v.enclosing_all(x, (ast.If,)))]
            res.check(not others, "E-FIXED", f, norm(others[0]) if others else f"{name} = (self.{p} is [not] None)", p + ":flag", f"`{name}` is re-assigned outside the `self.{p} is None` test", loc(fi, others[0] if others else fi.node))

        def not_supplied_at(node) -> bool:
            """node is reached only when `p` was not supplied: under a flag test of the right polarity, or directly under
            `self.p is None`"""
            nid = v.cfg_id(node)
            for n in walk_no_nested(fi.node):
                if not isinstance(n, ast.If):
                    continue
                tid = v.cfg.by_ast[id(n.test)]
                for atom, _ in _atoms(n.test, True):
                    if isinstance(atom, ast.Name) and atom.id in flags:
                        lab = _implied_branch(n.test, atom, flags[atom.id])
                        if lab and v.cfg.branch_dominated(tid, lab, nid):
                            dom_if = flag_needs_dom.get(atom.id)
                            if dom_if is not None and not v.cfg.dominates(v.cfg.by_ast[id(dom_if.test)], tid):
                                continue  # the flag still holds its preset on some path to this test
                            return True
                    if isinstance(atom, ast.Compare) and norm(atom) in (f"self.{p} is None", f"self.{p} is not None"):
                        lab = _implied_branch(n.test, atom, norm(atom).endswith("is None"))
                        # only before the first store to self.p (afterwards the test no longer speaks about the caller's value)
                        if lab and v.cfg.branch_dominated(tid, lab, nid) and not any(v.cfg.reachable(v.cfg_id(s_), tid) and v.cfg_id(s_) != tid for s_ in stores_all if s_ is not node and not any(node is y for y in ast.walk(s_))):
                            return True
            return False

        stores_all = [x for x in walk_no_nested(fi.node) if isinstance(x, (ast.Assign, ast.AugAssign)) and any(is_self_attr(t, p) or (isinstance(t, ast.Subscript) and is_self_attr(t.value, p)) for t in (x.targets if isinstance(x, ast.Assign) else [x.target]))]
        # initialiser only on the not-supplied branch
        inits = [x for x in walk_no_nested(fi.node) if isinstance(x, ast.Call) and isinstance(x.func, ast.Attribute) and is_self_attr(x.func) and x.func.attr == f"_init_{p}"]
        for c in inits:
            res.check(not_supplied_at(c), "E-FIXED", f, norm(c), p + ":init", f"the supplied `{p}` is overwritten by a random initialisation", loc(fi, c))
        # stores
        if not stores_all:
            raise AnalysisError(f"{f}: no store to self.{p} found (anchor vanished)")
        for s_ in stores_all:
            res.check(not_supplied_at(s_), "E-FIXED", f, norm(s_), p + ":store", f"self.{p} is assigned on a path where it may have been supplied: a `{p}` supplied at construction is changed by fit()", loc(fi, s_))
    # ---- every other constructor parameter (max_hye_size, K, ...): fit() may fill it in only when it was left at None
    with res.guard("E-FIXED for the other constructor parameters"):
        init = ctx.require("HyMMSBM.__init__")
        ctor = {a.arg for a in init.params[1:]} | {a.arg for a in init.node.args.kwonlyargs}
        supplied = set()
        for n in walk_no_nested(init.node):
            if isinstance(n, ast.Assign) and len(n.targets) == 1 and is_self_attr(n.targets[0]) and any(isinstance(x, ast.Name) and x.id in ctor for x in ast.walk(n.value)):
                supplied.add(n.targets[0].attr)
        for p in sorted(supplied - set(PARAMS)):
            def _flat(ts):
                for t in ts:
                    if isinstance(t, (ast.Tuple, ast.List)):
                        yield from _flat(t.elts)
                    else:
                        yield t

            stores = [x for x in walk_no_nested(fi.node) if isinstance(x, (ast.Assign, ast.AugAssign)) and any(is_self_attr(t, p) for t in _flat(x.targets if isinstance(x, ast.Assign) else [x.target]))]
            for s_ in stores:
                nid = v.cfg_id(s_)
                ok = False
                for n in walk_no_nested(fi.node):
                    if not isinstance(n, ast.If):
                        continue
                    tid = v.cfg.by_ast[id(n.test)]
                    test_i = v.inline(n.test)  # `current = self.p; if current is None:`
                    for atom, _ in _atoms(test_i, True):
                        if isinstance(atom, ast.Compare) and norm(atom) in (f"self.{p} is None", f"self.{p} is not None"):
                            lab = _implied_branch(test_i, atom, norm(atom).endswith("is None"))
                            # (the alias must have been read before any store to self.p: it is, when the test dominates the store)
                            if lab and v.cfg.branch_dominated(tid, lab, nid):
                                ok = True
                # `self.p = self.p` style no-ops and stores of the attribute's own value are no change
                same = isinstance(s_, ast.Assign) and is_self_attr(s_.value, p) and not isinstance(s_.targets[0], (ast.Tuple, ast.List))
                # a value chosen earlier between the supplied and the inferred one (`x = self.p if ... else ...`): not decided
                val = getattr(s_, "value", None)
                if isinstance(s_, ast.Assign) and isinstance(s_.targets[0], (ast.Tuple, ast.List)) and isinstance(val, (ast.Tuple, ast.List)) and len(val.elts) == len(s_.targets[0].elts):
                    val = next((e for t, e in zip(s_.targets[0].elts, val.elts) if is_self_attr(t, p)), val)
                rv = v.inline(val) if val is not None else None
                undecided = rv is not None and (any(is_self_attr(x, p) for x in ast.walk(rv)) or (isinstance(val, ast.Name) and isinstance(v.resolve(val), ast.Name)))
                res.add("E-FIXED", f, norm(s_), p + ":store", "ok" if ok or same else ("unknown" if undecided else "violation"), "" if ok or same else f"self.{p} is assigned on a path where it may have been supplied: a `{p}` given at construction is changed by fit()", loc(fi, s_))
    with res.guard("F-SEL"):
        from ..forward import check_same_named_forwarding

        res.rules["F-SEL"] = "a HyMMSBM method that receives the size selection `d` hands it to every method of the class that takes `d` (sibling agreement: C, C', C'' and kappa are evaluated for the same sizes)"
        check_same_named_forwarding(ctx, res, "HyMMSBM", ("d",))
    # ---- B-ALLSIZES: `d="all"` stands for the sizes 2..max_hye_size, both ends included: np.arange(2, max_hye_size + 1)
    with res.guard("B-ALLSIZES"):
        res.rules["B-ALLSIZES"] = "`d='all'` expands to np.arange(2, max_hye_size + 1): the exclusive end of the range is one past the largest size (a cap at N is N + 1)"
        dv = ctx.view("HyMMSBM._dimensions_to_numpy")
        n_ar = 0
        for n in walk_no_nested(dv.fi.node):
            if not (isinstance(n, ast.Call) and norm(n.func) in ("np.arange", "numpy.arange", "range") and len(n.args) >= 2):
                continue
            n_ar += 1
            lo, hi = n.args[0], n.args[1]
            exprs = [hi]
            if isinstance(hi, ast.Name):
                exprs = [a_.value for a_ in walk_no_nested(dv.fi.node) if isinstance(a_, ast.Assign) and any(isinstance(t, ast.Name) and t.id == hi.id for t in a_.targets)] or [hi]
            verdict, why = "unknown", "the upper end of the size range was not recognised"
            texts = [norm(e) for e in exprs]
            if all(t in ("self.max_hye_size + 1", "1 + self.max_hye_size") for t in texts):
                verdict, why = "ok", ""
            for e in exprs:
                t = norm(e)
                if t in ("self.max_hye_size", "self.max_hye_size - 1"):
                    verdict, why = "violation", f"the range ends at `{t}` (exclusive): the largest size is left out of `d='all'`"
                for c in ast.walk(e):
                    if isinstance(c, ast.Call) and isinstance(c.func, ast.Name) and c.func.id == "min":
                        for a_ in c.args:
                            if norm(a_) in ("self.N", "N", "self.N()", "len(self.u)", "self.u.shape[0]"):
                                verdict, why = "violation", f"the exclusive end of the size range is capped at `{norm(a_)}`: when max_hye_size equals the number of nodes the size-N term (the hyperedge of all nodes) is dropped from `d='all'` - the cap has to be N + 1"
            if not (isinstance(lo, ast.Constant) and lo.value == 2):
                verdict, why = ("violation", f"the sizes start at `{norm(lo)}`, not at 2") if isinstance(lo, ast.Constant) else (verdict, why)
            res.add("B-ALLSIZES", dv.fi.short, norm(n), "2..max_hye_size", verdict, why, loc(dv.fi, n))
        if n_ar == 0:
            res.unknown("B-ALLSIZES", dv.fi.short, "np.arange(2, self.max_hye_size + 1)", "2..max_hye_size", "the expansion of d='all' was not recognised", loc(dv.fi, dv.fi.node))
    with res.guard("N-VECTYPE"):
        from ..lints import check_vectorize_otypes

        res.rules["N-VECTYPE"] = "a function handed to np.vectorize without otypes returns one numeric type on every path (the output dtype is taken from the first element)"
        check_vectorize_otypes(ctx, res, "hypergraphx/communities/hy_mmsbm/model.py")
    # ---- E-IDCACHE: a quantity derived from u / w that is cached on the model and revalidated by object IDENTITY is stale after
    #      an in-place update of the arrays - and the code base has such updates (the sampler rescales `model.u *= c`)
    with res.guard("E-IDCACHE"):
        res.rules["E-IDCACHE"] = "no value derived from u / w is cached on the model and revalidated by identity of the arrays (in-place updates of u / w exist in the code base and keep the identity)"
        inplace = []
        for q_, g_ in sorted(ctx.prog.functions.items()):
            for n in walk_no_nested(g_.node):
                tg = n.target if isinstance(n, ast.AugAssign) else (n.targets[0] if isinstance(n, ast.Assign) and isinstance(n.targets[0], ast.Subscript) else None)
                base = tg.value if isinstance(tg, ast.Subscript) else tg
                if isinstance(base, ast.Attribute) and base.attr in PARAMS and (isinstance(n, ast.AugAssign) or isinstance(tg, ast.Subscript)) and "hy_mmsbm" in g_.module.relpath:
                    inplace.append((g_, n))
        n_id = 0
        for name_, mfi in sorted(ctx.methods("HyMMSBM").items()):
            mv = ctx.view(mfi)
            def is_param_ref(x):
                """self.u / self.w, or a local bound to one of them (`u, w = self.u, self.w`)"""
                if any(is_self_attr(x, p_) for p_ in PARAMS):
                    return True
                if isinstance(x, ast.Name):
                    r_ = mv.resolve(x)
                    return r_ is not x and any(is_self_attr(r_, p_) for p_ in PARAMS)
                return False

            ident = [c for c in walk_no_nested(mfi.node) if isinstance(c, ast.Compare) and len(c.ops) == 1 and isinstance(c.ops[0], (ast.Is, ast.IsNot)) and any(is_param_ref(x) for x in (c.left, c.comparators[0])) and not any(isinstance(x, ast.Constant) and x.value is None for x in (c.left, c.comparators[0]))]
            stores_attr = [x for x in walk_no_nested(mfi.node) if isinstance(x, ast.Assign) and any(is_self_attr(t) and t.attr not in PARAMS for t in x.targets)]
            for c in ident:
                n_id += 1
                if stores_attr and inplace:
                    g_, n_ = inplace[0]
                    res.violation("E-IDCACHE", mfi.short, norm(c), "identity-keyed", f"a value cached on the model is reused as long as u / w are the same OBJECTS; `{norm(n_)}` ({loc(g_, n_)}) changes them in place, so expected degrees / sizes and the likelihood are answered for the old parameters", loc(mfi, c))
                else:
                    res.unknown("E-IDCACHE", mfi.short, norm(c), "identity-keyed", "identity comparison of a parameter array", loc(mfi, c))
        if not n_id:
            res.ok("E-IDCACHE", "HyMMSBM", "no identity-keyed cache", "identity-keyed", "")
    # ---- closure: nobody else stores to self.u / self.w or mutates aliases in place
    with res.guard("closure: nobody else stores to self.u / self.w or mutates aliases in place"):
        exempt = {"_init_w", "_init_u", "__init__", "_check_and_infer_param_consistency"}
        # helpers that only the initialisers call (`_init_w` split into `_init_w_uniform` / `_init_w_from_prior`) initialise too
        callers = {}
        for m_ in ctx.methods("HyMMSBM").values():
            for c_ in walk_no_nested(m_.node):
                if isinstance(c_, ast.Call):
                    for g_ in ctx.callees(m_, c_):
                        callers.setdefault(g_.name, set()).add(m_.name)
        grew = True
        while grew:
            grew = False
            for nm_, cs_ in callers.items():
                if nm_ not in exempt and cs_ and cs_ <= exempt:
                    exempt.add(nm_)
                    grew = True
        clo = [g for g in R.closure(ctx, fi) if g.qualname != fi.qualname and g.name not in exempt]
        names = []
        for g in clo:
            gv = ctx.view(g)
            alias = set()
            for n in walk_no_nested(g.node):
                if isinstance(n, ast.Assign):
                    tg, val = n.targets[0], n.value
                    if isinstance(tg, ast.Tuple) and isinstance(val, ast.Tuple):
                        for a, b in zip(tg.elts, val.elts):
                            if isinstance(a, ast.Name) and any(is_self_attr(b, p) for p in PARAMS):
                                alias.add(a.id)
                    elif isinstance(tg, ast.Name) and any(is_self_attr(val, p) for p in PARAMS):
                        alias.add(tg.id)
            bad = []
            soft = []
            for n in walk_no_nested(g.node):
                if isinstance(n, (ast.Assign, ast.AugAssign)):
                    for t in (n.targets if isinstance(n, ast.Assign) else [n.target]):
                        base = t.value if isinstance(t, ast.Subscript) else t
                        if any(is_self_attr(base, p) for p in PARAMS):
                            # a helper that is handed the caller's 'was supplied' flags and stores under a test of
                            # one of its parameters is not decided here (the caller's flag discipline is E-FIXED)
                            gparams = ({a.arg for a in g.params} | {a.arg for a in g.node.args.kwonlyargs}) - {"self"}
                            nid = gv.cfg_id(n)
                            conditional = False
                            for i_ in [x for x in walk_no_nested(g.node) if isinstance(x, ast.If)]:
                                if {y.id for y in ast.walk(i_.test) if isinstance(y, ast.Name)} & gparams:
                                    tid = gv.cfg.by_ast.get(id(i_.test))
                                    if tid is not None and (gv.cfg.branch_dominated(tid, "T", nid) or gv.cfg.branch_dominated(tid, "F", nid)):
                                        conditional = True
                            if conditional:
                                soft.append((n, "store to " + norm(base) + " under a flag parameter of the helper"))
                            else:
                                bad.append((n, "store to " + norm(base)))
                        if isinstance(n, ast.AugAssign) and isinstance(t, ast.Name) and t.id in alias:
                            bad.append((n, f"in-place update of `{t.id}`, an alias of the model parameter"))
                        if isinstance(t, ast.Subscript) and isinstance(t.value, ast.Name) and t.value.id in alias:
                            bad.append((n, f"element store into `{t.value.id}`, an alias of the model parameter"))
                if isinstance(n, ast.Call):
                    for kw in n.keywords:
                        if kw.arg == "out" and (any(is_self_attr(kw.value, p) for p in PARAMS) or (isinstance(kw.value, ast.Name) and kw.value.id in alias)):
                            bad.append((n, "out= writes into the model parameter"))
            # helpers of the EM loop are pure functions of (u, w, data): an in-place update of an array that was not
            # created in the helper itself (a parameter, or something a self-method handed back) corrupts what the caller shares
            if g.module.name.startswith("hypergraphx.communities.hy_mmsbm"):
                pnames = {a.arg for a in g.params} - {"self"}
                from_calls = set()
                for n in walk_no_nested(g.node):
                    if isinstance(n, ast.Assign) and isinstance(n.value, ast.Call) and isinstance(n.value.func, ast.Attribute) and is_self_attr(n.value.func):
                        for t in n.targets:
                            for x in ast.walk(t):
                                if isinstance(x, ast.Name):
                                    from_calls.add(x.id)
                for n in walk_no_nested(g.node):
                    if isinstance(n, ast.AugAssign) and isinstance(n.target, (ast.Name, ast.Subscript)):
                        base = n.target.value if isinstance(n.target, ast.Subscript) else n.target
                        if isinstance(base, ast.Name) and base.id in (pnames | from_calls):
                            bad.append((n, f"in-place update of `{base.id}`, which the caller (or another EM iteration) shares"))
                    if isinstance(n, ast.Assign) and isinstance(n.targets[0], ast.Subscript) and isinstance(n.targets[0].value, ast.Name) and n.targets[0].value.id in pnames:
                        bad.append((n, f"element store into the parameter `{n.targets[0].value.id}`"))
            names.append(g.short)
            for n, why in soft:
                res.unknown("E-NOINPLACE", g.short, norm(n), "closure-of-fit", why + ": whether the flag is the caller's 'was not supplied' flag is not decided", loc(g, n))
            if bad:
                for n, why in bad:
                    res.violation("E-NOINPLACE", g.short, norm(n), "closure-of-fit", f"{why}: reachable from fit(), so a supplied parameter can be changed", loc(g, n))
            else:
                res.ok("E-NOINPLACE", g.short, "no store / in-place update of self.u, self.w", "closure-of-fit", loc(g, g.node))
        res.notes.append("closure of fit(): " + ", ".join(sorted(names)))
    res.discovery["max_hye_size_inference"] = "HyMMSBM.fit infers max_hye_size as max(len(hye) for hye in hypergraph); iterating a Hypergraph yields (edge, id) items, so the value is always 2 (K-LEN: len() of a (nodes, id) pair). Outside the clauses claimed for C15; not repaired."
    res.assumptions += ["numpy arithmetic `a / b`, `a * b` allocates a new array (only augmented assignment, element stores and out= are in-place)"]
    with res.guard("general lint pack over the property's files"):
        from ..lints import check_pack

        check_pack(ctx, res, "C15")
    return res

import ast

from .. import forward as F
from ..kinds import NODE, Atom, Seq, Tup, _Top, elem_of, unrole
from ..model import AnalysisError, loc, norm, walk_no_nested
from ..report import Result
from ._containers import KIND_RULES
from ._vid import check_inverse_tables, dict_stores

LEVEL_TEXT = (
    "Structural necessary conditions of C10, decided statically: the vertex-id tables of every projection are inverse of each "
    "other and graph vertices / edges are created from ids only; line-graph links are thresholded with `w >= s`; no hyperedge is "
    "filtered by a quantity of another unit than the threshold (kind arithmetic: len(e)-1 is an ORDER, s bounds a SIZE); the "
    "directed line graph draws e->f from target(e) and source(f); pair enumerations cover i<j over the whole list; isolated "
    "nodes are kept when asked; simplices are canonicalised before insertion.  Decides the structure, not the similarity values."
)


def _loop_pairs(res, v, rule="L-PAIRS"):
    """nested `for i in range(len(X) - 1): for j in range(i + 1, len(X))` (or range(len(X)) outside) over the same X."""
    f = v.fi.short
    found = 0
    for outer in [n for n in walk_no_nested(v.fi.node) if isinstance(n, ast.For)]:
        if not (isinstance(outer.iter, ast.Call) and isinstance(outer.iter.func, ast.Name) and outer.iter.func.id == "range" and isinstance(outer.target, ast.Name)):
            continue
        inner = [n for n in outer.body if isinstance(n, ast.For) and isinstance(n.iter, ast.Call) and isinstance(n.iter.func, ast.Name) and n.iter.func.id == "range"]
        for inn in inner:
            found += 1
            i = outer.target.id
            oa, ia = outer.iter.args, inn.iter.args
            X = None
            ok_outer = False
            if len(oa) == 1:
                e = oa[0]
                if isinstance(e, ast.BinOp) and isinstance(e.op, ast.Sub) and isinstance(e.right, ast.Constant) and e.right.value == 1 and _is_len(e.left):
                    X, ok_outer = norm(e.left.args[0]), True
                elif _is_len(e):
                    X, ok_outer = norm(e.args[0]), True
                elif isinstance(e, ast.Name):
                    X, ok_outer = e.id, True  # range(order) with order = len(edges[0]) (uniform hypergraphs)
            ok_inner = len(ia) == 2 and isinstance(ia[0], ast.BinOp) and isinstance(ia[0].op, ast.Add) and norm(ia[0].left) == i and isinstance(ia[0].right, ast.Constant) and ia[0].right.value == 1
            same = ok_inner and ((_is_len(ia[1]) and norm(ia[1].args[0]) == X) or (isinstance(ia[1], ast.Name) and ia[1].id == X))
            res.check(ok_outer and ok_inner and same, rule, f, f"{norm(outer.iter)} / {norm(inn.iter)}", "i<j", "the pair enumeration does not cover every unordered pair i<j of the same list (first / last pair missed, or pairs repeated)", loc(v.fi, outer))
    return found


def _is_len(e):
    return isinstance(e, ast.Call) and isinstance(e.func, ast.Name) and e.func.id == "len" and len(e.args) == 1


def run(ctx):
    res = Result("C10")
    res.rules.update({k: KIND_RULES[k] for k in ("C-SIG", "K-ARG", "K-SIZE")})
    res.rules.update({
        "K-KEY-LOCAL": "id tables are subscripted with keys of their key kind",
        "K-VID": "id tables are inverse of each other; graph vertices and edges are created from ids looked up in them",
        "M-THRESH": "line-graph links are kept iff the similarity is at least s (`w >= s`)",
        "K-ROLE": "directed line graph: the arc tail is the hyperedge whose TARGET set entered the distance, the head the one whose SOURCE set did",
        "L-PAIRS": "pair enumerations cover i<j over the same list",
        "F-USE": "keep_isolated / s / weighted / distance are used",
        "S-CANON": "every simplex is canonicalised (tuple(sorted(.))) before insertion and all subsets (sizes 0..len) are generated",
    })
    files = ["hypergraphx/representations/projections.py", "hypergraphx/representations/simplicial_complex.py", "hypergraphx/measures/edge_similarity.py"]
    ctx.add_sites(res, ctx.sites(rules=("C-SIG", "K-ARG", "K-SIZE", "K-KEY-LOCAL", "K-MEM"), files=files))

    # ---- bipartite projection
    with res.guard("bipartite projection"):
        v = ctx.view("projections.bipartite_projection")
        f = v.fi.short
        with res.guard("check_inverse_tablesres, v, id_to_obj, obj_to_id"):
            check_inverse_tables(res, v, "id_to_obj", "obj_to_id")
        for n in walk_no_nested(v.fi.node):
            if isinstance(n, ast.Call) and isinstance(n.func, ast.Attribute) and norm(n.func.value) == "g" and n.func.attr in ("add_node", "add_edge"):
                for a in n.args:
                    ok = isinstance(a, ast.Subscript) and norm(a.value) == "obj_to_id"
                    res.check(ok, "K-VID", f, norm(n), "from-id-table", "a graph vertex / edge is created from a raw object instead of its id in obj_to_id (the id table would not map it back)", loc(v.fi, n))
        rets = [n for n in walk_no_nested(v.fi.node) if isinstance(n, ast.Return)]
        res.check(all(isinstance(r.value, ast.Tuple) and len(r.value.elts) == 2 and norm(r.value.elts[1]) == "id_to_obj" for r in rets), "K-VID", f, norm(rets[0]), "returns-id-table", "the projection does not return the id->object table", loc(v.fi, rets[0]))
        # membership edges: for node in edge: g.add_edge(obj_to_id[edge], obj_to_id[node])
        me = [n for n in walk_no_nested(v.fi.node) if isinstance(n, ast.Call) and isinstance(n.func, ast.Attribute) and n.func.attr == "add_edge" and norm(n.func.value) == "g"]
        for n in me:
            lp = v.enclosing(n, (ast.For,))
            okl = lp is not None and isinstance(lp.target, ast.Name) and any(isinstance(a, ast.Subscript) and norm(a.slice) == lp.target.id for a in n.args) and any(isinstance(a, ast.Subscript) and norm(a.slice) == norm(lp.iter) for a in n.args)
            res.check(okl, "K-VID", f, norm(n), "membership", "bipartite links do not join a hyperedge with each of ITS nodes", loc(v.fi, n))
    # ---- line graphs
    with res.guard("line graphs"):
        for d, tabs in (("projections.line_graph", ("edge_to_id", "id_to_edge")), ("projections.directed_line_graph", ("edge_to_id", "id_to_edge"))):
            v = ctx.view(d)
            f = v.fi.short
            with res.guard("check_inverse_tablesres, v, tabs"):
                check_inverse_tables(res, v, *tabs)
            with res.guard("F.check_usectx, res, d, s, weighted, distance"):
                F.check_use(ctx, res, d, ("s", "weighted", "distance"))
            # M-THRESH
            cmps = [n for n in walk_no_nested(v.fi.node) if isinstance(n, ast.Compare) and len(n.ops) == 1 and {norm(n.left), norm(n.comparators[0])} >= {"s"} and not any(_is_len(x) for x in ast.walk(n))]
            if not cmps:
                raise AnalysisError(f"{f}: threshold comparison not found")
            for c in cmps:
                s_right = norm(c.comparators[0]) == "s"
                op = type(c.ops[0])
                ok = (s_right and op is ast.GtE) or (not s_right and op is ast.LtE)
                res.check(ok, "M-THRESH", f, norm(c), "w>=s", "the similarity threshold is not `w >= s` (links with similarity exactly s are lost, or weaker links kept)", loc(v.fi, c))
                other = c.left if s_right else c.comparators[0]
                src = None
                if isinstance(other, ast.Name):
                    defs = [m for m in walk_no_nested(v.fi.node) if isinstance(m, ast.Assign) and isinstance(m.targets[0], ast.Name) and m.targets[0].id == other.id]
                    src = defs[-1].value if defs else None
                res.check(src is not None and isinstance(src, ast.Call) and norm(src.func) == "_distance", "M-THRESH", f, norm(c), "w=_distance", "the thresholded quantity is not the similarity of the two hyperedges", loc(v.fi, c))
            # graph edges use ids of the id table; vertices are 0..len(h)-1 and the counter enumerates h.get_edges()
            for n in walk_no_nested(v.fi.node):
                if isinstance(n, ast.Call) and isinstance(n.func, ast.Attribute) and norm(n.func.value) == "g" and n.func.attr == "add_edge":
                    ok = len(n.args) == 2 and all(isinstance(a, ast.Subscript) and norm(a.value) == "edge_to_id" for a in n.args)
                    res.check(ok, "K-VID", f, norm(n), "from-id-table", "a line-graph link is created from raw hyperedges instead of their ids", loc(v.fi, n))
                if isinstance(n, ast.Call) and isinstance(n.func, ast.Attribute) and norm(n.func.value) == "g" and n.func.attr == "add_nodes_from":
                    txt = norm(n.args[0]) if n.args else ""
                    res.check("range(len(h))" in txt or "range(len(edges))" in txt or "range(cont)" in txt, "K-VID", f, norm(n), "one-vertex-per-edge", "the line graph does not get exactly one vertex per hyperedge id", loc(v.fi, n))
            rets = [n for n in walk_no_nested(v.fi.node) if isinstance(n, ast.Return)]
            res.check(all(isinstance(r.value, ast.Tuple) and norm(r.value.elts[1]) == "id_to_edge" for r in rets), "K-VID", f, norm(rets[0]), "returns-id-table", "the line graph does not return the id->hyperedge table", loc(v.fi, rets[0]))
        with res.guard("_loop_pairsres, ctx.viewprojections.line_graph"):
            _loop_pairs(res, ctx.view("projections.line_graph"))
        with res.guard("_loop_pairsres, ctx.viewprojections.clique_projection"):
            _loop_pairs(res, ctx.view("projections.clique_projection"))
        # the pair loops of the line graph range over the complete incident lists
        v = ctx.view("projections.line_graph")
        adjs = [a for a in dict_stores(v).get("adj", [])]
        if not adjs:
            raise AnalysisError("line_graph: adjacency construction not recognised")
        for asg, k, val in adjs:
            # (a filtering comprehension over the incident list is accepted: whether the filter is right is K-SIZE's business)
            calls = [x for x in ast.walk(val) if isinstance(x, ast.Call) and isinstance(x.func, ast.Attribute) and x.func.attr == "get_incident_edges"]
            ok = len(calls) == 1 and len(calls[0].args) == 1 and not calls[0].keywords and norm(calls[0].args[0]) == norm(k)
            res.check(ok, "L-PAIRS", v.fi.short, norm(asg), "incident-list-of-node", "the per-node hyperedge lists that drive the pair enumeration are not derived from the incident list of that node", loc(v.fi, asg))
    # ---- K-ROLE in the directed line graph
    with res.guard("K-ROLE in the directed line graph"):
        v = ctx.view("projections.directed_line_graph")
        f = v.fi.short
        dist = [n for n in walk_no_nested(v.fi.node) if isinstance(n, ast.Call) and norm(n.func) == "_distance" and len(n.args) == 2]
        links = [n for n in walk_no_nested(v.fi.node) if isinstance(n, ast.Call) and isinstance(n.func, ast.Attribute) and n.func.attr == "add_edge" and norm(n.func.value) == "g" and len(n.args) >= 2]
        if not dist or not links:
            raise AnalysisError(f"{f}: distance / link idiom not recognised")

        def comp_of(arg):
            """(edge variable, role) feeding a distance argument"""
            e = arg
            if isinstance(e, ast.Name):
                defs = [m for m in walk_no_nested(v.fi.node) if isinstance(m, ast.Assign) and isinstance(m.targets[0], ast.Name) and m.targets[0].id == e.id]
                e = defs[-1].value if defs else e
            for x in ast.walk(e):
                if isinstance(x, ast.Subscript) and isinstance(x.value, ast.Name) and isinstance(x.slice, ast.Constant):
                    k = elem_of(v.kind(x))
                    role = k.role if isinstance(k, Atom) else None
                    return x.value.id, role or {0: "SRC", 1: "TGT"}.get(x.slice.value)
            return None, None

        for dcall in dist:
            a, b = comp_of(dcall.args[0]), comp_of(dcall.args[1])
            roles = {a[0]: a[1], b[0]: b[1]}
            for ln in links:
                tail, head = norm(ln.args[0].slice) if isinstance(ln.args[0], ast.Subscript) else None, norm(ln.args[1].slice) if isinstance(ln.args[1], ast.Subscript) else None
                ok = roles.get(tail) == "TGT" and roles.get(head) == "SRC"
                res.check(ok, "K-ROLE", f, norm(ln), "tail=target-side", f"arc {tail}->{head} is drawn although the distance compares the {roles.get(tail)} set of {tail} with the {roles.get(head)} set of {head}: direction reversed", loc(v.fi, ln))
    # ---- clique projection keeps isolated nodes when asked
    with res.guard("clique projection keeps isolated nodes when asked"):
        v = ctx.view("projections.clique_projection")
        with res.guard("F.check_usectx, res, projections.clique_projection, keep_isolated,"):
            F.check_use(ctx, res, "projections.clique_projection", ("keep_isolated",))
        ifs = [n for n in walk_no_nested(v.fi.node) if isinstance(n, ast.If) and norm(n.test) == "keep_isolated"]
        okk = any(isinstance(x, ast.Call) and isinstance(x.func, ast.Attribute) and x.func.attr in ("add_node", "add_nodes_from") for i in ifs for x in ast.walk(i))
        res.check(okk, "F-USE", v.fi.short, "if keep_isolated: g.add_node(node)", "keep_isolated", "keep_isolated does not add every node of the hypergraph to the projection", loc(v.fi, v.fi.node))
    # ---- simplicial complex
    with res.guard("simplicial complex"):
        v = ctx.view("simplicial_complex.simplicial_complex")
        f = v.fi.short
        adds = [n for n in walk_no_nested(v.fi.node) if isinstance(n, ast.Call) and isinstance(n.func, ast.Attribute) and n.func.attr == "add" and n.args]
        if not adds:
            raise AnalysisError(f"{f}: subset insertion idiom not recognised")
        for a in adds:
            k = v.kind(a.args[0])
            res.add("S-CANON", f, norm(a), "canonical", "ok" if isinstance(k, Seq) and k.canon else ("unknown" if isinstance(k, _Top) else "violation"), "" if isinstance(k, Seq) and k.canon else f"a simplex of kind {k!r} is inserted without canonicalisation: the same subset reached from two hyperedges becomes two hyperedges", loc(v.fi, a))
        lp = [n for n in walk_no_nested(v.fi.node) if isinstance(n, ast.For) and isinstance(n.iter, ast.Call) and isinstance(n.iter.func, ast.Attribute) and n.iter.func.attr == "get_edges"]
        res.check(bool(lp), "S-CANON", f, "for edge in h.get_edges()", "all-edges", "the closure does not range over every hyperedge", loc(v.fi, v.fi.node))
        gs = ctx.view("simplicial_complex.get_all_subsets")
        txt = norm(gs.fi.node)
        rng = [n for n in ast.walk(gs.fi.node) if isinstance(n, ast.Call) and isinstance(n.func, ast.Name) and n.func.id == "range"]
        ok = bool(rng) and any(len(r.args) == 2 and isinstance(r.args[0], ast.Constant) and r.args[0].value in (0, 1) and norm(r.args[1]) == "len(s) + 1" for r in rng) and "combinations(s, x)" in txt
        res.check(ok, "S-CANON", gs.fi.short, norm(rng[0]) if rng else "range(0, len(s) + 1)", "all-sizes", "subset sizes do not range over 1..len(s): the hyperedge itself or its smaller faces are missing from the closure", loc(gs.fi, gs.fi.node))
    # ---- similarity functions: a ratio of two integer counts, rounded once
    with res.guard("similarity functions: a ratio of two integer counts, rounded once"):
        res.rules["D-RATIO"] = "intersection = |a & b|; jaccard_similarity = |a & b| / |a | b| as ONE division of integer counts (no float subtraction before the threshold test)"
        v = ctx.view("edge_similarity.jaccard_similarity")
        rets = [n for n in walk_no_nested(v.fi.node) if isinstance(n, ast.Return)]

        def int_count(e):
            if isinstance(e, ast.Call) and isinstance(e.func, ast.Name) and e.func.id == "len":
                return True
            if isinstance(e, ast.BinOp) and isinstance(e.op, (ast.Add, ast.Sub, ast.Mult)):
                return int_count(e.left) and int_count(e.right)
            if isinstance(e, ast.Name):
                defs = [m.value for m in walk_no_nested(v.fi.node) if isinstance(m, ast.Assign) and isinstance(m.targets[0], ast.Name) and m.targets[0].id == e.id]
                return bool(defs) and all(int_count(d) for d in defs)
            return isinstance(e, ast.Constant) and isinstance(e.value, int)

        for r in rets:
            ok = isinstance(r.value, ast.BinOp) and isinstance(r.value.op, ast.Div) and int_count(r.value.left) and int_count(r.value.right)
            res.check(ok, "D-RATIO", v.fi.short, norm(r), "single-division", "the similarity is not computed as one division of integer counts: an extra floating-point step (e.g. 1 - distance) makes `w >= s` fail when the similarity equals s exactly", loc(v.fi, r))
            if ok:
                num, den = norm(r.value.left), norm(r.value.right)
                res.check(("intersection" in num or "&" in num) and ("union" in den or "|" in den), "D-RATIO", v.fi.short, norm(r), "inter/union", "the similarity is not |a & b| / |a | b|", loc(v.fi, r))
        v = ctx.view("edge_similarity.intersection")
        rets = [n for n in walk_no_nested(v.fi.node) if isinstance(n, ast.Return)]
        res.check(all(norm(r.value) in ("len(a.intersection(b))", "len(a & b)", "len(set(a) & set(b))", "len(set(a).intersection(b))", "len(set(a).intersection(set(b)))") for r in rets), "D-RATIO", v.fi.short, norm(rets[0]), "intersection-size", "intersection() does not return the number of common nodes", loc(v.fi, rets[0]))
    res.assumptions += ["itertools.combinations enumerates every subset of the given size (library)", "for the Jaccard distance `s` is a ratio; the SIZE unit of `s` is only used to reject comparisons of `s` with an ORDER-valued expression"]
    return res

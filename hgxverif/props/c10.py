import ast

from .. import forward as F
from ..kinds import NODE, Atom, Seq, Tup, _Top, elem_of, unrole
from ..model import AnalysisError, loc, norm, walk_no_nested
from ..report import Result
from ._containers import KIND_RULES
from ._vid import check_inverse_tables, check_vertices_are_ids, dict_stores, discover_tables, graph_calls, graph_subscript_tables, table_defs
from ._vid import check_all_nodes_are_vertices

LEVEL_TEXT = (
    "Structural necessary conditions of C10, decided statically: the vertex-id tables of every projection are inverse of each "
    "other and graph vertices / edges are created from ids only; line-graph links are thresholded with `w >= s`; no hyperedge is "
    "filtered by a quantity of another unit than the threshold (kind arithmetic: len(e)-1 is an ORDER, s bounds a SIZE); the "
    "directed line graph draws e->f from target(e) and source(f); pair enumerations cover i<j over the whole list; isolated "
    "nodes are kept when asked; simplices are canonicalised before insertion.  Decides the structure, not the similarity values."
)


def _loop_pairs(res, v, rule="L-PAIRS"):
    """nested `for i in range(len(X) - 1): for j in range(i + 1, len(X))` (or range(len(X)) outside) over the same X; lengths
    and lists held in named temporaries are folded back first."""
    f = v.fi.short
    found = 0

    def length_of(e):
        """text of X when e is len(X) (through temporaries), else None"""
        e = v.inline(e)
        if _is_len(e):
            return norm(v.inline(e.args[0]))
        return None

    for outer in [n for n in walk_no_nested(v.fi.node) if isinstance(n, ast.For)]:
        if not (isinstance(outer.iter, ast.Call) and isinstance(outer.iter.func, ast.Name) and outer.iter.func.id == "range" and isinstance(outer.target, ast.Name)):
            continue
        inner = [n for n in outer.body if isinstance(n, ast.For) and isinstance(n.iter, ast.Call) and isinstance(n.iter.func, ast.Name) and n.iter.func.id == "range"]
        for inn in inner:
            found += 1
            i = outer.target.id
            oa, ia = outer.iter.args, inn.iter.args
            X = None
            outer_st = "unknown"
            if len(oa) == 1:
                e = v.inline(oa[0])
                if isinstance(e, ast.BinOp) and isinstance(e.op, ast.Sub) and isinstance(e.right, ast.Constant) and isinstance(e.right.value, int) and length_of(e.left) is not None:
                    X = length_of(e.left)
                    outer_st = "ok" if e.right.value == 1 else "violation"  # range(len(X) - 2): the last pairs are missed
                elif length_of(e) is not None:
                    X, outer_st = length_of(e), "ok"
                elif isinstance(oa[0], ast.Name) and isinstance(e, ast.Name):
                    X, outer_st = e.id, "ok"  # range(order) with order = len(edges[0]) (uniform hypergraphs)
            inner_st = "unknown"
            if len(ia) == 2:
                st_ = v.inline(ia[0])
                if isinstance(st_, ast.BinOp) and isinstance(st_.op, ast.Add) and norm(st_.left) == i and isinstance(st_.right, ast.Constant):
                    inner_st = "ok" if st_.right.value == 1 else "violation"  # i + 2: neighbouring pairs are missed
                elif isinstance(st_, ast.Name) and st_.id == i:
                    inner_st = "violation"  # range(i, ...): every hyperedge is paired with itself
                end = ia[1]
                lx = length_of(end)
                if inner_st == "ok":
                    if lx is not None:
                        inner_st = "ok" if (X is None or lx == X) else "violation"  # another list
                    elif isinstance(end, ast.Name) and X is not None and v.inline(end) is not None and isinstance(v.inline(end), ast.Name) and v.inline(end).id == X:
                        inner_st = "ok"
                    else:
                        ie = v.inline(end)
                        inner_st = "violation" if isinstance(ie, ast.BinOp) and isinstance(ie.op, ast.Sub) and length_of(ie.left) is not None else "unknown"  # len(X) - 1: the last hyperedge is never second
            elif len(ia) == 1:
                inner_st = "violation" if length_of(ia[0]) is not None else "unknown"  # range(len(X)): ordered pairs incl. i == j
            st = "violation" if "violation" in (outer_st, inner_st) else ("ok" if outer_st == inner_st == "ok" else "unknown")
            res.add(rule, f, f"{norm(outer.iter)} / {norm(inn.iter)}", "i<j", st, "" if st == "ok" else ("the pair enumeration does not cover every unordered pair i<j of the same list (first / last pair missed, or pairs repeated)" if st == "violation" else "the index ranges of the pair enumeration were not recognised"), loc(v.fi, outer))
    return found


def _is_len(e):
    return isinstance(e, ast.Call) and isinstance(e.func, ast.Name) and e.func.id == "len" and len(e.args) == 1


def _check_returns_id_table(res, v, why):
    """the second returned value is the id -> object table (its VALUES are the raw objects)"""
    from ._vid import _is_raw
    from ..kinds import Dct

    f = v.fi.short
    rets = [n for n in walk_no_nested(v.fi.node) if isinstance(n, ast.Return) and n.value is not None]
    for r in rets:
        if not (isinstance(r.value, ast.Tuple) and len(r.value.elts) == 2):
            res.unknown("K-VID", f, norm(r), "returns-id-table", "the function does not return a (graph, table) pair literally", loc(v.fi, r))
            continue
        k = v.kind(r.value.elts[1])
        if isinstance(k, Dct):
            kr, vr = _is_raw(k.key), _is_raw(k.val)
            st = "violation" if (kr is True and vr is not True) else ("ok" if vr is True or kr is False else "unknown")
        else:
            st = "unknown"
        res.add("K-VID", f, norm(r), "returns-id-table", st, why if st == "violation" else "", loc(v.fi, r))


def _similarity_calls(ctx, v):
    """calls whose two arguments are node sets of two hyperedges (the similarity / distance of the line graphs)"""
    from ..kinds import St, Lst

    out = []
    for n in walk_no_nested(v.fi.node):
        if isinstance(n, ast.Call) and len(n.args) == 2 and not (isinstance(n.func, ast.Attribute) and n.func.attr in ("add_edge", "issubset", "intersection", "union")):
            ks = [v.kind(a) for a in n.args]
            if all(isinstance(k, (St, Seq, Lst)) and isinstance(elem_of(k), Atom) and elem_of(k).name == "NODE" for k in ks):
                if isinstance(n.func, ast.Name) and n.func.id in ("zip", "tuple", "sorted", "set", "product", "combinations"):
                    continue
                out.append(n)
    return out


def _check_threshold(ctx, res, v):
    f = v.fi.short
    params = {a.arg for a in v.fi.params}
    if "s" not in params:
        res.unknown("M-THRESH", f, "w >= s", "w>=s", "no parameter `s`", loc(v.fi, v.fi.node))
        return
    # (a comparison of `s` with a size statistic of the hyperedges - `s > max(map(len, edges))`, `s > largest` - is a fast-path test,
    # not the similarity threshold)
    def _size_statistic(n):
        other = n.comparators[0] if norm(n.left) == "s" else n.left
        oi = v.inline(other, depth=2)
        return any(_is_len(x) or (isinstance(x, ast.Name) and x.id in ("len", "max", "min")) for x in ast.walk(oi))

    cmps = [n for n in walk_no_nested(v.fi.node) if isinstance(n, ast.Compare) and len(n.ops) == 1 and "s" in (norm(n.left), norm(n.comparators[0])) and not any(_is_len(x) for x in ast.walk(n)) and not _size_statistic(n)]
    if not cmps:
        raise AnalysisError(f"{f}: threshold comparison not found")
    sims = _similarity_calls(ctx, v)
    for c in cmps:
        s_right = norm(c.comparators[0]) == "s"
        op = type(c.ops[0])
        ok = (s_right and op is ast.GtE) or (not s_right and op is ast.LtE)
        res.check(ok, "M-THRESH", f, norm(c), "w>=s", "the similarity threshold is not `w >= s` (links with similarity exactly s are lost, or weaker links kept)", loc(v.fi, c))
        other = c.left if s_right else c.comparators[0]
        src = v.inline(other)
        if isinstance(src, ast.Call) and (any(norm(src) == norm(x) for x in sims) or len(src.args) == 2):
            st = "ok"
        elif isinstance(src, (ast.Constant, ast.BinOp)) or (isinstance(src, ast.Call) and isinstance(src.func, ast.Name) and src.func.id in ("len", "abs", "int", "float")):
            st = "violation"
        else:
            st = "unknown"
        res.add("M-THRESH", f, norm(c), "w=similarity", st, "" if st == "ok" else "the thresholded quantity is not the similarity of the two hyperedges", loc(v.fi, c))


def run(ctx):
    res = Result("C10")
    res.rules.update({k: KIND_RULES[k] for k in ("C-SIG", "K-ARG", "K-SIZE")})
    res.rules.update({
        "K-KEY-LOCAL": "id tables are subscripted with keys of their key kind",
        "K-VID": "id tables are inverse of each other; graph vertices and edges are created from ids looked up in them",
        "M-THRESH": "line-graph links are kept iff the similarity is at least s (`w >= s`)",
        "K-ROLE": "directed line graph: the arc tail is the hyperedge whose TARGET set entered the distance, the head the one whose SOURCE set did",
        "L-PAIRS": "pair enumerations cover i<j over the same list",
        "F-USE": "keep_isolated / s / weighted / distance are used",
        "L-ORDERED": "a dedup / visited key that guards arc creation in the directed line graph keeps the order of the pair",
        "S-CANON": "every simplex is canonicalised (tuple(sorted(.))) before insertion and all subsets (sizes 0..len) are generated",
    })
    files = ["hypergraphx/representations/projections.py", "hypergraphx/representations/simplicial_complex.py", "hypergraphx/measures/edge_similarity.py"]
    ctx.add_sites(res, ctx.sites(rules=("C-SIG", "K-ARG", "K-SIZE", "K-KEY-LOCAL", "K-MEM"), files=files))

    # ---- bipartite projection
    with res.guard("bipartite projection"):
        v = ctx.view("projections.bipartite_projection")
        f = v.fi.short
        g, id2obj, inv = discover_tables(v)
        gcalls = graph_calls(ctx, v)
        if inv is None:
            cands = [t for t in graph_subscript_tables(v, gcalls) if t != id2obj]
            inv = cands[0] if cands else None
        with res.guard("inverse id tables of the bipartite projection"):
            check_inverse_tables(res, v, id2obj, inv)
        check_vertices_are_ids(res, v, gcalls, inv)
        _check_returns_id_table(res, v, "the projection does not return the id->object table")
        with res.guard("vertex per node of the bipartite projection"):
            check_all_nodes_are_vertices(ctx, res)
        # membership links join a hyperedge with each of ITS nodes
        tdefs = table_defs(v)

        def origin(a):
            """the object whose id `a` is: the key of the lookup, or the key a label was stored under"""
            e = v.inline(a)
            if isinstance(e, ast.Subscript) and isinstance(e.value, ast.Name) and e.value.id == inv:
                return norm(e.slice)
            for d in tdefs.get(inv, []):
                if d.form == "store" and d.val in (norm(a), norm(e)):
                    return d.key
            return None

        def collection_of(member_text):
            """the collection whose member the object `member_text` is: the iterable of the loop that binds it, or X for
            `member = X[<index>]`"""
            for n in walk_no_nested(v.fi.node):
                if isinstance(n, ast.For) and isinstance(n.target, ast.Name) and n.target.id == member_text:
                    return norm(n.iter)
                if isinstance(n, ast.Assign) and len(n.targets) == 1 and isinstance(n.targets[0], ast.Name) and n.targets[0].id == member_text and isinstance(n.value, ast.Subscript) and isinstance(n.value.value, ast.Name) and not isinstance(n.value.slice, ast.Slice):
                    return n.value.value.id
            return None

        for gc in gcalls:
            if gc.meth != "add_edge":
                continue
            if len(gc.vargs) != 2:
                res.unknown("K-VID", f, norm(gc.node), "membership", "link arguments not visible", loc(v.fi, gc.node))
                continue
            os_ = [origin(a) for a in gc.vargs]
            if None in os_:
                res.unknown("K-VID", f, norm(gc.node), "membership", "the objects behind the two ids were not identified", loc(v.fi, gc.node))
                continue
            colls = [collection_of(o) for o in os_]
            # one end point is a member of the other one
            ok = colls[1] == os_[0] or colls[0] == os_[1]
            decided = ok or (colls[0] is not None and colls[1] is not None)
            res.add("K-VID", f, norm(gc.node), "membership", "ok" if ok else ("violation" if decided else "unknown"), "" if ok else ("bipartite links do not join a hyperedge with each of ITS nodes" if decided else "which collection the linked node is taken from was not recognised"), loc(v.fi, gc.node))
    # ---- line graphs
    with res.guard("line graphs"):
        for d in ("projections.line_graph", "projections.directed_line_graph"):
            v = ctx.view(d)
            f = v.fi.short
            g, id2obj, inv = discover_tables(v)
            gcalls = graph_calls(ctx, v)
            if inv is None:
                cands = [t for t in graph_subscript_tables(v, gcalls) if t != id2obj]
                inv = cands[0] if cands else None
            with res.guard(f"inverse id tables of {d}"):
                check_inverse_tables(res, v, id2obj, inv)
            with res.guard(f"F-USE of {d}"):
                F.check_use(ctx, res, d, ("s", "weighted", "distance"))
            # M-THRESH
            with res.guard(f"M-THRESH of {d}"):
                _check_threshold(ctx, res, v)
            # every way out hands back the graph WITH its vertices: no `return g, ...` is reachable from the construction of the graph
            # without passing the statement that creates the vertices (an early exit for "no pair can be linked" still owes one
            # vertex per hyperedge)
            with res.guard(f"K-VID vertices-before-return of {d}"):
                adders = [gc for gc in gcalls if gc.meth == "add_nodes_from"]
                if adders:
                    aid = {v.cfg_id(gc.node) for gc in adders} - {None}
                    gnames = {norm(gc.node.func.value) for gc in adders if isinstance(gc.node.func, ast.Attribute)}
                    ctor = [a_ for a_ in walk_no_nested(v.fi.node) if isinstance(a_, ast.Assign) and len(a_.targets) == 1 and isinstance(a_.targets[0], ast.Name) and a_.targets[0].id in gnames]
                    for r_ in walk_no_nested(v.fi.node):
                        if not (isinstance(r_, ast.Return) and r_.value is not None and any(isinstance(x, ast.Name) and x.id in gnames for x in ast.walk(r_.value))):
                            continue
                        rid_ = v.cfg_id(r_)
                        early = any(v.cfg_id(c_) is not None and rid_ is not None and v.cfg.reaches_without(v.cfg_id(c_), rid_, aid) for c_ in ctor)
                        res.check(not early, "K-VID", f, norm(r_)[:80], "vertices-before-return", "the graph is returned on a path that never creates its vertices: the result has no vertex for the hyperedges although the id table lists them (hyperedges without a link still have a vertex)", loc(v.fi, r_))
            # graph links use ids of the id table; vertices are 0..len(h)-1
            check_vertices_are_ids(res, v, [gc for gc in gcalls if gc.meth == "add_edge"], inv, what="a line-graph link is created from raw hyperedges instead of their ids")
            for gc in gcalls:
                if gc.meth == "add_nodes_from" and gc.vargs:
                    e = v.inline(gc.vargs[0])
                    txt = norm(e)
                    good = any(t in txt for t in ("range(len(h))", "range(len(h.get_edges()))", "range(len(edges))", "range(cont)")) and not any(isinstance(x, ast.BinOp) for x in ast.walk(e)) and not any(isinstance(x, ast.Call) and norm(x.func) == "range" and len(x.args) != 1 for x in ast.walk(e))
                    if not good and (txt in (id2obj, f"{id2obj}.keys()", f"list({id2obj})", f"{inv}.values()")):
                        good = True
                    has_range = any(isinstance(x, ast.Call) and norm(x.func) == "range" for x in ast.walk(e))
                    res.add("K-VID", f, norm(gc.node), "one-vertex-per-edge", "ok" if good else ("violation" if has_range else "unknown"), "" if good else "the line graph does not get exactly one vertex per hyperedge id", loc(v.fi, gc.node))
            # the vertices are 0..m-1: the ids must then be a numbering made right here (enumerate / a counter), not
            # a table owned by the hypergraph (its internal edge ids are not compact after removals)
            has_range_vertices = any(gc.meth == "add_nodes_from" and gc.vargs and any(isinstance(x, ast.Call) and norm(x.func) == "range" for x in ast.walk(v.inline(gc.vargs[0]))) for gc in gcalls)
            hparam = v.fi.params[0].arg if v.fi.params else "h"
            for tname in (inv, id2obj):
                if tname is None:
                    continue
                for n in walk_no_nested(v.fi.node):
                    if isinstance(n, ast.Assign) and isinstance(n.targets[0], ast.Name) and n.targets[0].id == tname and isinstance(n.value, (ast.Call, ast.Attribute)):
                        src = n.value.func if isinstance(n.value, ast.Call) else n.value
                        if isinstance(src, ast.Attribute) and norm(src.value) == hparam and has_range_vertices and src.attr not in ("get_edges", "get_nodes"):
                            res.violation("K-VID", f, norm(n), "ids=0..m-1", f"the vertex set is range(len({hparam})) but the hyperedge ids are taken from `{norm(n.value)}`: the hypergraph's own ids are not 0..m-1 once a hyperedge was removed, so vertices without hyperedge appear and hyperedges lose their vertex", loc(v.fi, n))
            _check_returns_id_table(res, v, "the line graph does not return the id->hyperedge table")
        for d in ("projections.line_graph", "projections.clique_projection"):
            with res.guard(f"pair enumeration of {d}"):
                vv = ctx.view(d)
                n_found = _loop_pairs(res, vv)
                combs = [n for n in walk_no_nested(vv.fi.node) if isinstance(n, ast.Call) and norm(n.func) in ("combinations", "itertools.combinations")]
                for c in combs:
                    two = len(c.args) == 2 and isinstance(c.args[1], ast.Constant) and c.args[1].value == 2
                    res.check(two, "L-PAIRS", vv.fi.short, norm(c), "i<j", "the pair enumeration is not combinations(<list>, 2)", loc(vv.fi, c))
                if not n_found and not combs:
                    res.unknown("L-PAIRS", vv.fi.short, "pair enumeration", "i<j", "no pair enumeration recognised (index loops / itertools.combinations)", loc(vv.fi, vv.fi.node))
        # the pair loops of the line graph range over the complete incident lists
        with res.guard("L-PREFILTER"):
            from ._vid import check_line_graph_prefilter

            res.rules["L-PREFILTER"] = "a size pre-filter in front of the pair comparison of the s-line graph keeps every hyperedge with at least s nodes"
            check_line_graph_prefilter(ctx, res)
        with res.guard("incident lists of the line graph"):
            v = ctx.view("projections.line_graph")
            found = 0
            for n in walk_no_nested(v.fi.node):
                key = val = None
                if isinstance(n, ast.Assign) and len(n.targets) == 1 and isinstance(n.targets[0], ast.Subscript):
                    key, val = n.targets[0].slice, n.value
                elif isinstance(n, ast.DictComp):
                    key, val = n.key, n.value
                if val is None:
                    continue
                # (a filtering comprehension over the incident list is accepted: whether the filter is right is K-SIZE's business)
                calls = [x for x in ast.walk(val) if isinstance(x, ast.Call) and isinstance(x.func, ast.Attribute) and x.func.attr == "get_incident_edges"]
                if not calls:
                    continue
                found += 1
                ok = len(calls) == 1 and len(calls[0].args) == 1 and not calls[0].keywords and norm(calls[0].args[0]) == norm(key)
                res.check(ok, "L-PAIRS", v.fi.short, norm(n)[:160], "incident-list-of-node", "the per-node hyperedge lists that drive the pair enumeration are not derived from the incident list of that node", loc(v.fi, n))
            if not found:
                res.unknown("L-PAIRS", v.fi.short, "adj[node] = h.get_incident_edges(node)", "incident-list-of-node", "the per-node incident lists were not recognised", loc(v.fi, v.fi.node))
    # ---- K-ROLE in the directed line graph
    with res.guard("K-ROLE in the directed line graph"):
        v = ctx.view("projections.directed_line_graph")
        f = v.fi.short
        dist = _similarity_calls(ctx, v)
        links = [gc for gc in graph_calls(ctx, v) if gc.meth == "add_edge" and len(gc.vargs) == 2]
        if not dist or not links:
            raise AnalysisError(f"{f}: distance / link idiom not recognised")

        def comp_of(arg):
            """(edge variable, role) feeding a distance argument"""
            e = v.inline(arg)
            for x in ast.walk(e):
                if isinstance(x, ast.Subscript) and isinstance(x.value, ast.Name) and isinstance(x.slice, ast.Constant):
                    return x.value.id, {0: "SRC", 1: "TGT"}.get(x.slice.value)
            return None, None

        for dcall in dist:
            a, b = comp_of(dcall.args[0]), comp_of(dcall.args[1])
            roles = {a[0]: a[1], b[0]: b[1]}
            for ln in links:
                ends = []
                for x in ln.vargs:
                    e = v.inline(x)
                    ends.append(norm(e.slice) if isinstance(e, ast.Subscript) else None)
                tail, head = ends
                rt, rh = roles.get(tail), roles.get(head)
                if rt is None or rh is None:
                    res.unknown("K-ROLE", f, norm(ln.node), "tail=target-side", "the hyperedges behind the arc's end points / the sides that entered the similarity were not identified", loc(v.fi, ln.node))
                else:
                    res.check(rt == "TGT" and rh == "SRC", "K-ROLE", f, norm(ln.node), "tail=target-side", f"arc {tail}->{head} is drawn although the distance compares the {rt} set of {tail} with the {rh} set of {head}: direction reversed", loc(v.fi, ln.node))
    # ---- arcs are ordered pairs: a visited / dedup table in the directed line graph must not identify (e, f) with (f, e)
    with res.guard("L-ORDERED in the directed line graph"):
        v = ctx.view("projections.directed_line_graph")
        f = v.fi.short
        links = [gc for gc in graph_calls(ctx, v) if gc.meth == "add_edge" and len(gc.vargs) == 2]
        guards = 0
        for ln in links:
            # tests that decide whether the arc is created: the enclosing ifs, and earlier `if ...: continue` guards of the loops
            # the link sits in
            deciders = list(v.enclosing_all(ln.node, (ast.If,)))
            for lp_ in v.enclosing_all(ln.node, (ast.For, ast.While)):
                for i_ in ast.walk(lp_):
                    if isinstance(i_, ast.If) and i_ not in deciders and i_.lineno < ln.node.lineno and any(isinstance(y, (ast.Continue, ast.Break)) for b_ in i_.body + i_.orelse for y in ast.walk(b_)):
                        deciders.append(i_)
            for iff in deciders:
                for t in ast.walk(iff.test):
                    if isinstance(t, ast.Compare) and len(t.ops) == 1 and isinstance(t.ops[0], (ast.NotIn, ast.In)):
                        key = v.inline(t.left)
                        names = {x.id for x in ast.walk(key) if isinstance(x, ast.Name)}
                        ends = set()
                        for a in ln.vargs:
                            ends |= {x.id for x in ast.walk(v.inline(a)) if isinstance(x, ast.Name)}
                        if not (names & ends):
                            continue
                        guards += 1
                        sym = any(isinstance(x, ast.Call) and norm(x.func) in ("sorted", "frozenset", "set", "min", "max") for x in ast.walk(key))
                        res.add("L-ORDERED", f, norm(t), "ordered-key", "violation" if sym else "ok", "the visited table of the DIRECTED line graph is keyed by the unordered pair of hyperedges: once (e, f) was examined the opposite arc f->e is never evaluated, so arcs are lost" if sym else "", loc(v.fi, t))
        if not guards:
            res.ok("L-ORDERED", f, "no visited table", "ordered-key", loc(v.fi, v.fi.node))
    # ---- clique projection keeps isolated nodes when asked
    with res.guard("clique projection keeps isolated nodes when asked"):
        v = ctx.view("projections.clique_projection")
        with res.guard("F-USE of keep_isolated"):
            F.check_use(ctx, res, "projections.clique_projection", ("keep_isolated",))
        from ..rules_container import _atoms, _implied_branch

        okk = False
        seen_test = False
        for i in [n for n in walk_no_nested(v.fi.node) if isinstance(n, ast.If)]:
            for atom, _ in _atoms(i.test, True):
                if isinstance(atom, ast.Name) and atom.id == "keep_isolated":
                    seen_test = True
                    lab = _implied_branch(i.test, atom, True)
                    for gc in graph_calls(ctx, v):
                        if gc.meth in ("add_node", "add_nodes_from") and lab and v.cfg.branch_dominated(v.cfg.by_ast[id(i.test)], lab, v.cfg_id(gc.node)):
                            okk = True
                            # ... and ALL of them: an insertion that is filtered by a test on the node (`for node in h.get_nodes() if
                            # h.degree(node) == 0`) keeps the nodes the test lets through - a node whose only hyperedges are
                            # singletons has a positive degree and is an endpoint of no pair
                            filt = [c_ for a_ in list(gc.node.args) for x in ast.walk(a_) if isinstance(x, (ast.GeneratorExp, ast.ListComp, ast.SetComp)) for g_ in x.generators for c_ in g_.ifs]
                            lp_ = v.enclosing(gc.node, (ast.For,))
                            if lp_ is not None:
                                lv_ = {x.id for x in ast.walk(lp_.target) if isinstance(x, ast.Name)}
                                filt += [j.test for j in v.enclosing_all(gc.node, (ast.If,)) if j is not i and any(j is y for y in ast.walk(lp_)) and lv_ & {x.id for x in ast.walk(j.test) if isinstance(x, ast.Name)}]
                            if filt:
                                res.violation("F-USE", v.fi.short, norm(gc.node)[:90], "keep_isolated:all-nodes", f"with keep_isolated the projection receives only the nodes that pass `{norm(filt[0])[:50]}`: a node that passes neither this test nor becomes an endpoint of a pair (all its hyperedges are singletons) is lost", loc(v.fi, gc.node))
        res.add("F-USE", v.fi.short, "if keep_isolated: g.add_node(node)", "keep_isolated", "ok" if okk else ("violation" if seen_test else "unknown"), "" if okk else "keep_isolated does not add every node of the hypergraph to the projection", loc(v.fi, v.fi.node))
    # ---- simplicial complex
    with res.guard("simplicial complex"):
        v = ctx.view("simplicial_complex.simplicial_complex")
        f = v.fi.short
        from ..kinds import Lst, Obj, St

        ctors = [n for n in walk_no_nested(v.fi.node) if isinstance(n, ast.Call) and isinstance(v.kind(n), Obj) and v.kind(n).cls == "Hypergraph" and isinstance(n.func, ast.Name)]
        if not ctors:
            raise AnalysisError(f"{f}: construction of the closure hypergraph not recognised")
        for c in ctors:
            arg = c.args[0] if c.args else next((kw.value for kw in c.keywords if kw.arg == "edge_list"), None)
            if arg is None:
                res.unknown("S-CANON", f, norm(c), "canonical", "the closure is not handed to the constructor", loc(v.fi, c))
                continue
            k = elem_of(v.kind(arg))
            good = isinstance(k, Seq) and k.canon
            res.add("S-CANON", f, norm(c), "canonical", "ok" if good else ("unknown" if isinstance(k, _Top) or not isinstance(k, (Seq, Tup)) else "violation"), "" if good else f"simplices of kind {k!r} are inserted without canonicalisation: the same subset reached from two hyperedges becomes two hyperedges", loc(v.fi, c))
        its = [n.iter for n in ast.walk(v.fi.node) if isinstance(n, (ast.For, ast.comprehension))]
        lp = [i for i in its if isinstance(v.inline(i), ast.Call) and isinstance(v.inline(i).func, ast.Attribute) and v.inline(i).func.attr == "get_edges" and not v.inline(i).args and not v.inline(i).keywords]
        res.add("S-CANON", f, "for edge in h.get_edges()", "all-edges", "ok" if lp else "unknown", "" if lp else "the loop over every hyperedge was not recognised", loc(v.fi, v.fi.node))
        gs = ctx.view("simplicial_complex.get_all_subsets")
        rng = [n for n in ast.walk(gs.fi.node) if isinstance(n, ast.Call) and isinstance(n.func, ast.Name) and n.func.id == "range"]
        combs = [n for n in ast.walk(gs.fi.node) if isinstance(n, ast.Call) and norm(n.func) in ("combinations", "itertools.combinations")]
        if not rng or not combs:
            res.unknown("S-CANON", gs.fi.short, "range(0, len(s) + 1)", "all-sizes", "subset generation idiom not recognised", loc(gs.fi, gs.fi.node))
        for r in rng if combs else []:
            start = r.args[0] if len(r.args) >= 2 else ast.Constant(0)
            stop = r.args[1] if len(r.args) >= 2 else (r.args[0] if r.args else None)
            pname = gs.fi.params[0].arg if gs.fi.params else "s"
            stop_t = norm(gs.inline(stop)) if stop is not None else ""
            good_stops = (f"len({pname}) + 1", f"1 + len({pname})", "n + 1")
            ok = isinstance(start, ast.Constant) and start.value in (0, 1) and stop is not None and (norm(stop) in good_stops or stop_t in good_stops) and len(r.args) <= 2
            # positively wrong: the sizes stop before len(s) (the hyperedge itself is missing) or start above 1
            bad = (isinstance(start, ast.Constant) and isinstance(start.value, int) and start.value > 1) or stop_t in (f"len({pname})", f"len({pname}) - 1")
            res.add("S-CANON", gs.fi.short, norm(r), "all-sizes", "ok" if ok else ("violation" if bad else "unknown"), "" if ok else "subset sizes do not range over 1..len(s): the hyperedge itself or its smaller faces are missing from the closure", loc(gs.fi, r))
    with res.guard("G-STALE"):
        from ..lints import check_stale_in_loop

        for d_ in ("projections.line_graph", "projections.directed_line_graph", "projections.bipartite_projection", "projections.clique_projection"):
            check_stale_in_loop(ctx, res, d_)
    # ---- similarity functions: a ratio of two integer counts, rounded once
    with res.guard("similarity functions: a ratio of two integer counts, rounded once"):
        res.rules["D-RATIO"] = "intersection = |a & b|; jaccard_similarity = |a & b| / |a | b| as ONE division of integer counts (no float subtraction before the threshold test)"
        v = ctx.view("edge_similarity.jaccard_similarity")
        rets = [n for n in walk_no_nested(v.fi.node) if isinstance(n, ast.Return) and n.value is not None]

        def int_valued_call(e, depth=0):
            """a call of a repository function all of whose returns are integer counts (`intersection(a, b)`)"""
            if not (isinstance(e, ast.Call) and depth < 3):
                return False
            cs = v.ctx.callees(v.fi, getattr(e, "_orig", e))
            if not cs and isinstance(e.func, ast.Name):
                cs = [g for g in v.ctx.prog.functions.values() if g.name == e.func.id and g.module is v.fi.module and g.cls is None]
            if not cs:
                return False
            for g in cs:
                gv = ctx.view(g)
                rs = [n for n in walk_no_nested(g.node) if isinstance(n, ast.Return) and n.value is not None]
                if not rs or not all(int_count(gv.inline(r_.value), depth + 1) for r_ in rs):
                    return False
            return True

        def int_count(e, depth=0):
            if isinstance(e, ast.Call) and isinstance(e.func, ast.Name) and e.func.id == "len":
                return True
            if int_valued_call(e, depth):
                return True
            if isinstance(e, ast.BinOp) and isinstance(e.op, (ast.Add, ast.Sub, ast.Mult)):
                return int_count(e.left, depth) and int_count(e.right, depth)
            return isinstance(e, ast.Constant) and isinstance(e.value, int)

        def setop(e, names, sym):
            """len(<a> op <b>) with op the named set method or operator"""
            if not (isinstance(e, ast.Call) and isinstance(e.func, ast.Name) and e.func.id == "len" and len(e.args) == 1):
                return None
            x = e.args[0]
            if isinstance(x, ast.BinOp):
                return isinstance(x.op, sym)
            if isinstance(x, ast.Call) and isinstance(x.func, ast.Attribute):
                return x.func.attr in names
            return None

        for r in rets:
            e = v.inline(r.value)
            ok = isinstance(e, ast.BinOp) and isinstance(e.op, ast.Div) and int_count(e.left) and int_count(e.right)
            calls_other = any(isinstance(x, ast.Call) and v.ctx.callees(v.fi, x) for x in ast.walk(r.value))
            floaty = any(isinstance(x, ast.BinOp) and isinstance(x.op, (ast.Sub, ast.Add)) and any(isinstance(y, ast.BinOp) and isinstance(y.op, ast.Div) or (isinstance(y, ast.Call) and not int_valued_call(y) and (v.ctx.callees(v.fi, getattr(y, "_orig", y)) or (isinstance(y.func, ast.Name) and any(g.name == y.func.id and g.module is v.fi.module and g.cls is None for g in v.ctx.prog.functions.values())))) for y in (x.left, x.right)) for x in ast.walk(e))
            res.add("D-RATIO", v.fi.short, norm(r), "single-division", "ok" if ok else ("violation" if floaty else "unknown"), "" if ok else "the similarity is not computed as one division of integer counts: an extra floating-point step (e.g. 1 - distance) makes `w >= s` fail when the similarity equals s exactly", loc(v.fi, r))
            if ok:
                def is_inter(x):
                    if setop(x, ("intersection",), ast.BitAnd):
                        return True
                    if isinstance(x, ast.Call) and int_valued_call(x):
                        g_ = (v.ctx.callees(v.fi, getattr(x, "_orig", x)) or [g for g in v.ctx.prog.functions.values() if isinstance(x.func, ast.Name) and g.name == x.func.id and g.module is v.fi.module and g.cls is None])
                        return bool(g_) and all(all(setop(ctx.view(g).inline(r_.value), ("intersection",), ast.BitAnd) for r_ in walk_no_nested(g.node) if isinstance(r_, ast.Return) and r_.value is not None) for g in g_)
                    return None if not (isinstance(x, ast.Call) and isinstance(x.func, ast.Name) and x.func.id == "len") else False

                i_ok, u_ok = is_inter(e.left), setop(e.right, ("union",), ast.BitOr)
                # inclusion-exclusion: |a| + |b| - |a & b| is |a | b|
                d_ = e.right
                if u_ok is None and isinstance(d_, ast.BinOp) and isinstance(d_.op, ast.Sub) and is_inter(d_.right) and isinstance(d_.left, ast.BinOp) and isinstance(d_.left.op, ast.Add) and all(isinstance(y, ast.Call) and isinstance(y.func, ast.Name) and y.func.id == "len" and len(y.args) == 1 and isinstance(y.args[0], ast.Name) for y in (d_.left.left, d_.left.right)) and d_.left.left.args[0].id != d_.left.right.args[0].id:
                    u_ok = True
                st = "ok" if i_ok and u_ok else ("violation" if i_ok is False or u_ok is False else "unknown")
                res.add("D-RATIO", v.fi.short, norm(r), "inter/union", st, "" if st == "ok" else "the similarity is not |a & b| / |a | b|", loc(v.fi, r))
        v = ctx.view("edge_similarity.intersection")
        rets = [n for n in walk_no_nested(v.fi.node) if isinstance(n, ast.Return) and n.value is not None]
        for r in rets:
            e = v.inline(r.value)
            i_ok = setop(e, ("intersection",), ast.BitAnd)
            res.add("D-RATIO", v.fi.short, norm(r), "intersection-size", "ok" if i_ok else ("violation" if i_ok is False or not isinstance(e, ast.Call) else "unknown"), "" if i_ok else "intersection() does not return the number of common nodes", loc(v.fi, r))
    res.assumptions += ["itertools.combinations enumerates every subset of the given size (library)", "for the Jaccard distance `s` is a ratio; the SIZE unit of `s` is only used to reject comparisons of `s` with an ORDER-valued expression"]
    with res.guard("general lint pack over the property's files"):
        from ..lints import check_pack

        check_pack(ctx, res, "C10")
    return res

import ast

from .. import cmpshape as M
from .. import forward as F
from .. import rng as R
from ..effects import Effects, check_pure
from ..kinds import SIZE, ORDER
from ..model import AnalysisError, loc, norm, walk_no_nested
from ..report import Result
from ._containers import KIND_RULES

LEVEL_TEXT = (
    "Structural necessary conditions of C14, decided statically: every random draw reachable from random_hypergraph / "
    "random_uniform_hypergraph / add_random_edge(s) comes from the module seeded with the seed parameter, seeding is skipped only "
    "for seed None and precedes the draws, wrappers forward the seed; with inplace=False the generators are effect-free on their "
    "argument (effect analysis under the literal binding); the sample size of every draw is the requested size, nodes are drawn "
    "without replacement from the node range / pool; the rewiring pool is filled only from the hyperedges selected for rewiring "
    "and each rewired hyperedge is replaced by exactly one of the same size; parameters that default to None are never ordered "
    "against numbers without a None test.  Decides the structure, not counts per size or distinctness."
)


def run(ctx):
    res = Result("C14")
    res.rules.update({k: KIND_RULES[k] for k in ("C-SIG", "K-ARG", "K-SIZE")})
    res.rules.update({
        "R-GLOBAL": "all reachable draws come from the module seeded with `seed`; seeding is skipped only for None and precedes the draws; the seed is forwarded",
        "E-INPLACE": "with inplace=False the argument hypergraph is not modified",
        "M-NONE": "seed / order / size are tested with `is None`, never by truthiness",
        "M-EXCL": "order and size together are rejected",
        "N-NONECMP": "a parameter defaulting to None is not ordered against a number without a None test",
        "D-SAMPLE": "the size of every sample is the requested hyperedge size, drawn without replacement from the node range / pool",
        "D-POOL": "the rewiring pool is filled only from the hyperedges selected for rewiring",
        "D-REWIRE": "exactly the listed hyperedges of the size are removed and one hyperedge of the same size is added for each",
    })
    files = ["hypergraphx/generation/random.py", "hypergraphx/generation/scale_free.py", "hypergraphx/generation/activity_driven.py"]
    ctx.add_sites(res, ctx.sites(rules=("C-SIG", "K-ARG", "K-SIZE"), files=files))
    for d in ("random.random_hypergraph", "random.random_uniform_hypergraph", "random.add_random_edge", "random.add_random_edges"):
        with res.guard("R.check_global_seededctx, res, d"):
            R.check_global_seeded(ctx, res, d)
        with res.guard("M.check_none_testsctx, res, d"):
            M.check_none_tests(ctx, res, d)
    eff = Effects(ctx)
    for d in ("random.random_shuffle", "random.random_shuffle_all_orders", "random.add_random_edge", "random.add_random_edges"):
        with res.guard("check_purectx, eff, res, d, rootshg,, constsinplace: False, ruleEINPLA"):
            check_pure(ctx, eff, res, d, roots=("hg",), consts={"inplace": False}, rule="E-INPLACE", detail_prefix="inplace=False:")
        with res.guard("M.check_none_testsctx, res, d"):
            M.check_none_tests(ctx, res, d)
        with res.guard("M.check_exclusionctx, res, d"):
            M.check_exclusion(ctx, res, d)
    with res.guard("R.check_none_default_comparectx, res, scale_free.scale_free_hypergraph"):
        R.check_none_default_compare(ctx, res, "scale_free.scale_free_hypergraph")

    # ---- D-SAMPLE
    with res.guard("D-SAMPLE"):
        def sample_calls(v):
            out = []
            for n in walk_no_nested(v.fi.node):
                if isinstance(n, ast.Call):
                    dn = R.extern_name(ctx.prog, v.fi, n)
                    if dn in ("random.sample", "numpy.random.choice"):
                        out.append((n, dn))
            return out

        for d, pool_ok in (
            ("random.random_hypergraph", ("nodes",)),
            ("random.add_random_edge", ("nodes",)),
            ("random.add_random_edges", ("nodes",)),
            ("random.random_shuffle", ("pool_nodes",)),
            ("scale_free.scale_free_hypergraph", ("nodes",)),
        ):
            v = ctx.view(d)
            f = v.fi.short
            calls = [(n, dn) for n, dn in sample_calls(v) if not (dn == "random.sample" and n.args and isinstance(n.args[0], ast.Call) and norm(n.args[0].func) == "range" and d == "random.random_shuffle")]
            calls = [(n, dn) for n, dn in calls if not (dn == "numpy.random.choice" and n.args and norm(n.args[0]) == "num_nodes")]
            if not calls:
                raise AnalysisError(f"{f}: sampling call not found")
            for n, dn in calls:
                if dn == "random.sample":
                    pop, k = (n.args + [None, None])[:2]
                    repl_ok = True
                else:
                    pop = n.args[0] if n.args else None
                    kw = {x.arg: x.value for x in n.keywords}
                    k = kw.get("size", n.args[1] if len(n.args) > 1 else None)
                    repl = kw.get("replace", n.args[2] if len(n.args) > 2 else None)
                    repl_ok = isinstance(repl, ast.Constant) and repl.value is False
                res.check(repl_ok, "D-SAMPLE", f, norm(n), "without-replacement", "nodes of a hyperedge are drawn with replacement: a hyperedge can contain a node twice", loc(v.fi, n))
                kk = v.kind(k) if k is not None else None
                from ..kinds import _Top

                good = k is not None and isinstance(k, ast.Name) and k.id == "size" and (kk == SIZE or isinstance(kk, _Top))
                res.check(good, "D-SAMPLE", f, norm(n), "k=size", f"the sample size is `{norm(k) if k is not None else '?'}` ({kk!r}), not the requested hyperedge size", loc(v.fi, n))
                res.check(pop is not None and norm(pop) in pool_ok, "D-SAMPLE", f, norm(n), "population", f"nodes are drawn from `{norm(pop) if pop is not None else '?'}` instead of {pool_ok}", loc(v.fi, n))
        for d in ("random.random_hypergraph", "random.add_random_edge", "random.add_random_edges", "scale_free.scale_free_hypergraph"):
            v = ctx.view(d)
            defs = [n for n in walk_no_nested(v.fi.node) if isinstance(n, ast.Assign) and isinstance(n.targets[0], ast.Name) and n.targets[0].id == "nodes"]
            ok = bool(defs) and all(norm(x.value) in ("list(range(num_nodes))", "list(hg.get_nodes())") for x in defs)
            res.check(ok, "D-SAMPLE", v.fi.short, norm(defs[0]) if defs else "nodes = ...", "node-universe", "the node universe is not range(num_nodes) / the hypergraph's nodes", loc(v.fi, v.fi.node))
        # activity driven
        v = ctx.view("activity_driven.HOADmodel")
        f = v.fi.short
        sc = [n for n in walk_no_nested(v.fi.node) if isinstance(n, ast.Call) and R.extern_name(ctx.prog, v.fi, n) == "random.sample"]
        if not sc:
            raise AnalysisError(f"{f}: sampling call not found")
        for n in sc:
            res.check(len(n.args) == 2 and norm(n.args[0]) == "range(N)" and norm(n.args[1]) == "order", "D-SAMPLE", f, norm(n), "k=order", "the activated node does not draw `order` partners below N", loc(v.fi, n))
        apps = [n for n in walk_no_nested(v.fi.node) if isinstance(n, ast.Call) and isinstance(n.func, ast.Attribute) and n.func.attr == "append" and norm(n.func.value) == "neigh_list"]
        res.check(len(apps) == 1 and norm(apps[0].args[0]) == "node_i", "D-SAMPLE", f, norm(apps[0]) if apps else "neigh_list.append(node_i)", "plus-self", "the hyperedge is not the partners plus the activated node (size order+1)", loc(v.fi, v.fi.node))
        hl = [n for n in walk_no_nested(v.fi.node) if isinstance(n, ast.Call) and isinstance(n.func, ast.Attribute) and n.func.attr == "append" and norm(n.func.value) == "hyperlinks"]
        for n in hl:
            ifs = v.enclosing_all(n, (ast.If,))
            ok = any(norm(i.test) in ("len(neigh_list) == len(set(neigh_list))", "len(set(neigh_list)) == len(neigh_list)") for i in ifs)
            res.check(ok, "D-SAMPLE", f, norm(n), "distinct", "hyperedges with a repeated node are emitted", loc(v.fi, n))
            res.check(isinstance(n.args[0], ast.Tuple) and norm(n.args[0].elts[0]) == "t", "D-SAMPLE", f, norm(n), "time", "the emitted record does not carry the time step of its activation", loc(v.fi, n))
        tl = [n for n in walk_no_nested(v.fi.node) if isinstance(n, ast.For) and norm(n.target) == "t"]
        res.check(bool(tl) and all(norm(x.iter) == "range(time)" for x in tl), "D-SAMPLE", f, norm(tl[0].iter) if tl else "range(time)", "times", "times do not range over [0, time)", loc(v.fi, v.fi.node))
    # ---- D-POOL / D-REWIRE in random_shuffle
    with res.guard("D-POOL / D-REWIRE in random_shuffle"):
        v = ctx.view("random.random_shuffle")
        f = v.fi.short
        def selected_edges_generators(gens):
            """`for i in indices_to_replace for node in current_edges[i]`"""
            its = [norm(g.iter) for g in gens]
            return len(gens) >= 2 and its[0] == "indices_to_replace" and its[1] == f"current_edges[{norm(gens[0].target)}]"

        n_sources = 0
        for n in walk_no_nested(v.fi.node):
            # (a) element stores  pool_nodes[node] = ... / += ...
            if isinstance(n, (ast.Assign, ast.AugAssign)):
                tg = n.targets if isinstance(n, ast.Assign) else [n.target]
                for t in tg:
                    if isinstance(t, ast.Subscript) and norm(t.value) == "pool_nodes":
                        n_sources += 1
                        loops = v.enclosing_all(n, (ast.For,))
                        its = [norm(l.iter) for l in loops]
                        ok = len(loops) >= 2 and its[-1] == "indices_to_replace" and its[-2] == f"current_edges[{norm(loops[-1].target)}]"
                        res.check(ok, "D-POOL", f, norm(n), "from-rewired-edges", f"the pool is filled while iterating {its}: replacement nodes can come from hyperedges that are not rewired", loc(v.fi, n))
                    # (b) whole-pool definitions
                    if isinstance(t, ast.Name) and t.id == "pool_nodes" and isinstance(n, ast.Assign):
                        val = n.value
                        if isinstance(val, ast.Dict) and not val.keys:
                            continue  # empty initialisation
                        if "pool_nodes" in {x.id for x in ast.walk(val) if isinstance(x, ast.Name)}:
                            continue  # re-packing of the pool itself (keys -> array)
                        n_sources += 1
                        if isinstance(val, (ast.DictComp, ast.SetComp, ast.ListComp)):
                            ok = selected_edges_generators(val.generators)
                            res.check(ok, "D-POOL", f, norm(n), "from-rewired-edges", f"the pool is built from {[norm(g.iter) for g in val.generators]}, not from the hyperedges selected for rewiring: replacement nodes can come from hyperedges that are not rewired", loc(v.fi, n))
                        else:
                            res.violation("D-POOL", f, norm(n), "from-rewired-edges", "the pool is taken from another source than the hyperedges selected for rewiring", loc(v.fi, n))
        if n_sources == 0:
            raise AnalysisError(f"{f}: pool construction idiom not recognised")
        sel = [n for n in walk_no_nested(v.fi.node) if isinstance(n, ast.Assign) and isinstance(n.targets[0], ast.Name) and n.targets[0].id == "current_edges"]
        res.check(bool(sel) and all("hg.get_edges(size=size)" in norm(s.value) for s in sel), "D-REWIRE", f, norm(sel[0]) if sel else "current_edges = ...", "selection", "the rewired hyperedges are not exactly those of the requested size", loc(v.fi, v.fi.node))
        lp = [n for n in walk_no_nested(v.fi.node) if isinstance(n, ast.For) and "enumerate(current_edges)" in norm(n.iter)]
        if len(lp) != 1:
            raise AnalysisError(f"{f}: replacement loop not recognised")
        apps = [n for n in ast.walk(lp[0]) if isinstance(n, ast.Call) and isinstance(n.func, ast.Attribute) and n.func.attr == "append" and norm(n.func.value) == "new_edges"]
        ids = {v.cfg_id(a) for a in apps}
        head = v.cfg.by_ast[id(lp[0])]
        one_each = all(not v.cfg.reaches_without(v.cfg_id(a), v.cfg_id(b), {head}) for a in apps for b in apps if a is not b)
        res.check(len(apps) >= 2 and one_each, "D-REWIRE", f, "new_edges.append(...)", "one-per-edge", "an iteration can add two replacements (or none) for one hyperedge", loc(v.fi, lp[0]))
        keep = [a for a in apps if norm(a.args[0]) == "edge"]
        res.check(bool(keep), "D-REWIRE", f, "new_edges.append(edge)", "unselected-kept", "hyperedges that are not selected for rewiring are not kept unchanged", loc(v.fi, lp[0]))
        for br, meths in (("inplace", ("remove_edges", "add_edges")),):
            calls = [n for n in walk_no_nested(v.fi.node) if isinstance(n, ast.Call) and isinstance(n.func, ast.Attribute) and n.func.attr in meths]
            rm = [c for c in calls if c.func.attr == "remove_edges"]
            ad = [c for c in calls if c.func.attr == "add_edges"]
            res.check(bool(rm) and all(norm(c.args[0]) == "current_edges" for c in rm), "D-REWIRE", f, norm(rm[0]) if rm else "remove_edges(current_edges)", "removes-listed", "other hyperedges than the listed ones of that size are removed", loc(v.fi, v.fi.node))
            res.check(bool(ad) and all(norm(c.args[0]) == "new_edges" for c in ad), "D-REWIRE", f, norm(ad[0]) if ad else "add_edges(new_edges)", "adds-new", "the replacement list is not what gets added", loc(v.fi, v.fi.node))
    res.discovery["random_shuffle_seed"] = "random_shuffle seeds numpy.random but also draws from the stdlib `random` module (indices_to_replace): outside C14's claims (same-seed reproducibility is claimed for random_hypergraph / random_uniform_hypergraph only)"
    res.assumptions += ["random.sample / numpy.random.choice(replace=False) return distinct elements (library)", "counts per size and distinctness of hyperedges are not decided"]
    return res

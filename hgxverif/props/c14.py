import ast

from .. import cmpshape as M
from .. import forward as F
from .. import rng as R
from ..effects import Effects, check_pure
from ..kinds import SIZE, ORDER
from ..model import AnalysisError, loc, norm, walk_no_nested
from ..report import Result
from ._containers import KIND_RULES

LEVEL_TEXT = (
    "Structural necessary conditions of C14, decided statically: every random draw reachable from random_hypergraph / "
    "random_uniform_hypergraph / add_random_edge(s) comes from the module seeded with the seed parameter, seeding is skipped only "
    "for seed None and precedes the draws, wrappers forward the seed; with inplace=False the generators are effect-free on their "
    "argument (effect analysis under the literal binding); the sample size of every draw is the requested size, nodes are drawn "
    "without replacement from the node range / pool; the rewiring pool is filled only from the hyperedges selected for rewiring "
    "and each rewired hyperedge is replaced by exactly one of the same size; parameters that default to None are never ordered "
    "against numbers without a None test.  Decides the structure, not counts per size or distinctness."
)


def run(ctx):
    res = Result("C14")
    res.rules.update({k: KIND_RULES[k] for k in ("C-SIG", "K-ARG", "K-SIZE")})
    res.rules.update({
        "R-GLOBAL": "all reachable draws come from the module seeded with `seed`; seeding is skipped only for None and precedes the draws; the seed is forwarded",
        "E-INPLACE": "with inplace=False the argument hypergraph is not modified",
        "M-NONE": "seed / order / size are tested with `is None`, never by truthiness",
        "M-EXCL": "order and size together are rejected",
        "N-NONECMP": "a parameter defaulting to None is not ordered against a number without a None test",
        "D-SAMPLE": "the size of every sample is the requested hyperedge size, drawn without replacement from the node range / pool",
        "D-DISTINCT": "the set whose size ends a drawing loop holds canonical hyperedges (sorted tuple / frozenset), so it counts distinct node sets",
        "D-POOL": "the rewiring pool is filled only from the hyperedges selected for rewiring",
        "D-REWIRE": "exactly the listed hyperedges of the size are removed and one hyperedge of the same size is added for each",
    })
    files = ["hypergraphx/generation/random.py", "hypergraphx/generation/scale_free.py", "hypergraphx/generation/activity_driven.py"]
    ctx.add_sites(res, ctx.sites(rules=("C-SIG", "K-ARG", "K-SIZE"), files=files))
    for d in ("random.random_hypergraph", "random.random_uniform_hypergraph", "random.add_random_edge", "random.add_random_edges"):
        with res.guard("R.check_global_seededctx, res, d"):
            R.check_global_seeded(ctx, res, d)
        with res.guard("M.check_none_testsctx, res, d"):
            M.check_none_tests(ctx, res, d)
    eff = Effects(ctx)
    for d in ("random.random_shuffle", "random.random_shuffle_all_orders", "random.add_random_edge", "random.add_random_edges"):
        with res.guard("check_purectx, eff, res, d, rootshg,, constsinplace: False, ruleEINPLA"):
            check_pure(ctx, eff, res, d, roots=("hg",), consts={"inplace": False}, rule="E-INPLACE", detail_prefix="inplace=False:")
        # "everything else intact": the edit goes through add_edge(s) / remove_edge(s).  Replacing the WHOLE state of the argument
        # (`hg.populate_from_dict(h.expose_data_structures())`, clear(), the raw table setters) resets whatever the snapshot does not
        # carry - incidence metadata, empty edges
        with res.guard(f"E-INPLACE no wholesale state replacement in {d}"):
            fi_w = ctx.require(d)
            hgp = fi_w.params[0].arg
            whole = [c_ for c_ in walk_no_nested(fi_w.node) if isinstance(c_, ast.Call) and isinstance(c_.func, ast.Attribute) and isinstance(c_.func.value, ast.Name) and c_.func.value.id == hgp and c_.func.attr in ("populate_from_dict", "clear", "set_edge_list", "set_adj_dict", "__init__", "__setstate__")]
            if whole:
                res.violation("E-INPLACE", fi_w.short, norm(whole[0])[:90], "edits-only", f"`{norm(whole[0])[:60]}` replaces the whole state of the argument: tables that the replacement does not carry (incidence metadata, empty edges) are reset, although only hyperedges were to be added / rewired", loc(fi_w, whole[0]))
            else:
                res.ok("E-INPLACE", fi_w.short, "no wholesale replacement of the argument's state", "edits-only", loc(fi_w, fi_w.node))
        # with inplace=False what comes back is a COPY: a return that hands the argument itself back (an early exit `return None if
        # inplace else hg`) lets the caller - random_shuffle_all_orders rewires what it got in place - modify the argument
        with res.guard(f"E-INPLACE fresh result of {d}"):
            fi_ = ctx.require(d)
            lv_ = eff.lends(fi_, {"inplace": False}).get("hg")
            # (a flag that travels on in a derived form - `_Placement.from_flag(inplace).is_inplace` - cannot be folded: which arm of a
            # conditional runs for inplace=False is then not known, and neither is what the function returns)
            derived_ = any(isinstance(c_, ast.Call) and any(isinstance(x, ast.Name) and x.id == "inplace" for a_ in list(c_.args) + [k.value for k in c_.keywords if k.arg != "inplace"] for x in ast.walk(a_)) for c_ in ast.walk(fi_.node))
            if lv_ == 0 and derived_:
                res.unknown("E-INPLACE", fi_.short, "return <result>", "inplace=False:fresh-result", "the flag is handed on in a derived form; which object is returned for inplace=False was not decided", loc(fi_, fi_.node))
            else:
                res.check(lv_ != 0, "E-INPLACE", fi_.short, "return <result>", "inplace=False:fresh-result", "with inplace=False a return hands back the argument hypergraph itself (or one of its internal objects) instead of a copy: whoever modifies the result modifies the argument", loc(fi_, fi_.node))
        with res.guard("M.check_none_testsctx, res, d"):
            M.check_none_tests(ctx, res, d)
        with res.guard("M.check_exclusionctx, res, d"):
            M.check_exclusion(ctx, res, d)
    with res.guard("R.check_none_default_comparectx, res, scale_free.scale_free_hypergraph"):
        R.check_none_default_compare(ctx, res, "scale_free.scale_free_hypergraph")

    # ---- D-SAMPLE
    from ..kinds import ORDER, _Top

    def sample_calls(v):
        out = []
        for n in walk_no_nested(v.fi.node):
            if isinstance(n, ast.Call):
                dn = R.extern_name(ctx.prog, v.fi, n)
                if dn in ("random.sample", "numpy.random.choice"):
                    out.append((n, dn))
        return out

    def sample_parts(n, dn):
        """(population expr, sample-size expr, drawn without replacement?)"""
        if dn == "random.sample":
            pop, k = (list(n.args) + [None, None])[:2]
            kw = {x.arg: x.value for x in n.keywords}
            return pop, kw.get("k", k), True
        pop = n.args[0] if n.args else None
        kw = {x.arg: x.value for x in n.keywords}
        k = kw.get("size", n.args[1] if len(n.args) > 1 else None)
        repl = kw.get("replace", n.args[2] if len(n.args) > 2 else None)
        return pop, k, isinstance(repl, ast.Constant) and repl.value is False

    def is_index_population(v, pop):
        """`range(len(X))` / `range(n)` with n = len(X): positions of a list, not nodes"""
        e = v.inline(pop) if pop is not None else None
        return isinstance(e, ast.Call) and norm(e.func) == "range" and len(e.args) == 1 and isinstance(e.args[0], ast.Call) and norm(e.args[0].func) == "len"

    def universe_status(v, pop):
        """'ok' when the population is the whole node universe, 'violation' when it is positively a part of it"""
        if pop is None:
            return "unknown"
        e = v.inline(pop)
        params = {a.arg for a in v.fi.params}
        inner = e.args[0] if isinstance(e, ast.Call) and norm(e.func) in ("list", "tuple", "sorted", "np.array", "numpy.array") and len(e.args) == 1 else e
        if isinstance(inner, ast.Call) and norm(inner.func) == "range":
            if len(inner.args) == 1 and isinstance(inner.args[0], ast.Name) and inner.args[0].id in params:
                return "ok"
            return "violation"  # range(n - 1), range(1, n), range(<something else>)
        if isinstance(inner, ast.Call) and isinstance(inner.func, ast.Attribute) and inner.func.attr == "get_nodes" and not inner.args and not inner.keywords:
            return "ok"
        if isinstance(inner, ast.Subscript) and isinstance(inner.slice, ast.Slice):
            return "violation"
        return "unknown"

    with res.guard("D-SAMPLE"):
        for d in ("random.random_hypergraph", "random.add_random_edge", "random.add_random_edges", "random.random_shuffle", "scale_free.scale_free_hypergraph"):
            v = ctx.view(d)
            f = v.fi.short
            params = {a.arg for a in v.fi.params}
            calls = []
            for n, dn in sample_calls(v):
                pop, k, _ = sample_parts(n, dn)
                if is_index_population(v, pop):
                    continue  # a draw of list positions (which hyperedges to rewire), not of nodes
                if dn == "numpy.random.choice" and isinstance(pop, ast.Name) and pop.id in params:
                    continue  # np.random.choice(num_nodes, ...): positions below an integer parameter, not a hyperedge
                calls.append((n, dn))
            if not calls:
                # the draw moved into a module-level helper: `_sample_node_tuple(hg.num_nodes(), size)` -> random.sample(range(n), k).
                # For a function that is GIVEN a hypergraph the population has to be its node labels; positions 0..N-1 are labels
                # only for hypergraphs that were generated that way
                decided = False
                hg_params = [a.arg for a in v.fi.params if a.arg in ("hg", "h", "hypergraph", "H")]
                for c in walk_no_nested(v.fi.node):
                    if not isinstance(c, ast.Call):
                        continue
                    for g in ctx.callees(v.fi, c):
                        if g.module is not v.fi.module or g.cls is not None:
                            continue
                        gv = ctx.view(g)
                        for n2, dn2 in sample_calls(gv):
                            pop2, _k2, _r2 = sample_parts(n2, dn2)
                            e2 = gv.inline(pop2) if pop2 is not None else None
                            inner2 = e2.args[0] if isinstance(e2, ast.Call) and norm(e2.func) in ("list", "tuple", "sorted") and len(e2.args) == 1 else e2
                            if isinstance(inner2, ast.Call) and norm(inner2.func) == "range" and len(inner2.args) == 1 and isinstance(inner2.args[0], ast.Name):
                                pnames = [a.arg for a in g.params]
                                if inner2.args[0].id in pnames:
                                    i_ = pnames.index(inner2.args[0].id)
                                    arg = c.args[i_] if i_ < len(c.args) else next((k.value for k in c.keywords if k.arg == inner2.args[0].id), None)
                                    ai = v.inline(arg, depth=2) if arg is not None else None
                                    # a NODE count of the given hypergraph (`hg.num_nodes()`, `len(hg.get_nodes())`) - not the length of an
                                    # edge list, whose positions are what a rewiring draw legitimately ranges over
                                    from_hg = ai is not None and hg_params and any(isinstance(x, ast.Call) and isinstance(x.func, ast.Attribute) and x.func.attr in ("num_nodes", "get_nodes") and isinstance(x.func.value, ast.Name) and x.func.value.id in hg_params for x in ast.walk(ai))
                                    if not from_hg and ai is not None and any(isinstance(x, ast.Call) and isinstance(x.func, ast.Attribute) and x.func.attr in ("get_edges", "num_edges") for x in ast.walk(ai)):
                                        continue
                                    decided = True
                                    if from_hg:
                                        res.violation("D-SAMPLE", f, norm(c)[:100], "population", f"`{g.short}` draws node POSITIONS from range(`{norm(ai)[:40]}`), a count taken from the given hypergraph: its nodes are labels (any hashable, with gaps after removals), so hyperedges over non-existing nodes are added (and existing nodes with other labels are never chosen)", loc(v.fi, c))
                                    else:
                                        res.ok("D-SAMPLE", f, norm(c)[:100], "population", loc(v.fi, c))
                            elif e2 is not None:
                                decided = True
                                res.unknown("D-SAMPLE", f, norm(c)[:100], "population", f"the draw happens in `{g.short}` from `{norm(e2)[:40]}`", loc(v.fi, c))
                if not decided:
                    res.unknown("D-SAMPLE", f, "random.sample(nodes, size)", "k=size", "no node-sampling call recognised", loc(v.fi, v.fi.node))
                continue
            for n, dn in calls:
                pop, k, repl_ok = sample_parts(n, dn)
                res.check(repl_ok, "D-SAMPLE", f, norm(n), "without-replacement", "nodes of a hyperedge are drawn with replacement: a hyperedge can contain a node twice", loc(v.fi, n))
                kk = v.kind(k) if k is not None else None
                st = "ok" if kk == SIZE else ("violation" if kk == ORDER or isinstance(k, ast.Constant) or (isinstance(k, ast.BinOp)) else "unknown")
                res.add("D-SAMPLE", f, norm(n), "k=size", st, "" if st == "ok" else f"the sample size is `{norm(k) if k is not None else '?'}` ({kk!r}), not the requested hyperedge size", loc(v.fi, n))
                if d != "random.random_shuffle":  # (its population is the rewiring pool: D-POOL)
                    st = universe_status(v, pop)
                    res.add("D-SAMPLE", f, norm(n), "population", st, "" if st == "ok" else f"nodes are drawn from `{norm(v.inline(pop)) if pop is not None else '?'}`, not from the whole node universe (range(num_nodes) / the hypergraph's nodes)", loc(v.fi, n))
    # ---- D-DISTINCT: the set whose size ends the drawing loop counts DISTINCT hyperedges: its elements are canonical
    with res.guard("D-DISTINCT"):
        from ..kinds import Seq, St, strip_none

        for d in ("random.random_hypergraph", "random.add_random_edges", "scale_free.scale_free_hypergraph"):
            v = ctx.view(d)
            f = v.fi.short
            found = 0
            for w in walk_no_nested(v.fi.node):
                if not isinstance(w, ast.While):
                    continue
                cnt = [x for x in ast.walk(w.test) if isinstance(x, ast.Call) and norm(x.func) == "len" and x.args and isinstance(x.args[0], ast.Name)]
                if not cnt:
                    continue
                sname = cnt[0].args[0].id
                for n in ast.walk(w):
                    if isinstance(n, ast.Call) and isinstance(n.func, ast.Attribute) and n.func.attr == "add" and isinstance(n.func.value, ast.Name) and n.func.value.id == sname and n.args:
                        found += 1
                        e = v.inline(n.args[0])
                        k = strip_none(v.kind(n.args[0]))
                        outer = norm(e.func) if isinstance(e, ast.Call) else None
                        inner = norm(e.args[0].func) if isinstance(e, ast.Call) and e.args and isinstance(e.args[0], ast.Call) else None
                        if outer == "frozenset" or (outer == "tuple" and inner == "sorted") or (isinstance(k, Seq) and k.canon):
                            st = "ok"
                        elif outer in ("tuple", "list") or (isinstance(k, Seq) and not k.canon):
                            st = "violation"
                        else:
                            st = "unknown"
                        res.add("D-DISTINCT", f, norm(n), "canonical-element", st, "" if st == "ok" else f"the set that decides when enough hyperedges were drawn holds `{norm(e)[:80]}`, the nodes in drawing order: the same node set drawn in two orders is counted twice and later collapses into one hyperedge, so fewer distinct hyperedges than requested are returned", loc(v.fi, n))
            # a drawing loop that runs on a COUNTER while the draws go into a set: the counter must be taken from the size of the
            # set (draws that repeat an element already held collapse, so counting draws over-counts)
            # (random_hypergraph draws the requested NUMBER of times and lets repeats collapse - "if a hyperedge is sampled multiple
            # times, it will be added only once" is its documented behaviour: counting draws is right there)
            for w in walk_no_nested(v.fi.node) if d != "random.random_hypergraph" else ():
                if not isinstance(w, (ast.While, ast.For)):
                    continue
                sets_grown = []
                for n in ast.walk(w):
                    if isinstance(n, ast.Call) and isinstance(n.func, ast.Attribute) and n.func.attr in ("add", "update") and isinstance(n.func.value, ast.Name):
                        sets_grown.append((n.func.value.id, n))
                    if isinstance(n, ast.AugAssign) and isinstance(n.op, ast.BitOr) and isinstance(n.target, ast.Name):
                        sets_grown.append((n.target.id, n))
                sets_grown = [(nm, n) for nm, n in sets_grown if isinstance(strip_none(v.kind_of_name(nm, n)) if hasattr(v, "kind_of_name") else None, St) or any(isinstance(a_, ast.Assign) and any(isinstance(t_, ast.Name) and t_.id == nm for t_ in a_.targets) and (norm(a_.value) == "set()" or isinstance(a_.value, (ast.Set, ast.SetComp))) for a_ in walk_no_nested(v.fi.node))]
                if not sets_grown or not isinstance(w, ast.While):
                    continue
                tnames = {x.id for x in ast.walk(w.test) if isinstance(x, ast.Name)}
                if any(isinstance(x, ast.Call) and norm(x.func) == "len" and x.args and isinstance(x.args[0], ast.Name) and x.args[0].id in {nm for nm, _ in sets_grown} for x in ast.walk(w.test)):
                    continue
                for n in ast.walk(w):
                    if isinstance(n, ast.AugAssign) and isinstance(n.target, ast.Name) and n.target.id in tnames and isinstance(n.op, (ast.Sub, ast.Add)):
                        found += 1
                        snames = {nm for nm, _ in sets_grown}
                        from_set = any(isinstance(x, ast.Call) and norm(x.func) == "len" and x.args and isinstance(x.args[0], ast.Name) and x.args[0].id in snames for x in ast.walk(v.inline(n.value)))
                        recomputed = any(isinstance(a_, ast.Assign) and any(isinstance(t_, ast.Name) and t_.id == n.target.id for t_ in a_.targets) and any(isinstance(x, ast.Call) and norm(x.func) == "len" and x.args and isinstance(x.args[0], ast.Name) and x.args[0].id in snames for x in ast.walk(a_.value)) for a_ in ast.walk(w))
                        # counted only when the draw is new: `if e not in edges: edges.add(e); missing -= 1`
                        novel = any(any(isinstance(c_, ast.Compare) and len(c_.ops) == 1 and isinstance(c_.ops[0], (ast.NotIn, ast.In)) and isinstance(c_.comparators[0], ast.Name) and c_.comparators[0].id in snames for c_ in ast.walk(i_.test)) for i_ in v.enclosing_all(n, (ast.If,)))
                        novel = novel or any(isinstance(x, (ast.If, ast.IfExp)) and any(isinstance(c_, ast.Compare) and isinstance(c_.ops[0], (ast.NotIn, ast.In)) and isinstance(c_.comparators[0], ast.Name) and c_.comparators[0].id in snames for c_ in ast.walk(x.test)) for x in ast.walk(w))
                        st = "ok" if from_set or recomputed else ("unknown" if novel else "violation")
                        res.add("D-DISTINCT", f, norm(n), "counter-from-set", st, "" if st == "ok" else f"the drawing loop runs on the counter `{n.target.id}`, advanced by `{norm(n.value)}`, while the draws are collected in the set `{sorted(snames)[0]}`: a draw that repeats a hyperedge already held is counted but adds nothing, so fewer distinct hyperedges than requested are returned", loc(v.fi, n))
            if not found:
                res.unknown("D-DISTINCT", f, "while len(edges) < n: edges.add(...)", "canonical-element", "no counting set recognised", loc(v.fi, v.fi.node))
    with res.guard("D-SAMPLE (activity driven)"):
        v = ctx.view("activity_driven.HOADmodel")
        f = v.fi.short
        sc = [n for n, dn in sample_calls(v) if dn == "random.sample"]
        if not sc:
            raise AnalysisError(f"{f}: sampling call not found")
        n_param = v.fi.params[0].arg if v.fi.params else "N"
        for n in sc:
            pop, k, _ = sample_parts(n, "random.sample")
            e = v.inline(pop) if pop is not None else None
            pop_ok = isinstance(e, ast.Call) and norm(e.func) == "range" and len(e.args) == 1 and norm(e.args[0]) == n_param
            pop_bad = isinstance(e, ast.Call) and norm(e.func) == "range" and not pop_ok
            # the number of partners is the order, i.e. the key of the activities dict the loop runs over
            lp = [l for l in v.enclosing_all(n, (ast.For,)) if isinstance(l.target, (ast.Name, ast.Tuple))]
            order_names = set()
            for l in lp:
                it = v.inline(l.iter)
                base = it.func.value if isinstance(it, ast.Call) and isinstance(it.func, ast.Attribute) and it.func.attr in ("keys", "items") else it
                if isinstance(base, ast.Name) and base.id in {a.arg for a in v.fi.params} and base.id != n_param:
                    t = l.target.elts[0] if isinstance(l.target, ast.Tuple) else l.target
                    if isinstance(t, ast.Name):
                        order_names.add(t.id)
            k_ok = isinstance(k, ast.Name) and k.id in order_names
            k_bad = k is not None and not k_ok and (isinstance(k, (ast.BinOp, ast.Constant)) or (isinstance(k, ast.Name) and order_names))
            st = "ok" if pop_ok and k_ok else ("violation" if pop_bad or k_bad else "unknown")
            res.add("D-SAMPLE", f, norm(n), "k=order", st, "" if st == "ok" else "the activated node does not draw `order` partners below N", loc(v.fi, n))
            # the drawn list + the activated node is the hyperedge; it is emitted only when its members are distinct
            asg = v.parent.get(id(n))
            lst = asg.targets[0].id if isinstance(asg, ast.Assign) and isinstance(asg.targets[0], ast.Name) else None
            node_loops = [l for l in v.enclosing_all(n, (ast.For,)) if isinstance(l.target, ast.Name) and norm(v.inline(l.iter)) == f"range({n_param})"]
            me = node_loops[0].target.id if node_loops else None
            if lst is None or me is None:
                res.unknown("D-SAMPLE", f, norm(n), "plus-self", "the partner list / the activated node were not identified", loc(v.fi, n))
                continue
            apps = [x for x in walk_no_nested(v.fi.node) if isinstance(x, ast.Call) and isinstance(x.func, ast.Attribute) and x.func.attr == "append" and norm(x.func.value) == lst]
            concat = [x for x in walk_no_nested(v.fi.node) if isinstance(x, ast.BinOp) and isinstance(x.op, ast.Add) and lst in (norm(x.left), norm(x.right))]
            if apps:
                res.check(len(apps) == 1 and norm(apps[0].args[0]) == me, "D-SAMPLE", f, norm(apps[0]), "plus-self", "the hyperedge is not the partners plus the activated node (size order+1)", loc(v.fi, apps[0]))
            elif concat:
                res.unknown("D-SAMPLE", f, norm(concat[0]), "plus-self", "the hyperedge is assembled by concatenation", loc(v.fi, concat[0]))
            else:
                res.violation("D-SAMPLE", f, f"{lst}.append({me})", "plus-self", "the hyperedge is not the partners plus the activated node (size order+1)", loc(v.fi, n))
            time_loops = [l for l in v.enclosing_all(n, (ast.For,)) if isinstance(l.target, ast.Name) and l not in node_loops and isinstance(v.inline(l.iter), ast.Call) and norm(v.inline(l.iter).func) == "range"]
            tname = time_loops[0].target.id if time_loops else None
            emits = [x for x in walk_no_nested(v.fi.node) if isinstance(x, ast.Call) and isinstance(x.func, ast.Attribute) and x.func.attr == "append" and x.args and isinstance(x.args[0], ast.Tuple) and lst in {y.id for y in ast.walk(x.args[0]) if isinstance(y, ast.Name)}]
            for x in emits:
                xid = v.cfg_id(x)
                dist = False
                for i in [y for y in walk_no_nested(v.fi.node) if isinstance(y, ast.If)]:
                    tt = i.test
                    if isinstance(tt, ast.Compare) and len(tt.ops) == 1 and isinstance(tt.ops[0], (ast.Eq, ast.NotEq)):
                        sides = {norm(tt.left), norm(tt.comparators[0])}
                        if sides == {f"len({lst})", f"len(set({lst}))"}:
                            lab = "T" if isinstance(tt.ops[0], ast.Eq) else "F"
                            if v.cfg.branch_dominated(v.cfg.by_ast[id(tt)], lab, xid):
                                dist = True
                    # the partners are a sample without replacement: they are distinct; adding the activated node only when it is
                    # not among them keeps the hyperedge free of repeats
                    if isinstance(tt, ast.Compare) and len(tt.ops) == 1 and isinstance(tt.ops[0], (ast.In, ast.NotIn)) and norm(tt.left) == me and norm(tt.comparators[0]) == lst:
                        lab = "T" if isinstance(tt.ops[0], ast.NotIn) else "F"
                        tid_ = v.cfg.by_ast.get(id(tt))
                        if tid_ is not None and v.cfg.branch_dominated(tid_, lab, xid) and all(v.cfg.branch_dominated(tid_, lab, v.cfg_id(a_)) for a_ in apps):
                            dist = True
                any_if = bool(v.enclosing_all(x, (ast.If,))) or any(isinstance(y, ast.Continue) for y in ast.walk(v.enclosing(x, (ast.For,)) or x))
                res.add("D-SAMPLE", f, norm(x), "distinct", "ok" if dist else ("unknown" if any_if and not dist and False else "violation"), "" if dist else "hyperedges with a repeated node are emitted", loc(v.fi, x))
                if tname is not None:
                    res.check(norm(x.args[0].elts[0]) == tname, "D-SAMPLE", f, norm(x), "time", "the emitted record does not carry the time step of its activation", loc(v.fi, x))
            tparams = [a.arg for a in v.fi.params if a.arg not in (n_param,)]
            if time_loops:
                rng = v.inline(time_loops[0].iter)
                ok = len(rng.args) == 1 and isinstance(rng.args[0], ast.Name) and rng.args[0].id in tparams
                res.check(ok, "D-SAMPLE", f, norm(rng), "times", "times do not range over [0, time)", loc(v.fi, time_loops[0]))
            else:
                res.unknown("D-SAMPLE", f, "range(time)", "times", "the loop over time steps was not recognised", loc(v.fi, v.fi.node))
    # ---- D-POOL / D-REWIRE in random_shuffle
    with res.guard("D-POOL / D-REWIRE in random_shuffle"):
        v = ctx.view("random.random_shuffle")
        f = v.fi.short
        # roles, discovered: the node draw, its pool, the selected positions, the list of hyperedges of the size
        draws = [(n, dn) for n, dn in sample_calls(v) if not is_index_population(v, sample_parts(n, dn)[0])]
        picks = [(n, dn) for n, dn in sample_calls(v) if is_index_population(v, sample_parts(n, dn)[0])]
        if len(draws) != 1 or len(picks) != 1:
            raise AnalysisError(f"{f}: node draw / position draw not recognised")
        pool = sample_parts(*draws[0])[0]
        pool = pool.id if isinstance(pool, ast.Name) else None
        pick_asg = v.enclosing(picks[0][0], (ast.Assign,))
        idx = pick_asg.targets[0].id if pick_asg is not None and isinstance(pick_asg.targets[0], ast.Name) else None
        sel = [n for n in walk_no_nested(v.fi.node) if isinstance(n, ast.Assign) and isinstance(n.targets[0], ast.Name) and any(isinstance(x, ast.Call) and isinstance(x.func, ast.Attribute) and x.func.attr == "get_edges" for x in ast.walk(n.value))]
        cur = sel[0].targets[0].id if len(sel) == 1 else None
        if pool is None or idx is None or cur is None:
            raise AnalysisError(f"{f}: pool / selected positions / hyperedge list not identified")

        def is_idx(e):
            """the selected positions, possibly re-packed: idx / set(idx) / sorted(idx) / a local holding one of these"""
            x = e
            for _ in range(6):
                if norm(x) == idx or (pick_asg is not None and norm(x) == norm(pick_asg.value)):
                    return True
                if isinstance(x, ast.Call) and isinstance(x.func, ast.Name) and x.func.id in ("set", "sorted", "list", "tuple", "frozenset") and len(x.args) == 1:
                    x = x.args[0]
                elif isinstance(x, ast.Name):
                    r_ = v.resolve(x)
                    if r_ is x:
                        return False
                    x = r_
                else:
                    return False
            return False

        def selected_edges_generators(gens):
            """`for i in <selected positions> for node in <edges>[i]`"""
            its = [norm(g.iter) for g in gens]
            return len(gens) >= 2 and is_idx(gens[0].iter) and its[1] == f"{cur}[{norm(gens[0].target)}]"

        n_sources = 0
        pool_names = {pool}
        # the pool may be re-packed: pool = np.array(list(pool0.keys()))
        for n in walk_no_nested(v.fi.node):
            if isinstance(n, ast.Assign) and isinstance(n.targets[0], ast.Name) and n.targets[0].id in pool_names:
                pool_names |= {x.id for x in ast.walk(n.value) if isinstance(x, ast.Name) and isinstance(v.kind(x), type(v.kind(n.targets[0]))) is not None and x.id not in ("np", "numpy", "list", "sorted")} & {t.targets[0].id for t in walk_no_nested(v.fi.node) if isinstance(t, ast.Assign) and isinstance(t.targets[0], ast.Name)}
        for n in walk_no_nested(v.fi.node):
            # (a) element stores  pool[node] = ... / += ...
            if isinstance(n, (ast.Assign, ast.AugAssign)):
                tg = n.targets if isinstance(n, ast.Assign) else [n.target]
                for t in tg:
                    if isinstance(t, ast.Subscript) and norm(t.value) in pool_names:
                        n_sources += 1
                        loops = v.enclosing_all(n, (ast.For,))
                        its = [norm(l.iter) for l in loops]
                        ok = len(loops) >= 2 and is_idx(loops[-1].iter) and its[-2] == f"{cur}[{norm(loops[-1].target)}]"
                        res.check(ok, "D-POOL", f, norm(n), "from-rewired-edges", f"the pool is filled while iterating {its}: replacement nodes can come from hyperedges that are not rewired", loc(v.fi, n))
                    # (b) whole-pool definitions
                    if isinstance(t, ast.Name) and t.id in pool_names and isinstance(n, ast.Assign):
                        val = n.value
                        if (isinstance(val, ast.Dict) and not val.keys) or (isinstance(val, (ast.List, ast.Set, ast.Tuple)) and not val.elts):
                            continue  # empty initialisation
                        if isinstance(val, ast.Call) and not val.args and norm(val.func) in ("dict", "set", "list"):
                            continue
                        if pool_names & {x.id for x in ast.walk(val) if isinstance(x, ast.Name)}:
                            continue  # re-packing of the pool itself (keys -> array)
                        n_sources += 1
                        if isinstance(val, (ast.DictComp, ast.SetComp, ast.ListComp)):
                            ok = selected_edges_generators(val.generators)
                            res.check(ok, "D-POOL", f, norm(n), "from-rewired-edges", f"the pool is built from {[norm(g.iter) for g in val.generators]}, not from the hyperedges selected for rewiring: replacement nodes can come from hyperedges that are not rewired", loc(v.fi, n))
                        elif isinstance(val, ast.Call) and ctx.callees(v.fi, val):
                            res.unknown("D-POOL", f, norm(n), "from-rewired-edges", "the pool is built by a helper", loc(v.fi, n))
                        else:
                            res.violation("D-POOL", f, norm(n), "from-rewired-edges", "the pool is taken from another source than the hyperedges selected for rewiring", loc(v.fi, n))
            # (a') element additions to a list / set pool:  pool.append(node) / pool.add(node)
            if isinstance(n, ast.Call) and isinstance(n.func, ast.Attribute) and n.func.attr in ("append", "add") and norm(n.func.value) in pool_names and n.args:
                n_sources += 1
                loops = v.enclosing_all(n, (ast.For,))
                its = [norm(l.iter) for l in loops]
                ok = len(loops) >= 2 and is_idx(loops[-1].iter) and its[-2] == f"{cur}[{norm(loops[-1].target)}]"
                res.check(ok, "D-POOL", f, norm(n), "from-rewired-edges", f"the pool is filled while iterating {its}: replacement nodes can come from hyperedges that are not rewired", loc(v.fi, n))
            # (c) bulk additions  pool.update(<mapping / pairs>)  /  pool |= ...
            if isinstance(n, ast.Call) and isinstance(n.func, ast.Attribute) and n.func.attr in ("update", "extend", "union") and norm(n.func.value) in pool_names and n.args:
                n_sources += 1
                src = v.inline(n.args[0], depth=2)
                hgp = v.fi.params[0].arg
                whole = any(isinstance(x, ast.Call) and isinstance(x.func, ast.Attribute) and isinstance(x.func.value, ast.Name) and x.func.value.id == hgp for x in ast.walk(src))
                from_sel = (isinstance(src, (ast.GeneratorExp, ast.ListComp, ast.DictComp, ast.SetComp)) and selected_edges_generators(src.generators))
                if whole and not from_sel:
                    res.violation("D-POOL", f, norm(n)[:100], "from-rewired-edges", f"the pool is extended from `{norm(src)[:50]}`, a query over the WHOLE hypergraph: it gains every node that occurs in hyperedges of that size, not only the nodes of the hyperedges selected for rewiring - replacement nodes can come from hyperedges that are not rewired", loc(v.fi, n))
                elif from_sel:
                    res.ok("D-POOL", f, norm(n)[:100], "from-rewired-edges", loc(v.fi, n))
                else:
                    res.unknown("D-POOL", f, norm(n)[:100], "from-rewired-edges", "what the pool is extended with was not recognised", loc(v.fi, n))
        if n_sources == 0:
            raise AnalysisError(f"{f}: pool construction idiom not recognised")
        size_kw = [x for s_ in sel for x in ast.walk(s_.value) if isinstance(x, ast.Call) and isinstance(x.func, ast.Attribute) and x.func.attr == "get_edges"]
        ge = size_kw[0]
        kw = {k.arg: k.value for k in ge.keywords}
        sz = kw.get("size")
        ok = sz is not None and v.kind(sz) == SIZE and not ge.args and set(kw) <= {"size"} and norm(ge.func.value) == v.fi.params[0].arg
        res.check(ok, "D-REWIRE", f, norm(sel[0]), "selection", "the rewired hyperedges are not exactly those of the requested size", loc(v.fi, sel[0]))
        lp = [n for n in walk_no_nested(v.fi.node) if isinstance(n, ast.For) and norm(n.iter) == f"enumerate({cur})"]
        if len(lp) != 1:
            raise AnalysisError(f"{f}: replacement loop not recognised")
        adds = [n for n in walk_no_nested(v.fi.node) if isinstance(n, ast.Call) and isinstance(n.func, ast.Attribute) and n.func.attr == "add_edges" and n.args]
        newl = norm(adds[0].args[0]) if adds else None
        apps = [n for n in ast.walk(lp[0]) if isinstance(n, ast.Call) and isinstance(n.func, ast.Attribute) and n.func.attr == "append" and norm(n.func.value) == newl]
        if not apps:
            raise AnalysisError(f"{f}: replacement list not recognised")
        head = v.cfg.by_ast[id(lp[0])]
        one_each = all(not v.cfg.reaches_without(v.cfg_id(a), v.cfg_id(b), {head}) for a in apps for b in apps if a is not b)
        res.check(len(apps) >= 2 and one_each, "D-REWIRE", f, f"{newl}.append(...)", "one-per-edge", "an iteration can add two replacements (or none) for one hyperedge", loc(v.fi, lp[0]))
        edge_var = lp[0].target.elts[1].id if isinstance(lp[0].target, ast.Tuple) and len(lp[0].target.elts) == 2 and isinstance(lp[0].target.elts[1], ast.Name) else None
        keep = [a for a in apps if norm(a.args[0]) == edge_var]
        res.check(bool(keep), "D-REWIRE", f, f"{newl}.append({edge_var})", "unselected-kept", "hyperedges that are not selected for rewiring are not kept unchanged", loc(v.fi, lp[0]))
        calls = [n for n in walk_no_nested(v.fi.node) if isinstance(n, ast.Call) and isinstance(n.func, ast.Attribute) and n.func.attr in ("remove_edges", "add_edges")]
        rm = [c for c in calls if c.func.attr == "remove_edges"]
        if rm:
            res.check(all(c.args and norm(c.args[0]) == cur for c in rm), "D-REWIRE", f, norm(rm[0]), "removes-listed", "other hyperedges than the listed ones of that size are removed", loc(v.fi, rm[0]))
        else:
            res.unknown("D-REWIRE", f, f"remove_edges({cur})", "removes-listed", "no remove_edges call recognised", loc(v.fi, v.fi.node))
        if adds:
            res.check(all(norm(c.args[0]) == newl for c in adds), "D-REWIRE", f, norm(adds[0]), "adds-new", "the replacement list is not what gets added", loc(v.fi, adds[0]))
    res.discovery["random_shuffle_seed"] = "random_shuffle seeds numpy.random but also draws from the stdlib `random` module (indices_to_replace): outside C14's claims (same-seed reproducibility is claimed for random_hypergraph / random_uniform_hypergraph only)"
    res.assumptions += ["random.sample / numpy.random.choice(replace=False) return distinct elements (library)", "counts per size and distinctness of hyperedges are not decided"]
    with res.guard("general lint pack over the property's files"):
        from ..lints import check_pack

        check_pack(ctx, res, "C14")
    return res

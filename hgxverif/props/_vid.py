"""Vertex-id tables of the projections (K-VID): the inverse-pair idiom `A[x] = y; B[y] = x`."""
from __future__ import annotations

import ast
from typing import Dict, List, Tuple

from ..model import loc, norm, walk_no_nested


def dict_stores(v):
    """local-dict subscript stores: name -> [(Assign, key expr, value expr)]"""
    out: Dict[str, List[Tuple[ast.Assign, ast.AST, ast.AST]]] = {}
    for n in walk_no_nested(v.fi.node):
        if isinstance(n, ast.Assign) and len(n.targets) == 1 and isinstance(n.targets[0], ast.Subscript) and isinstance(n.targets[0].value, ast.Name):
            out.setdefault(n.targets[0].value.id, []).append((n, n.targets[0].slice, n.value))
    return out


def check_inverse_tables(res, v, a: str, b: str, rule="K-VID"):
    """Every store A[k] = val has a sibling store B[val] = k in the same block (and vice versa)."""
    st = dict_stores(v)
    f = v.fi.short
    sa, sb = st.get(a, []), st.get(b, [])
    res.check(bool(sa) and bool(sb), rule, f, f"{a} / {b}", "tables", f"the id tables {a} / {b} are not both filled", loc(v.fi, v.fi.node))
    for (x, other, xn, on) in ((sa, sb, a, b), (sb, sa, b, a)):
        for asg, k, val in x:
            blk = v.parent.get(id(asg))
            sib = [o for o in other if v.parent.get(id(o[0])) is blk and norm(o[1]) == norm(val) and norm(o[2]) == norm(k)]
            res.check(bool(sib), rule, f, norm(asg), f"{xn}<->{on}", f"`{norm(asg)}` has no inverse entry `{on}[{norm(val)}] = {norm(k)}` next to it: the id tables are not inverse of each other", loc(v.fi, asg))

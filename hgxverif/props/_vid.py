"""Vertex-id tables and graph-building calls of the projections (K-VID).

Roles are discovered from the code, not from names: the graph is the object of kind OBJ[Graph] that is returned first,
the id->object table the dict returned second, its inverse the local dict whose definitions mirror it.  Definitions are
read from subscript stores (`A[k] = v`) and from dict comprehensions (`A = {k: v for ... in it}`), graph calls from
direct method calls and from repo helpers that are handed the graph (`_add_link(g, u, v)`)."""
from __future__ import annotations

import ast
import copy
from typing import Dict, List, Optional, Tuple

from ..kinds import Atom, Dct, Lst, Obj, Seq, St, Tup, Union, _Top, elem_of, strip_none
from ..model import loc, norm, walk_no_nested


# ----------------------------------------------------------------------------------------------- table definitions
class TDef:
    def __init__(self, name, key, val, scope, node, form):
        self.name, self.key, self.val, self.scope, self.node, self.form = name, key, val, scope, node, form


def _canon_comp(comp: ast.DictComp):
    """(key text, value text, iter text) with the comprehension's target names replaced by positional tokens"""
    g = comp.generators[0]
    names = [x.id for x in ast.walk(g.target) if isinstance(x, ast.Name)]
    # order of appearance in the source text of the target
    names = sorted(set(names), key=lambda s: norm(g.target).find(s))
    ren = {n: f"${i}" for i, n in enumerate(names)}

    class R(ast.NodeTransformer):
        def visit_Name(self, n):
            return ast.copy_location(ast.Name(id=ren.get(n.id, n.id), ctx=n.ctx), n)

    k = norm(R().visit(copy.deepcopy(comp.key)))
    v = norm(R().visit(copy.deepcopy(comp.value)))
    return k, v, norm(g.iter) + "|" + norm(R().visit(copy.deepcopy(g.target))) + "|" + ",".join(norm(i) for i in g.ifs) + f"|{len(comp.generators)}"


def table_defs(v) -> Dict[str, List[TDef]]:
    """local dict name -> definitions (stores / comprehensions)"""
    out: Dict[str, List[TDef]] = {}
    for n in walk_no_nested(v.fi.node):
        if isinstance(n, ast.Assign) and len(n.targets) == 1:
            t = n.targets[0]
            if isinstance(t, ast.Subscript) and isinstance(t.value, ast.Name):
                out.setdefault(t.value.id, []).append(TDef(t.value.id, norm(t.slice), norm(n.value), ("block", id(v.parent.get(id(n)))), n, "store"))
            elif isinstance(t, ast.Name) and isinstance(n.value, ast.DictComp):
                k, val, it = _canon_comp(n.value)
                out.setdefault(t.id, []).append(TDef(t.id, k, val, ("comp", it), n, "comp"))
            elif isinstance(t, ast.Name) and isinstance(n.value, (ast.Call,)) and norm(n.value.func) == "dict" and n.value.args:
                out.setdefault(t.id, []).append(TDef(t.id, None, None, ("other", norm(n.value)), n, "other"))
    return out


def dict_stores(v):
    """local-dict subscript stores: name -> [(Assign, key expr, value expr)]"""
    out: Dict[str, List[Tuple[ast.Assign, ast.AST, ast.AST]]] = {}
    for n in walk_no_nested(v.fi.node):
        if isinstance(n, ast.Assign) and len(n.targets) == 1 and isinstance(n.targets[0], ast.Subscript) and isinstance(n.targets[0].value, ast.Name):
            out.setdefault(n.targets[0].value.id, []).append((n, n.targets[0].slice, n.value))
    return out


def _is_raw(k) -> Optional[bool]:
    """True: a node label / hyperedge (raw object); False: an id (string / number); None: unknown"""
    k = strip_none(k)
    if isinstance(k, _Top):
        return None
    if isinstance(k, Union):
        rs = {_is_raw(m) for m in k.members}
        if rs == {True}:
            return True
        if rs == {False}:
            return False
        return None
    if isinstance(k, Atom):
        if k.name == "NODE":
            return True
        if k.name in ("STR", "NUM", "IDX", "EID", "SIZE", "ORDER"):
            return False
        return None
    if isinstance(k, (Seq, Tup)):
        e = elem_of(k)
        r = _is_raw(e)
        return True if r else None
    from ..kinds import Const

    if isinstance(k, Const):
        return False if isinstance(k.value, (int, str)) and not isinstance(k.value, bool) else None
    return None


def discover_tables(v):
    """(graph name, id->object table name, inverse table name) - each None when not discovered"""
    g = id2obj = inv = None
    for r in walk_no_nested(v.fi.node):
        if isinstance(r, ast.Return) and isinstance(r.value, ast.Tuple) and len(r.value.elts) == 2 and all(isinstance(e, ast.Name) for e in r.value.elts):
            g, id2obj = r.value.elts[0].id, r.value.elts[1].id
    defs = table_defs(v)
    if id2obj is not None:
        mine = defs.get(id2obj, [])
        best = None
        for name, ds in defs.items():
            if name == id2obj:
                continue
            score = sum(1 for d in ds for m in mine if d.form == m.form and d.scope == m.scope and d.key == m.val and d.val == m.key)
            if score and (best is None or score > best[0]):
                best = (score, name)
        if best:
            inv = best[1]
    return g, id2obj, inv


def graph_subscript_tables(v, gcalls) -> List[str]:
    """names of local dicts whose entries are used as graph vertices"""
    out = []
    for gc in gcalls:
        for a in gc.vargs:
            for e in (a, v.inline(a, depth=1) if isinstance(a, ast.Name) else a):
                if isinstance(e, ast.Subscript) and isinstance(e.value, ast.Name) and e.value.id not in out:
                    out.append(e.value.id)
    return out


def check_inverse_tables(res, v, a: Optional[str], b: Optional[str], rule="K-VID"):
    """Every definition A[k] = val has a sibling B[val] = k in the same block / over the same iteration (and vice versa)."""
    f = v.fi.short
    defs = table_defs(v)
    if a is None or b is None:
        res.unknown(rule, f, "id tables", "tables", "the pair of id tables (id -> object, object -> id) was not discovered", loc(v.fi, v.fi.node))
        return
    sa, sb = defs.get(a, []), defs.get(b, [])
    if not sa or not sb:
        res.unknown(rule, f, f"{a} / {b}", "tables", f"definitions of {a} / {b} not recognised", loc(v.fi, v.fi.node))
        return
    res.ok(rule, f, f"{a} / {b}", "tables", loc(v.fi, v.fi.node))
    forms = {d.form for d in sa + sb}
    if "other" in forms or len(forms) > 1:
        res.unknown(rule, f, f"{a} / {b}", "inverse", "the two tables are built in different ways; their correspondence is not decided", loc(v.fi, v.fi.node))
        return
    for (x, other, xn, on) in ((sa, sb, a, b), (sb, sa, b, a)):
        for d in x:
            same_scope = [o for o in other if o.scope == d.scope]
            sib = [o for o in same_scope if o.key == d.val and o.val == d.key]
            # `B[A[k]] = k` next to `A[k] = v`: inverse through the stored value itself
            via_lookup = [o for o in same_scope if (o.key == f"{xn}[{d.key}]" and o.val == d.key) or (d.key == f"{on}[{o.key}]" and d.val == o.key)]
            if sib or via_lookup:
                res.ok(rule, f, norm(d.node)[:160], f"{xn}<->{on}", loc(v.fi, d.node))
                continue
            half = [o for o in same_scope if o.key == d.val or o.val == d.key]
            if half:
                res.violation(rule, f, norm(d.node)[:160], f"{xn}<->{on}", f"`{norm(d.node)[:120]}` is paired with `{norm(half[0].node)[:120]}`, which is not its inverse entry `{on}[{d.val}] = {d.key}`: the id tables are not inverse of each other", loc(v.fi, d.node))
            else:
                # an entry without a counterpart in the other table: harmless when the id is used for the vertex directly
                res.unknown(rule, f, norm(d.node)[:160], f"{xn}<->{on}", f"no entry of {on} is stored next to `{norm(d.node)[:100]}`", loc(v.fi, d.node))


# ----------------------------------------------------------------------------------------------- graph calls
class GCall:
    """A networkx call that creates vertices / links: `node` is the call in the analysed function (direct, or the call
    of a helper that is handed the graph), `vargs` the vertex arguments in terms of the analysed function."""

    def __init__(self, node, meth, vargs, weight, via=None):
        self.node, self.meth, self.vargs, self.weight, self.via = node, meth, vargs, weight, via


def _is_graph(k) -> bool:
    k = strip_none(k)
    return isinstance(k, Obj) and k.cls in ("Graph", "DiGraph", "MultiGraph", "MultiDiGraph")


NVERT = {"add_edge": 2, "add_node": 1, "add_nodes_from": 1, "add_edges_from": 1, "add_weighted_edges_from": 1}


def graph_calls(ctx, v, depth: int = 0) -> List[GCall]:
    out: List[GCall] = []
    for n in walk_no_nested(v.fi.node):
        if not isinstance(n, ast.Call):
            continue
        if isinstance(n.func, ast.Attribute) and n.func.attr in NVERT and _is_graph(v.kind(n.func.value)):
            w = next((kw.value for kw in n.keywords if kw.arg == "weight"), None)
            out.append(GCall(n, n.func.attr, list(n.args[: NVERT[n.func.attr]]), w))
            continue
        if depth >= 2:
            continue
        gpos = [i for i, a in enumerate(n.args) if _is_graph(v.kind(a))]
        if not gpos:
            continue
        for callee in ctx.callees(v.fi, n):
            cv = ctx.view(callee)
            pnames = [p.arg for p in callee.params]
            if callee.cls is not None and not callee.is_static and isinstance(n.func, ast.Attribute):
                pnames = pnames[1:]
            actual = {}
            for i, a in enumerate(n.args):
                if i < len(pnames):
                    actual[pnames[i]] = a
            for kw in n.keywords:
                if kw.arg:
                    actual[kw.arg] = kw.value
            for gc in graph_calls(ctx, cv, depth + 1):
                mapped = []
                for a in gc.vargs:
                    mapped.append(actual.get(a.id) if isinstance(a, ast.Name) and a.id in actual else None)
                if any(m is None for m in mapped):
                    out.append(GCall(n, gc.meth, [], None, via=callee.short))
                    continue
                w = gc.weight
                if isinstance(w, ast.Name) and w.id in actual:
                    w = actual[w.id]
                elif isinstance(w, ast.Name):
                    w = None
                out.append(GCall(n, gc.meth, mapped, w, via=callee.short))
    # the same helper call may reach several graph calls of the helper (weighted / unweighted variant): keep one per method
    seen, uniq = set(), []
    for gc in out:
        k = (id(gc.node), gc.meth, tuple(norm(a) for a in gc.vargs))
        if k not in seen:
            seen.add(k)
            uniq.append(gc)
    return uniq


def check_vertices_are_ids(res, v, gcalls: List[GCall], inv: Optional[str], rule="K-VID", what="a graph vertex / edge is created from a raw object instead of its id in the id table (the id table would not map it back)"):
    """Vertex arguments of add_node / add_edge are ids: a lookup in the object->id table, a label that was stored in
    it, or at least a value of an id kind; a node label / hyperedge is reported."""
    f = v.fi.short
    defs = table_defs(v)
    stored_labels = {d.val for d in defs.get(inv, [])} if inv else set()
    for gc in gcalls:
        if gc.meth not in ("add_node", "add_edge"):
            continue
        if not gc.vargs:
            res.unknown(rule, f, norm(gc.node), "from-id-table", f"vertex arguments not visible (created inside {gc.via})", loc(v.fi, gc.node))
            continue
        for a in gc.vargs:
            e = v.inline(a)
            raw = _is_raw(v.kind(a))
            if isinstance(e, ast.Subscript) and isinstance(e.value, ast.Name) and inv is not None and e.value.id == inv:
                st = "ok"
            elif norm(a) in stored_labels or norm(e) in stored_labels:
                st = "ok"
            elif raw is True:
                st = "violation"
            elif raw is False:
                st = "ok"
            else:
                st = "unknown"
            res.add(rule, f, norm(gc.node), f"from-id-table:{norm(a)}", st, what if st == "violation" else ("vertex argument not recognised as an id" if st == "unknown" else ""), loc(v.fi, gc.node))


def check_all_nodes_are_vertices(ctx, res, dotted="projections.bipartite_projection", rule="K-VID"):
    """The node side of the bipartite projection has one vertex per node of the hypergraph: some vertex-creating call runs
    in a loop over get_nodes() (or is handed get_nodes()).  Node vertices created only while walking the members of the
    hyperedges leave isolated nodes without a vertex."""
    v = ctx.view(dotted)
    f = v.fi.short
    creators = [gc for gc in graph_calls(ctx, v) if gc.meth in ("add_node", "add_nodes_from")]

    def over_nodes(e):
        e = v.inline(e)
        return any(isinstance(x, ast.Call) and isinstance(x.func, ast.Attribute) and x.func.attr == "get_nodes" for x in ast.walk(e))

    def over_edges(e):
        e = v.inline(e)
        return any(isinstance(x, ast.Call) and isinstance(x.func, ast.Attribute) and x.func.attr == "get_edges" for x in ast.walk(e))

    all_nodes = False
    member_only = None
    for gc in creators:
        loops = v.enclosing_all(gc.node, (ast.For,))
        comps = [c for c in ast.walk(gc.node) if isinstance(c, (ast.ListComp, ast.GeneratorExp, ast.SetComp))]
        iters = [lp.iter for lp in loops] + [g.iter for c in comps for g in c.generators] + ([gc.node.args[0]] if gc.meth == "add_nodes_from" and gc.node.args else [])
        if any(over_nodes(i) for i in iters):
            all_nodes = True
        elif len(loops) >= 2 and any(over_edges(lp.iter) for lp in loops):
            # created inside `for edge in get_edges(): for node in edge:` - per member of a hyperedge
            member_only = gc
    if all_nodes:
        res.ok(rule, f, "for node in h.get_nodes(): g.add_node(...)", "vertex-per-node", loc(v.fi, v.fi.node))
    elif member_only is not None:
        res.violation(rule, f, norm(member_only.node), "vertex-per-node", "node vertices are created only while walking the members of the hyperedges, never from get_nodes(): a node that lies in no hyperedge has no vertex in the bipartite projection (and no node centrality)", loc(v.fi, member_only.node))
    else:
        res.unknown(rule, f, "for node in h.get_nodes(): g.add_node(...)", "vertex-per-node", "no vertex creation driven by get_nodes() recognised", loc(v.fi, v.fi.node))


def check_line_graph_prefilter(ctx, res, dotted="projections.line_graph", rule="L-PREFILTER"):
    """A size pre-filter on the hyperedges that enter the pairwise comparison of the s-line graph may only drop hyperedges
    that cannot share s nodes with anything: it has to keep every hyperedge with len(e) >= s (a hyperedge of size exactly s
    nested in a larger one shares s nodes with it).  The filter is tabulated over (len(e), s)."""
    from .. import predtab

    v = ctx.view(dotted)
    f = v.fi.short
    params = {a.arg for a in v.fi.params}
    if "s" not in params:
        res.unknown(rule, f, "def line_graph(..., s, ...)", "keeps-len>=s", "no parameter `s`", loc(v.fi, v.fi.node))
        return
    found = 0
    for comp in ast.walk(v.fi.node):
        if not isinstance(comp, (ast.ListComp, ast.SetComp, ast.GeneratorExp)):
            continue
        for g in comp.generators:
            it = v.inline(g.iter)
            tv = g.target.id if isinstance(g.target, ast.Name) else None
            from_edges = any(isinstance(x, ast.Call) and isinstance(x.func, ast.Attribute) and x.func.attr in ("get_incident_edges", "get_edges") for x in ast.walk(it))
            # (or any comprehension of this function that keeps / drops its items by comparing their length with s)
            by_len_vs_s = tv is not None and any(any(isinstance(x, ast.Call) and norm(x.func) == "len" and x.args and isinstance(x.args[0], ast.Name) and x.args[0].id == tv for x in ast.walk(c_)) and any(isinstance(x, ast.Name) and x.id == "s" for x in ast.walk(v.inline(c_))) for c_ in g.ifs)
            if not from_edges and not by_len_vs_s:
                continue
            for cond in g.ifs:
                ci = v.inline(cond)
                if not any(isinstance(x, ast.Call) and norm(x.func) == "len" for x in ast.walk(ci)):
                    continue
                found += 1

                class Sub(ast.NodeTransformer):
                    def visit_Call(self, n):
                        if isinstance(n.func, ast.Name) and n.func.id == "len" and n.args and isinstance(n.args[0], ast.Name) and n.args[0].id == tv:
                            return ast.Name(id="L", ctx=ast.Load())
                        return self.generic_visit(n)

                def alternatives(e):
                    """replace every conditional expression by each of its arms"""
                    for x in ast.walk(e):
                        if isinstance(x, ast.IfExp):
                            outs = []
                            for arm in (x.body, x.orelse):
                                outs += alternatives(_replace(e, x, arm))
                            return outs
                    return [e]

                def _replace(e, old, new):
                    import copy as _c

                    e2 = _c.deepcopy(e)
                    olds = [y for y in ast.walk(e) ]
                    news = [y for y in ast.walk(e2)]
                    idx = next(i for i, y in enumerate(olds) if y is old)
                    target = news[idx]

                    class R(ast.NodeTransformer):
                        def visit_IfExp(self, n):
                            if n is target:
                                return _c.deepcopy(new)
                            return self.generic_visit(n)

                    return R().visit(e2)

                worst = "ok"
                why = ""
                for alt in alternatives(Sub().visit(ci)):
                    tab = predtab.table(alt, ["L", "s"], lo=1, hi=7)
                    if tab is None:
                        if worst == "ok":
                            worst, why = "unknown", "the size pre-filter is not a plain comparison of len(e) with s"
                        continue
                    bad = [k for k, val in tab.items() if k[0] >= k[1] and not val]
                    if bad:
                        L_, s_ = bad[0]
                        worst, why = "violation", f"the pre-filter `{norm(cond)}` drops a hyperedge of size {L_} for s={s_}: nested in a larger hyperedge it shares {s_} nodes with it, so its arc of the s-line graph is lost (and the centralities computed on the line graph change)"
                res.add(rule, f, norm(cond)[:120], "keeps-len>=s", worst, why, loc(v.fi, comp))
    if not found:
        res.ok(rule, f, "no size pre-filter", "keeps-len>=s", loc(v.fi, v.fi.node))
    # ---- the VERTEX population is every hyperedge: a pre-filter may thin out what is compared, never what gets a vertex / an id
    id_loops = []
    for lp in walk_no_nested(v.fi.node):
        if isinstance(lp, ast.For) and isinstance(lp.iter, (ast.Name, ast.Call)):
            tv = {x.id for x in ast.walk(lp.target) if isinstance(x, ast.Name)}
            stores = [st for st in ast.walk(lp) if isinstance(st, ast.Assign) and isinstance(st.targets[0], ast.Subscript) and isinstance(st.targets[0].value, ast.Name) and (({x.id for x in ast.walk(st.targets[0].slice) if isinstance(x, ast.Name)} & tv) or ({x.id for x in ast.walk(st.value) if isinstance(x, ast.Name)} & tv))]
            if stores and any("id" in st.targets[0].value.id for st in stores):
                id_loops.append(lp)
    for lp in id_loops:
        it = lp.iter
        if isinstance(it, ast.Call) and isinstance(it.func, ast.Name) and it.func.id == "enumerate" and it.args:
            it = it.args[0]
        if not isinstance(it, ast.Name):
            continue
        defs = [a for a in walk_no_nested(v.fi.node) if isinstance(a, ast.Assign) and len(a.targets) == 1 and isinstance(a.targets[0], ast.Name) and a.targets[0].id == it.id]
        lid = v.cfg.by_ast.get(id(lp))
        filt = [a for a in defs if isinstance(a.value, (ast.ListComp, ast.SetComp, ast.GeneratorExp)) and any(g.ifs for g in a.value.generators) and v.cfg_id(a) is not None and lid is not None and v.cfg.reachable(v.cfg_id(a), lid)]
        filt += [a for a in defs if isinstance(a.value, ast.Call) and isinstance(a.value.func, ast.Name) and a.value.func.id == "filter" and v.cfg_id(a) is not None and lid is not None and v.cfg.reachable(v.cfg_id(a), lid)]
        if filt:
            cond = filt[0].value.generators[0].ifs[0] if not isinstance(filt[0].value, ast.Call) else filt[0].value
            res.violation(rule, f, norm(filt[0])[:110], "vertex-population", f"the hyperedges that receive a vertex id are filtered (`{norm(cond)[:50]}`) before the ids are assigned: a hyperedge that fails the filter has no vertex in the line graph, so it gets no centrality value at all (and the normalisation of the others changes) - the s-line graph has one vertex per hyperedge whatever its size", loc(v.fi, filt[0]))
        else:
            res.ok(rule, f, norm(lp.iter)[:80], "vertex-population", loc(v.fi, lp))


def check_label_free_ids(ctx, res, dotted="projections.bipartite_projection", rule="K-VID"):
    """The vertex ids of the bipartite projection are a kind prefix plus a COUNTER ("N0", "E3").  The node centralities tell node
    vertices from hyperedge vertices by looking at the id text (`"E" not in k`): an id that embeds the node LABEL ("N" + str(node))
    makes that test look inside the label - node "Eve" is taken for a hyperedge vertex and gets no value."""
    v = ctx.view(dotted)
    f = v.fi.short
    n = 0
    for e in walk_no_nested(v.fi.node):
        parts = []
        if isinstance(e, ast.BinOp) and isinstance(e.op, ast.Add) and isinstance(e.left, ast.Constant) and isinstance(e.left.value, str):
            parts = [e.right]
        elif isinstance(e, ast.JoinedStr):
            parts = [x.value for x in e.values if isinstance(x, ast.FormattedValue)]
        elif isinstance(e, ast.Call) and isinstance(e.func, ast.Attribute) and e.func.attr == "format" and isinstance(e.func.value, ast.Constant):
            parts = list(e.args)
        for p_ in parts:
            inner = p_.args[0] if isinstance(p_, ast.Call) and isinstance(p_.func, ast.Name) and p_.func.id in ("str", "repr") and p_.args else p_
            try:
                k = strip_none(v.kind(inner))
            except Exception:
                continue
            n += 1
            if isinstance(k, Atom) and k.name == "NODE":
                res.violation(rule, f, norm(e)[:80], "label-free-ids", f"the vertex id `{norm(e)[:40]}` embeds the node LABEL: the node centralities separate node vertices from hyperedge vertices by the text of the id (`\"E\" not in id`), so a node whose label contains an `E` is dropped from every node-level centrality - ids are a prefix plus a counter", loc(v.fi, e))
            elif isinstance(k, (Seq, Tup)):
                res.violation(rule, f, norm(e)[:80], "label-free-ids", f"the vertex id `{norm(e)[:40]}` embeds the hyperedge itself (the text of its node labels): the id-text test that separates node vertices from hyperedge vertices then depends on the labels", loc(v.fi, e))
            else:
                res.ok(rule, f, norm(e)[:80], "label-free-ids", loc(v.fi, e))
    if n == 0:
        res.unknown(rule, f, '"N" + str(idx)', "label-free-ids", "the construction of the vertex ids was not recognised", loc(v.fi, v.fi.node))

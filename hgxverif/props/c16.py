import ast

from .. import cmpshape as M
from .. import rng as R
from ..calls import check_self_attrs
from ..kinds import IDX, Atom, elem_of
from ..model import AnalysisError, is_self_attr, loc, norm, walk_no_nested
from ..report import Result
from ._containers import KIND_RULES

LEVEL_TEXT = (
    "Structural necessary conditions of C16, decided statically: every random draw reachable from HyMMSBMSampler.sample comes "
    "from a numpy Generator that was constructed from the constructor's seed (the sampler's own and the wrapped model's), the seed "
    "reaches both constructors unconditionally, helper fallbacks to an unseeded default_rng() are never taken, no global-module "
    "draw is reachable; every self attribute read exists; the only yield builds Hypergraph(weighted=True) from weights that passed "
    "the `> 0` filter with the SAME index set as the hyperedges and the duplicate merge; labels are mapped in with transform and "
    "out with inverse_transform of the same mapping.  Decides the structure, not the degree / size conditioning."
)


def _seed_expr_ok(e, seed="seed"):
    """the expression handed to a generator constructor is `seed` or arithmetic on it - never something that can turn a
    non-None seed into None / a constant"""
    if isinstance(e, ast.Name):
        return e.id == seed
    if isinstance(e, ast.BinOp):
        return _seed_expr_ok(e.left, seed) or _seed_expr_ok(e.right, seed)
    if isinstance(e, ast.IfExp):
        t = norm(e.test)
        if t == f"{seed} is not None":
            return _seed_expr_ok(e.body, seed) and isinstance(e.orelse, ast.Constant) and e.orelse.value is None
        if t == f"{seed} is None":
            return _seed_expr_ok(e.orelse, seed) and isinstance(e.body, ast.Constant) and e.body.value is None
        return False
    return False


def check_seeded_generators(ctx, res, cls_name, entry, rule="R-SEEDED"):
    ci = ctx.prog.cls(cls_name)
    init = ci.methods["__init__"]
    f = init.short
    gens = []
    for n in ast.walk(init.node):
        if isinstance(n, ast.Call):
            dn = R.extern_name(ctx.prog, init, n)
            if dn in ("numpy.random.default_rng", "numpy.random.RandomState", "numpy.random.Generator"):
                gens.append(n)
    res.check(bool(gens), rule, f, "np.random.default_rng(seed)", "own-generator", f"{cls_name} constructs no seeded generator", loc(init, init.node))
    for g in gens:
        a = g.args[0] if g.args else next((k.value for k in g.keywords if k.arg == "seed"), None)
        res.check(a is not None and _seed_expr_ok(a), rule, f, norm(g), "from-seed", "the generator is not constructed from the `seed` parameter (or can lose it)", loc(init, g))
    return gens


def run(ctx):
    res = Result("C16")
    res.rules.update({k: KIND_RULES[k] for k in ("C-SIG", "K-ARG")})
    res.rules.update({
        "R-SEEDED": "every generator reachable from sample() is built from the constructor's seed; the wrapped model receives the seed",
        "R-FALLBACK": "helpers with an `rng or default_rng()` fallback are always handed a generator",
        "R-GLOBAL": "no global-module draw (np.random.* / random.*) is reachable from sample()",
        "M-NONE": "the seed is never tested by truthiness (seed 0 is a seed)",
        "C-ATTR": "every self attribute read exists in the class",
        "Y-WEIGHTED": "the yielded hypergraph is weighted, built from filtered (> 0) weights and hyperedges selected with the same index set, duplicates merged by summation",
        "K-IDX": "labels go in through mapping.transform and come out through mapping.inverse_transform of the same mapping, under the same condition",
    })
    files = ["hypergraphx/generation/hy_mmsbm_sampling.py"]
    ctx.add_sites(res, ctx.sites(rules=("C-SIG", "K-ARG"), files=files))
    with res.guard("check_self_attrsctx, res, HyMMSBMSampler"):
        check_self_attrs(ctx, res, "HyMMSBMSampler")
    with res.guard("check_self_attrsctx, res, HyMMSBM"):
        check_self_attrs(ctx, res, "HyMMSBM")
    with res.guard("check_seeded_generatorsctx, res, HyMMSBMSampler, sample"):
        check_seeded_generators(ctx, res, "HyMMSBMSampler", "sample")
    with res.guard("check_seeded_generatorsctx, res, HyMMSBM, fit"):
        check_seeded_generators(ctx, res, "HyMMSBM", "fit")
    init = ctx.require("HyMMSBMSampler.__init__")
    with res.guard("M.check_none_testsctx, res, HyMMSBMSampler.__init__, paramsseed,"):
        M.check_none_tests(ctx, res, "HyMMSBMSampler.__init__", params=("seed",))
    with res.guard("M.check_none_testsctx, res, HyMMSBM.__init__, paramsseed,"):
        M.check_none_tests(ctx, res, "HyMMSBM.__init__", params=("seed",))
    # the wrapped model receives the seed
    ctor = [n for n in ast.walk(init.node) if isinstance(n, ast.Call) and isinstance(n.func, ast.Name) and n.func.id == "HyMMSBM"]
    if not ctor:
        raise AnalysisError("HyMMSBMSampler.__init__: construction of the wrapped model not found")
    for c in ctor:
        kw = {k.arg: k.value for k in c.keywords}
        res.check("seed" in kw and _seed_expr_ok(kw["seed"]), "R-SEEDED", init.short, norm(c), "model-seed", "the wrapped HyMMSBM is built without the sampler's seed (or with an expression that can lose it): its generator is seeded from OS entropy", loc(init, c))
    # draws reachable from sample()
    entry = ctx.require("HyMMSBMSampler.sample")
    clo = R.closure(ctx, entry)
    n_draws = 0
    for g in clo:
        for d in R.draws_in(ctx, g):
            n_draws += 1
            if d.source.startswith("global:"):
                res.violation("R-GLOBAL", g.short, norm(d.node), d.source, "a draw from a global module state is reachable from sample(): two samplers with the same seed diverge", d.where())
            else:
                recv = d.source.split(":", 1)[1]
                ok = recv in ("self._rng", "rng")
                res.check(ok, "R-SEEDED", g.short, norm(d.node), recv, f"draw from `{recv}`, which is not the seeded generator of the sampler / model", d.where())
    if n_draws < 5:
        raise AnalysisError(f"only {n_draws} draw sites found in the closure of sample() (expected the MCMC, sequence and weight draws)")
    res.ok("R-GLOBAL", entry.short, f"{n_draws} draw sites in {len(clo)} reachable functions", "scan", loc(entry, entry.node))
    # R-FALLBACK
    fallback_fns = {}
    for fi in ctx.prog.functions.values():
        if fi.parent is None and any(isinstance(n, ast.IfExp) and "default_rng" in norm(n) for n in ast.walk(fi.node)) and "rng" in [a.arg for a in fi.params]:
            fallback_fns[fi.qualname] = fi
    for cf in ctx.interp.callfacts:
        if cf.callee.qualname in fallback_fns and cf.caller.qualname in {g.qualname for g in clo}:
            arg = next((k.value for k in cf.node.keywords if k.arg == "rng"), None)
            if arg is None:
                idx = [a.arg for a in cf.callee.params].index("rng")
                arg = cf.node.args[idx] if idx < len(cf.node.args) else None
            ok = arg is not None and norm(arg) in ("self._rng", "rng")
            res.check(ok, "R-FALLBACK", cf.caller.short, norm(cf.node), cf.callee.short, f"{cf.callee.short} is called without a generator: it falls back to an unseeded default_rng()", loc(cf.caller, cf.node))
    # ---- Y-WEIGHTED
    with res.guard("Y-WEIGHTED"):
        v = ctx.view("HyMMSBMSampler.sample")
        f = v.fi.short
        ys = [n for n in walk_no_nested(v.fi.node) if isinstance(n, ast.Yield)]
        if len(ys) != 1 or not isinstance(ys[0].value, ast.Call) or norm(ys[0].value.func) != "Hypergraph":
            raise AnalysisError(f"{f}: yield idiom not recognised")
        kw = {k.arg: k.value for k in ys[0].value.keywords}
        res.check(isinstance(kw.get("weighted"), ast.Constant) and kw["weighted"].value is True, "Y-WEIGHTED", f, norm(ys[0]), "weighted=True", "the produced hypergraph is not weighted", loc(v.fi, ys[0]))
        el, wl = norm(kw.get("edge_list", ast.Constant(None))), norm(kw.get("weights", ast.Constant(None)))
        import re

        m1, m2 = re.fullmatch(r"list\((\w+)\)", el), re.fullmatch(r"list\((\w+)\.values\(\)\)", wl)
        res.check(bool(m1 and m2 and m1.group(1) == m2.group(1)), "Y-WEIGHTED", f, norm(ys[0]), "same-dict", "hyperedges and weights of the produced hypergraph do not come from the same merged dict (they would be out of step)", loc(v.fi, ys[0]))
        merged = m1.group(1) if m1 else None
        augs = [n for n in walk_no_nested(v.fi.node) if isinstance(n, ast.AugAssign) and isinstance(n.target, ast.Subscript) and norm(n.target.value) == merged]
        res.check(bool(augs) and all(isinstance(a.op, ast.Add) for a in augs), "Y-WEIGHTED", f, norm(augs[0]) if augs else f"{merged}[edge] += w", "merge", "duplicate hyperedges are not merged by summing their weights", loc(v.fi, ys[0]))
        for a in augs:
            lp = v.enclosing(a, (ast.For,))
            ok = lp is not None and norm(lp.iter) == "zip(hye_list, weights)"
            res.check(ok, "Y-WEIGHTED", f, norm(lp.iter) if lp is not None else norm(a), "zip", "the merge does not pair each hyperedge with its own weight", loc(v.fi, a))
        nz = [n for n in walk_no_nested(v.fi.node) if isinstance(n, ast.Assign) and isinstance(n.targets[0], ast.Name) and "np.where" in norm(n.value) and "> 0" in norm(n.value)]
        res.check(len(nz) == 1, "Y-WEIGHTED", f, norm(nz[0]) if nz else "nonzero = np.where(weights > 0)[0]", "filter", "zero weights are not filtered out", loc(v.fi, ys[0]))
        if nz:
            ix = nz[0].targets[0].id
            wsel = [n for n in walk_no_nested(v.fi.node) if isinstance(n, ast.Assign) and norm(n.targets[0]) == "weights" and norm(n.value) == f"weights[{ix}]"]
            hsel = [n for n in walk_no_nested(v.fi.node) if isinstance(n, ast.Assign) and norm(n.targets[0]) == "hye_list" and isinstance(n.value, ast.ListComp) and norm(n.value.generators[0].iter) == ix and norm(n.value.elt) == f"hye_list[{norm(n.value.generators[0].target)}]"]
            res.check(bool(wsel) and bool(hsel), "Y-WEIGHTED", f, f"weights[{ix}] / [hye_list[idx] for idx in {ix}]", "same-index-set", "weights and hyperedges are filtered with different index sets: weights end up on the wrong hyperedges", loc(v.fi, nz[0]))
            if wsel and hsel:
                yid = v.cfg_id(ys[0])
                res.check(v.cfg.dominates(v.cfg_id(wsel[0]), yid) and v.cfg.dominates(v.cfg_id(hsel[0]), yid), "Y-WEIGHTED", f, norm(wsel[0]), "before-yield", "the zero-weight filter does not precede the yield on every path", loc(v.fi, wsel[0]))
    # ---- K-IDX mapping in / out
    with res.guard("K-IDX mapping in / out"):
        tr = [n for n in walk_no_nested(v.fi.node) if isinstance(n, ast.Attribute) and n.attr == "transform" and norm(n.value) == "mapping"]
        inv = [n for n in walk_no_nested(v.fi.node) if isinstance(n, ast.Attribute) and n.attr == "inverse_transform" and norm(n.value) == "mapping"]
        res.check(bool(tr) and bool(inv), "K-IDX", f, "mapping.transform / mapping.inverse_transform", "both-directions", "node labels are mapped to indices but not back (or vice versa)", loc(v.fi, v.fi.node))
        for n in inv:
            ifs = v.enclosing_all(n, (ast.If,))
            res.check(any(norm(i.test) in ("initial_hyg", "initial_hyg is not None") for i in ifs), "K-IDX", f, norm(n), "condition", "the inverse mapping is not applied exactly when an initial hypergraph was given", loc(v.fi, n))
        mdef = [n for n in walk_no_nested(v.fi.node) if isinstance(n, ast.Assign) and norm(n.targets[0]) == "mapping"]
        res.check(bool(mdef) and all(norm(x.value) == "initial_hyg.get_mapping()" for x in mdef), "K-IDX", f, norm(mdef[0]) if mdef else "mapping = initial_hyg.get_mapping()", "mapping-of-initial", "the mapping is not that of the initial hypergraph", loc(v.fi, v.fi.node))
    res.assumptions += ["numpy Generators constructed from equal seeds produce equal streams (library)", "degree / size conditioning and chain invariants are not decided (set algebra + asserts)"]
    return res
